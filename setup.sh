#!/bin/sh
# Build the framework from files on disk only (offline): regenerate the tables from /repo,
# build the Lean library (models, proofs) and the compiled line-protocol driver.
set -e
cd "$(dirname "$0")"
mkdir -p out evidence
for f in harness/gen_tables*.py; do /venv/bin/python "$f"; done
cd lean
lake build
