"""C08 — the permutation mapper returns each admissible assignment exactly once.

Correspondence (returned list *in order* == model) + executable specification
(`C08.specCheckCall`: every returned assignment admissible, none twice, every admissible one
present, caller's lists untouched) on every implementation output; `MappingMatrix.is_mapping`
against `C08.isMappingSpec` and against `permute([ps], [ss]) != []`.
"""
import itertools
import json
import math
import os
import threading

import common
from common import Atom, Case, Driver, ImplError, Run, call_impl, enc_mapper, prepare, sx

PROOFS = ["FGVerif.Proofs.C08"]

ALPHA = ["C", "c", "O", "H", "R", "Cl"]
WILDS = [None, "R"]
ICS = [False, True]
CMTNS = [[], ["H"], ["R"], ["H", "R"], ["R", "H"]]
# configurations outside the exhaustive grid, used by the random streams
EXOTIC = [
    ("R", False, "H"),                 # bare string instead of a list
    ("R", True, ["h", "r"]),           # folded duplicates of wildcard: 'r' is not "in" 'R' -> not moved last
    ("R", True, ["r", "H"]),
    ("Cl", False, ["C", "H"]),         # 'C' is a substring of the wildcard 'Cl' -> moved last, but no wildcard
    ("Cl", True, ["H", "Cl", "c"]),
    (None, False, ["H", "H"]),         # duplicate entries
    ("R", False, ["H", "R", "H", "C"]),
    (None, True, ["C", "O"]),
    ("R", False, ["O", "C", "H"]),
    ("c", True, ["C"]),
    ("R", False, ["R", "R"]),
]
MATRIX_SYMS = ["C", "c", "O", "H", "R", "Cl", "Br", "Si", "N", "cl", "r", "S", "B", "l", "Na", "i"]


class Shape(Exception):
    pass


class TooSlow(Exception):
    pass


CALL_LIMIT_S = 20.0   # inputs are generated so that a call walks <= 8! permutations (well under a second)
_slow_calls = [0]     # per process: after two calls that hit the limit the limit drops to 2 s


def _alarm(signum, frame):
    _slow_calls[0] += 1
    raise TooSlow("permute did not return within the time limit (the generated inputs need well under 1 s)")


def limited(f, *a, **k):
    """run f with a wall-clock limit: an implementation that stops terminating in reasonable time
    on these small inputs must not hang the check (main thread of the process only)"""
    import signal
    try:
        old = signal.signal(signal.SIGALRM, _alarm)
    except ValueError:           # not in a main thread
        return f(*a, **k)
    signal.setitimer(signal.ITIMER_REAL, CALL_LIMIT_S if _slow_calls[0] < 2 else 2.0)
    try:
        return f(*a, **k)
    finally:
        signal.setitimer(signal.ITIMER_REAL, 0)
        signal.signal(signal.SIGALRM, old)


def cmtn_list(cmtn):
    return list(cmtn) if isinstance(cmtn, list) else [cmtn]


def mk_mapper(wild, ic, cmtn):
    from fgutils.permutation import PermutationMapper
    return PermutationMapper(wildcard=wild, ignore_case=ic,
                             can_map_to_nothing=(list(cmtn) if isinstance(cmtn, list) else cmtn))


def to_wire(out, n):
    """[[(0,a0),(1,a1),…],…] -> [[a0,a1,…],…]; anything else is a malformed result"""
    res = []
    if not isinstance(out, list):
        raise Shape("result is not a list")
    for mp in out:
        if [p[0] for p in mp] != list(range(n)):
            raise Shape("first components are not 0..n-1 in order: %r" % (mp,))
        row = []
        for p in mp:
            if len(p) != 2 or not isinstance(p[1], int) or isinstance(p[1], bool):
                raise Shape("bad pair %r" % (p,))
            row.append(int(p[1]))
        res.append(row)
    return res


def impl_permute(wild, ic, cmtn, pat, st, mapper=None):
    """-> [result, caller's pattern list after the call, caller's structure list after the call]"""
    m = mapper if mapper is not None else mk_mapper(wild, ic, cmtn)
    p0, s0 = list(pat), list(st)
    out = limited(m.permute, p0, s0)
    return [to_wire(out, len(pat)), p0, s0]


def permute_case(wild, ic, cmtn, pat, st, stream, shared=None, r=None):
    out = call_impl(impl_permute, wild, ic, cmtn, pat, st)
    if shared is not None and not isinstance(out, ImplError):
        # the same mapper object serves many calls in the library: a call must not depend on history
        out2 = call_impl(impl_permute, wild, ic, cmtn, pat, st, shared)
        if isinstance(out2, ImplError) or out2 != out:
            out = ImplError(Shape("a mapper that has served earlier calls answers %r, a fresh one %r" % (out2, out)))
    req = [Atom("C08"), Atom("permute"), enc_mapper(wild, ic, cmtn_list(cmtn)), list(pat), list(st)]
    nres = -1 if isinstance(out, ImplError) else len(out[0])
    has_nothing = (not isinstance(out, ImplError)) and any(-1 in a for a in out[0])
    key = (wild, ic, tuple(cmtn_list(cmtn)), tuple(pat), tuple(st)) if nres != 0 else None
    tags = (stream, "permute", "wild=%s" % wild, "ic=%d" % ic, "cmtn=%s" % ",".join(cmtn_list(cmtn)),
            "lp=%d" % len(pat), "ls=%d" % len(st),
            "results=%s" % ("raised" if nres < 0 else "0" if nres == 0 else "1" if nres == 1 else "2-9" if nres < 10 else "10+"),
            "uses_nothing" if has_nothing else "no_nothing")
    meta = {"op": "permute", "wildcard": wild, "ignore_case": ic, "can_map_to_nothing": cmtn,
            "pattern": list(pat), "structure": list(st)}
    return Case(req, out, meta=meta, nontrivial_key=key, tags=tags)


def padded(wild, ic, cmtn, pat, st):
    """(folded wildcard, folded pattern, folded structure incl. the dummies the padding loop adds)
    — used for cost estimates of the generators only, never as an oracle"""
    cm = sorted(cmtn_list(cmtn), key=lambda x: 1 if wild is not None and x in wild else 0)
    if ic:
        wild = None if wild is None else wild.lower()
        pat = [p.lower() for p in pat]
        st = [s.lower() for s in st]
        cm = [c.lower() for c in cm]
    cur = list(st)
    for c in cm:
        k = len(pat) - len(cur) if c == wild else sum(p == c for p in pat) - sum(s == c for s in cur)
        cur += [c] * max(0, k)
    return wild, list(pat), cur


def cost(wild, ic, cmtn, pat, st):
    """rough running time of the implementation in units of one permutation step: it walks all n!
    permutations of the padded structure and de-duplicates with a linear scan per mapping"""
    w, fp, cur = padded(wild, ic, cmtn, pat, st)
    n, k = len(cur), len(fp)
    perms = math.factorial(n)
    slots = 1
    for p in fp:
        slots *= sum(1 for s in cur if p == w or p == s)
    if n < k or k == 0:
        return perms
    rest = math.factorial(n - k)
    found = min(perms, slots * rest)          # mappings before de-duplication (upper bound)
    uniq = min(slots, perms // rest)          # distinct results (upper bound)
    return perms + found * uniq // 10


def gen_random(rng, big, limit):
    if rng.random() < 0.5:
        wild, ic, cmtn = rng.choice(WILDS), rng.choice(ICS), rng.choice(CMTNS)
    else:
        wild, ic, cmtn = rng.choice(EXOTIC)
    for _ in range(50):
        lp = rng.randint(1, 7 if big else 5)
        ls = rng.randint(0, 9 if big else 6)
        alpha = rng.sample(ALPHA + ["N", "h", "r", "Br"], rng.randint(1, 4))
        if wild is not None and rng.random() < 0.6 and wild not in alpha:
            alpha.append(wild)
        for c in cmtn_list(cmtn):
            if rng.random() < 0.5 and c not in alpha:
                alpha.append(c)
        pat = [rng.choice(alpha) for _ in range(lp)]
        st = [rng.choice(alpha) for _ in range(ls)]
        if rng.random() < 0.4 and ls >= lp:
            # make a match likely: the structure contains the concrete pattern symbols
            st = [p for p in pat if p != wild] + st
            st = st[:max(ls, lp)]
            rng.shuffle(st)
        if cost(wild, ic, cmtn, pat, st) <= (limit if big else limit // 7):
            return wild, ic, cmtn, pat, st
    return wild, ic, cmtn, ["C"], ["C"]


def matrix_cases(r, rng, n_matrices, stream):
    """MappingMatrix over random symbol sets with multi-letter symbols; one case per (ps, ss)"""
    from fgutils.permutation import MappingMatrix
    cases = []
    fixed = [  # corpus: the witness of F6 (DESIGN section 7) and its neighbours
        ("R", False, [], ["Cl", "C"], ["Cl", "C"]),
        (None, False, [], ["Cl", "C"], ["Cl", "C"]),
        ("R", True, ["H"], ["Cl", "C", "R", "H"], ["Cl", "C", "cl", "Br", "l"]),
        (None, True, [], ["N"], ["Na", "N"]),
    ]
    grid = list(itertools.product(WILDS, ICS, CMTNS))
    for k in range(-len(fixed), n_matrices):
        if k < 0:
            wild, ic, cmtn, psyms, ssyms = fixed[k + len(fixed)]
            psyms, ssyms = list(psyms), list(ssyms)
        else:
            wild, ic, cmtn = grid[k] if k < len(grid) else rng.choice(EXOTIC)
            psyms = rng.sample(MATRIX_SYMS, rng.randint(1, 6))
            ssyms = rng.sample(MATRIX_SYMS, rng.randint(1, 6))
        if k >= 0 and k % 3 == 0:
            for s in ("Cl", "C"):           # the witness of F6: a multi-letter symbol on both sides
                if s not in psyms:
                    psyms.append(s)
                if s not in ssyms:
                    ssyms.append(s)
        p0, s0 = list(psyms), list(ssyms)
        mapper = call_impl(mk_mapper, wild, ic, cmtn)
        mm = mapper if isinstance(mapper, ImplError) else call_impl(MappingMatrix, p0, s0, mapper)
        lists_touched = (p0 != psyms or s0 != ssyms)
        for ps in psyms:
            for ss in ssyms:
                if isinstance(mm, ImplError):
                    ans = mm
                elif lists_touched:
                    ans = ImplError(Shape("MappingMatrix modified the caller's symbol lists"))
                else:
                    ans = call_impl(lambda: bool(mm.is_mapping(ps, ss)))
                    direct = call_impl(lambda: mk_mapper(wild, ic, cmtn).permute([ps], [ss]) != [])
                    if not isinstance(ans, ImplError) and (isinstance(direct, ImplError) or direct != ans):
                        ans = ImplError(Shape("is_mapping(%r,%r)=%r but permute([ps],[ss]) != [] is %r" % (ps, ss, ans, direct)))
                req = [Atom("C08"), Atom("ismapping"), enc_mapper(wild, ic, cmtn_list(cmtn)), ps, ss]
                multi = len(ps) > 1 or len(ss) > 1
                meta = {"op": "ismapping", "wildcard": wild, "ignore_case": ic, "can_map_to_nothing": cmtn,
                        "pattern_symbols": psyms, "structure_symbols": ssyms, "ps": ps, "ss": ss}
                cases.append(Case(req, ans, meta=meta,
                                  nontrivial_key=("m", wild, ic, tuple(cmtn_list(cmtn)), ps, ss),
                                  tags=("corpus" if k < 0 else stream, "ismapping", "multi_letter" if multi else "single_letter",
                                        "answer=%s" % ("raised" if isinstance(ans, ImplError) else int(ans)))))
    return cases


class ParDriver:
    """several driver processes; a batch is cut into contiguous pieces (order-preserving, so
    results do not depend on the number of processes)"""

    def __init__(self, n):
        self.ds = [Driver() for _ in range(n)]
        self.count = 0

    def batch(self, lines):
        n = len(self.ds)
        if len(lines) < 4 * n:
            return self.ds[0].batch(lines)
        step = (len(lines) + n - 1) // n
        parts = [lines[i * step:(i + 1) * step] for i in range(n)]
        res = [None] * n
        errs = []

        def work(i):
            try:
                res[i] = self.ds[i].batch(parts[i])
            except Exception as e:  # noqa
                errs.append(e)

        ts = [threading.Thread(target=work, args=(i,)) for i in range(n)]
        for t in ts:
            t.start()
        for t in ts:
            t.join()
        if errs:
            raise errs[0]
        self.count += len(lines)
        return [x for part in res for x in part]

    def close(self):
        for d in self.ds:
            d.close()


def exhaustive_pairs(max_total, max_each):
    """all (pattern, structure) over ALPHA with |pat|,|str| <= max_each and |pat|+|str| <= max_total"""
    for lp in range(0, max_each + 1):
        for ls in range(0, max_each + 1):
            if lp + ls > max_total:
                continue
            for pat in itertools.product(ALPHA, repeat=lp):
                for st in itertools.product(ALPHA, repeat=ls):
                    yield pat, st


CORPUS = [
    # m15 (de-duplication only against the last mapping): two dummies, duplicates not adjacent
    ("R", False, ["H"], ["H", "H", "H"], ["H"]),
    (None, False, ["H"], ["H", "H", "H"], ["H"]),
    ("R", False, ["H", "R"], ["R", "H", "H"], ["C"]),
    # structure-side wildcard must not match a concrete pattern symbol
    ("R", False, [], ["C"], ["R"]),
    ("R", True, [], ["c", "C"], ["r", "R", "C"]),
    ("R", False, [], ["R", "C"], ["R", "C"]),
    # wildcard + ignore_case + map-to-nothing together
    ("R", True, ["H", "R"], ["r", "h", "C"], ["c", "H"]),
    ("R", True, ["R", "H"], ["R", "R", "H"], ["C"]),
    # multi-letter symbols inside lists
    ("R", False, ["H"], ["Cl", "C", "R"], ["C", "Cl", "Cl"]),
    (None, True, [], ["Cl", "cl"], ["CL", "cl", "Cl"]),
    # empty pattern / empty structure
    ("R", False, ["H", "R"], [], ["C"]),
    ("R", False, ["H", "R"], ["H", "R"], []),
    (None, False, [], [], []),
]


_SHARED = {}


def _shared_mapper(wild, ic, cmtn):
    """one long-lived mapper per configuration and worker process"""
    k = (wild, ic, repr(cmtn))
    if k not in _SHARED:
        _SHARED[k] = mk_mapper(wild, ic, cmtn)
    return _SHARED[k]


def _work(inp):
    stream, wild, ic, cmtn, pat, st = inp
    return permute_case(wild, ic, cmtn, pat, st, stream, _shared_mapper(wild, ic, cmtn))


def gen_inputs(tier, rng):
    """the permute inputs of a run, in a fixed order (all randomness from rng, drawn here)"""
    grid = list(itertools.product(WILDS, ICS, CMTNS))
    for wild, ic, cmtn, pat, st in CORPUS:
        yield ("corpus", wild, ic, cmtn, pat, st)
    # exhaustive over the small alphabet
    if tier == "thorough":
        pairs = itertools.chain(exhaustive_pairs(6, 3),
                                (p for p in exhaustive_pairs(5, 5) if max(len(p[0]), len(p[1])) > 3))
    else:
        pairs = exhaustive_pairs(4, 4)
    for pat, st in pairs:
        for wild, ic, cmtn in grid:
            yield ("exhaustive", wild, ic, cmtn, pat, st)
    # random sample of the box |pat|,|str| <= 4 (quick) / <= 6 (thorough) over the same alphabet
    box = 4 if tier == "quick" else 6
    limit = 5040 if tier == "quick" else 120960
    for _ in range(20000 if tier == "quick" else 300000):
        wild, ic, cmtn = rng.choice(grid)
        for _try in range(20):
            pat = [rng.choice(ALPHA) for _ in range(rng.randint(1, box))]
            st = [rng.choice(ALPHA) for _ in range(rng.randint(0, box))]
            if cost(wild, ic, cmtn, pat, st) <= limit // 7:
                break
        else:
            pat, st = ["C"], ["C"]
        yield ("box", wild, ic, cmtn, pat, st)
    # random longer lists, exotic configurations
    for k in range(10000 if tier == "quick" else 200000):
        wild, ic, cmtn, pat, st = gen_random(rng, k % 5 == 0, limit)
        yield ("random", wild, ic, cmtn, pat, st)


def run(tier, seed):
    import multiprocessing
    r = Run("C08", tier, seed)
    if not prepare(r, PROOFS, "C08"):
        return 2
    rng = r.rng
    ncpu = os.cpu_count() or 2
    pool = multiprocessing.get_context("fork").Pool(max(1, min(14, ncpu - 1)))
    try:
        r.driver = ParDriver(min(8, ncpu))
        # MappingMatrix cases (drawn first so that the permute stream can be consumed lazily)
        mcases = matrix_cases(r, rng, 60 if tier == "quick" else 1500, "matrix")
        r.evaluate(mcases[:2000])          # F6 witnesses come first
        block = []
        stopped = False
        for inp in gen_inputs(tier, rng):
            block.append(inp)
            if len(block) >= 30000:
                r.evaluate(pool.map(_work, block, chunksize=250))
                block = []
                if r.spec_failures:
                    # a concrete failing input is in hand: report it instead of searching on
                    stopped = True
                    break
        if block and not stopped:
            r.evaluate(pool.map(_work, block, chunksize=250))
        for k in range(2000, len(mcases), 40000):
            if not stopped:
                r.evaluate(mcases[k:k + 40000])
        r.extra_cov["stopped_at_first_failing_block"] = stopped
    finally:
        pool.terminate()
    r.assumptions = [
        "itertools.permutations order is modelled by Perm.arrangements (validated, not verified)",
        "str.lower() is modelled by String.toLower: symbols are ASCII",
        "Python's `x in wildcard` substring test in the constructor's sort key is modelled by Perm.isSubstr",
        "an assignment [(0,a0),(1,a1),…] travels as (a0 a1 …); the harness rejects any other shape as a failure",
    ]
    r.extra_cov["exhaustive_domain"] = "all pattern/structure lists over %s with %s, times %d configurations" % (
        ALPHA, "|pat|+|str| <= 4" if tier == "quick" else "|pat|,|str| <= 3 and all with |pat|+|str| <= 5", 20)
    # known finding K6 (recorded, not repaired): the witness is replayed against the real code on every run
    try:
        from fgutils.permutation import PermutationMapper
        k6 = next((f for f in common.load_known_findings() if f["id"] == "K6" and f.get("status") == "open"), None)
        odd = PermutationMapper("R", ignore_case=True, can_map_to_nothing=["r", "H"]).permute(["R", "H"], ["C"])
        nat = PermutationMapper("R", ignore_case=True, can_map_to_nothing=["H", "r"]).permute(["R", "H"], ["C"])
        reproduced = [(0, -1), (1, -1)] in [list(m) for m in odd] and [(0, -1), (1, -1)] not in [list(m) for m in nat]
        r.extra_cov["known_finding_K6_reproduced"] = bool(reproduced)
        if k6 is not None and reproduced:
            print("KNOWN-FINDING: property=C08 %s [K6]" % k6["what"][:300])
        elif k6 is not None:
            print("NOTE property=C08 known finding K6 does not reproduce on this tree")
    except Exception as e:  # the witness must never decide the verdict
        r.extra_cov["known_finding_K6_reproduced"] = "error: %r" % (e,)
    return r.finish(
        level="proof",
        rule="exhaustive: every pattern/structure list over {C,c,O,H,R,Cl} (quick: |pat|+|str|<=4; thorough: |pat|,|str|<=3 and |pat|+|str|<=5) "
             "x wildcard in {None,R} x ignore_case x can_map_to_nothing in {[],[H],[R],[H,R],[R,H]}; random lists from the box up to 4x4 (6x6 thorough); "
             "random longer lists (pattern <= 7, structure <= 9) incl. bare-string / duplicate / substring-of-wildcard / folded configurations; "
             "MappingMatrix over random symbol sets with multi-letter symbols, one case per symbol pair; "
             "non-trivial = at least one assignment returned (permute) / every matrix cell, distinct by (configuration, lists)",
        checker_cmd="cd lean && lake build FGVerif.Proofs.C08 && lake env lean FGVerif/Audit/C08.lean",
        explanation="theorems in lean/FGVerif/Proofs/C08.lean about Model/Permutation.lean (permute_exact, permute_nodup, arrangements lemmas, "
                    "specCheck_sound); model tied to fgutils.permutation by differential testing including result order; executable spec "
                    "C08.specCheckCall applied to every implementation output together with the caller's lists after the call; every call is "
                    "repeated on a long-lived mapper object and must answer the same")


def replay(path):
    """re-run the request of a replay file against the current tree"""
    d = json.load(open(path))
    meta = d.get("meta") or {}
    r = Run("C08", "replay", d.get("seed", 0))
    if not prepare(r, PROOFS, "C08"):
        return 2
    if meta.get("op") == "permute":
        c = permute_case(meta["wildcard"], meta["ignore_case"], meta["can_map_to_nothing"], meta["pattern"],
                         meta["structure"], "replay")
        r.evaluate([c])
    elif meta.get("op") == "ismapping":
        from fgutils.permutation import MappingMatrix
        wild, ic, cmtn = meta["wildcard"], meta["ignore_case"], meta["can_map_to_nothing"]
        ans = call_impl(lambda: bool(MappingMatrix(list(meta["pattern_symbols"]), list(meta["structure_symbols"]),
                                                   mk_mapper(wild, ic, cmtn)).is_mapping(meta["ps"], meta["ss"])))
        req = [Atom("C08"), Atom("ismapping"), enc_mapper(wild, ic, cmtn_list(cmtn)), meta["ps"], meta["ss"]]
        r.evaluate([Case(req, ans, meta=meta, nontrivial_key=("m",))])
    else:
        print("ERROR property=C08 replay file carries no re-runnable request")
        return 2
    # no evidence file is written for a replay
    if r.driver is not None:
        r.driver.close()
    if r.driver_errors:
        print("ERROR property=C08 the driver could not answer the replayed request")
        return 2
    bad = r.spec_failures or r.corr_failures
    if bad:
        p = r.write_replay("failing-input" if r.spec_failures else "correspondence", "replayed", r.outcome_payload(bad[0]))
        print("VIOLATION property=C08 replay=%s%s" % (p, "" if r.spec_failures else " no-failing-input-found"))
        return 1
    print("replay: property C08 holds on the replayed request")
    return 0
