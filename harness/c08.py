"""C08 — the permutation mapper returns each admissible assignment exactly once.

Correspondence (returned list == model; the ORDER of the list is not part of the statement: an answer that is a
re-ordering of the model's and passes the executable specification agrees, tag `order_differs`) + executable specification
(`C08.specCheckCall`: every returned assignment admissible, none twice, every admissible one
present, caller's lists untouched) on every implementation output; `MappingMatrix.is_mapping`
against `C08.isMappingSpec` and against `permute([ps], [ss]) != []`.

ALTERNATIVE FORMS of the mapper's configuration (tags cmtn-form:* / ctor-form:*): `can_map_to_nothing` as a BARE STRING
(documented meaning: a one-element list — also for MULTI-LETTER element symbols such as "Cl", "Br", "Si", which an
iteration over the string would split into letters), the constructor called with positional arguments or with the
defaults left out.  A share of every stream (exhaustive, box, random, matrices) goes through each alternative; the Lean
model always receives the intended normal form (["Cl"]), and the canonical form (keywords, list) is asked of the
implementation as well: both must give the same answer (a differing canonical answer is judged as a case of its own).
"""
import itertools
import json
import math
import os
import threading

import common
from common import Atom, Case, Driver, ImplError, Run, call_impl, enc_mapper, prepare, sx

PROOFS = ["FGVerif.Proofs.C08"]

ALPHA = ["C", "c", "O", "H", "R", "Cl"]
WILDS = [None, "R"]
ICS = [False, True]
CMTNS = [[], ["H"], ["R"], ["H", "R"], ["R", "H"]]
# configurations outside the exhaustive grid, used by the random streams
EXOTIC = [
    ("R", False, "H"),                 # bare string instead of a list
    ("R", True, ["h", "r"]),           # folded duplicates of wildcard: 'r' is not "in" 'R' -> not moved last
    ("R", True, ["r", "H"]),
    ("Cl", False, ["C", "H"]),         # 'C' is a substring of the wildcard 'Cl' -> moved last, but no wildcard
    ("Cl", True, ["H", "Cl", "c"]),
    (None, False, ["H", "H"]),         # duplicate entries
    ("R", False, ["H", "R", "H", "C"]),
    (None, True, ["C", "O"]),
    ("R", False, ["O", "C", "H"]),
    ("c", True, ["C"]),
    ("R", False, ["R", "R"]),
]
MATRIX_SYMS = ["C", "c", "O", "H", "R", "Cl", "Br", "Si", "N", "cl", "r", "S", "B", "l", "Na", "i"]
# ALTERNATIVE FORM of the configuration: `can_map_to_nothing` given as a BARE STRING (documented and used by the
# library's own tests: "a bare string is a one-element list"), in particular with MULTI-LETTER element symbols, which
# a normalisation by iteration (`list("Cl") == ["C", "l"]`) would split.  The Lean model always receives the intended
# normal form ([<the string>]); the canonical LIST form is also asked of the implementation and must answer the same.
BARE_STRINGS = ["Cl", "Br", "Si", "H", "R", "cl", "Na", "C"]
BARE = [(w, ic, c) for c in BARE_STRINGS for w in (None, "R") for ic in (False, True)] + \
       [("Cl", False, "Cl"), ("Cl", True, "cl"), ("Br", False, "B"), ("Si", False, "Si"), ("R", False, "RH")]
# the letters a split multi-letter symbol falls into must occur in the symbol lists, next to the symbol itself
BARE_ALPHA = {"Cl": ["C", "l", "Cl", "O"], "Br": ["B", "r", "Br", "C"], "Si": ["S", "i", "Si", "C"], "Na": ["N", "a", "Na", "C"],
              "cl": ["c", "l", "cl", "Cl", "C"], "RH": ["R", "H", "RH", "C"]}
ALT_FORM_SHARE = 0.15      # share of the random streams that goes through an alternative form of the configuration


class Shape(Exception):
    pass


class TooSlow(Exception):
    pass


CALL_LIMIT_S = 20.0   # inputs are generated so that a call walks <= 8! permutations (well under a second)
LONG_LIMIT_S = 300.0  # the `long-structure` stream: 9-11 symbols, the implementation walks 9! .. 11! permutations (1 s .. 1 min)
_slow_calls = [0]     # per process: after two calls that hit the limit the limit drops to 2 s
_limit = [None]       # per process: limit of the call in progress (None = CALL_LIMIT_S)


def _alarm(signum, frame):
    _slow_calls[0] += 1
    raise TooSlow("permute did not return within the time limit (the generated inputs need well under 1 s)")


def limited(f, *a, **k):
    """run f with a wall-clock limit: an implementation that stops terminating in reasonable time
    on these small inputs must not hang the check (main thread of the process only)"""
    import signal
    try:
        old = signal.signal(signal.SIGALRM, _alarm)
    except ValueError:           # not in a main thread
        return f(*a, **k)
    signal.setitimer(signal.ITIMER_REAL, _limit[0] if _limit[0] is not None else CALL_LIMIT_S if _slow_calls[0] < 2 else 2.0)
    try:
        return f(*a, **k)
    finally:
        signal.setitimer(signal.ITIMER_REAL, 0)
        signal.signal(signal.SIGALRM, old)


def cmtn_list(cmtn):
    return list(cmtn) if isinstance(cmtn, list) else [cmtn]


def mk_mapper(wild, ic, cmtn, form=None):
    """form None: keyword arguments, `can_map_to_nothing` as given (a list, or a bare string = the alternative form
    of a one-element list); "omitted": defaults left out (only legal when they ARE the defaults); "positional":
    the three arguments by position"""
    from fgutils.permutation import PermutationMapper
    c = list(cmtn) if isinstance(cmtn, list) else cmtn
    if form == "positional":
        return PermutationMapper(wild, ic, c)
    if form == "omitted":
        kw = {}
        if wild is not None:
            kw["wildcard"] = wild
        if ic:
            kw["ignore_case"] = True
        if c != []:
            kw["can_map_to_nothing"] = c
        return PermutationMapper(**kw)
    return PermutationMapper(wildcard=wild, ignore_case=ic, can_map_to_nothing=c)


def form_tag(cmtn, form):
    if not isinstance(cmtn, list):
        return "cmtn-form:bare-string" + (":multi-letter" if len(cmtn) > 1 else ":one-letter")
    return "cmtn-form:list" if form is None else "ctor-form:" + form


def to_wire(out, n):
    """[[(0,a0),(1,a1),…],…] -> [[a0,a1,…],…]; anything else is a malformed result"""
    res = []
    if not isinstance(out, list):
        raise Shape("result is not a list")
    for mp in out:
        if [p[0] for p in mp] != list(range(n)):
            raise Shape("first components are not 0..n-1 in order: %r" % (mp,))
        row = []
        for p in mp:
            if len(p) != 2 or not isinstance(p[1], int) or isinstance(p[1], bool):
                raise Shape("bad pair %r" % (p,))
            row.append(int(p[1]))
        res.append(row)
    return res


def impl_permute(wild, ic, cmtn, pat, st, mapper=None):
    """-> [result, caller's pattern list after the call, caller's structure list after the call]"""
    m = mapper if mapper is not None else mk_mapper(wild, ic, cmtn)
    p0, s0 = list(pat), list(st)
    out = limited(m.permute, p0, s0)
    return [to_wire(out, len(pat)), p0, s0]


def permute_case(wild, ic, cmtn, pat, st, stream, shared=None, r=None, form=None):
    out = call_impl(lambda: impl_permute(wild, ic, cmtn, pat, st, mk_mapper(wild, ic, cmtn, form)))
    if shared is not None and not isinstance(out, ImplError):
        # the same mapper object serves many calls in the library: a call must not depend on history
        out2 = call_impl(impl_permute, wild, ic, cmtn, pat, st, shared)
        if isinstance(out2, ImplError) or out2 != out:
            out = ImplError(Shape("a mapper that has served earlier calls answers %r, a fresh one %r" % (out2, out)))
    canon_differs = None
    if (form is not None or not isinstance(cmtn, list)) and not isinstance(out, ImplError):
        # alternative form of the configuration: the canonical form (keywords, list) must answer the same.  The answer
        # sent to the driver stays the one of the ALTERNATIVE form (the spec judges it); when the two differ the
        # canonical form's answer is judged as a case of its own (permute_cases), so whichever is wrong is reported
        canon_out = call_impl(impl_permute, wild, ic, cmtn_list(cmtn), pat, st)
        if isinstance(canon_out, ImplError) or canon_out != out:
            canon_differs = canon_out.text if isinstance(canon_out, ImplError) else canon_out[0]
    req = [Atom("C08"), Atom("permute"), enc_mapper(wild, ic, cmtn_list(cmtn)), list(pat), list(st)]
    nres = -1 if isinstance(out, ImplError) else len(out[0])
    has_nothing = (not isinstance(out, ImplError)) and any(-1 in a for a in out[0])
    key = (wild, ic, tuple(cmtn_list(cmtn)), tuple(pat), tuple(st)) if nres != 0 else None
    tags = (stream, "permute", "wild=%s" % wild, "ic=%d" % ic, "cmtn=%s" % ",".join(cmtn_list(cmtn)),
            form_tag(cmtn, form), "lp=%d" % len(pat), "ls=%d" % len(st),
            "results=%s" % ("raised" if nres < 0 else "0" if nres == 0 else "1" if nres == 1 else "2-9" if nres < 10 else "10+"),
            "uses_nothing" if has_nothing else "no_nothing")
    meta = {"op": "permute", "wildcard": wild, "ignore_case": ic, "can_map_to_nothing": cmtn, "constructor_form": form,
            "pattern": list(pat), "structure": list(st)}
    if canon_differs is not None:
        meta["answer_of_the_canonical_form_differs"] = {"can_map_to_nothing": cmtn_list(cmtn), "answer": canon_differs}
        tags = tags + ("alternative-form-answers-differently",)
    return Case(req, out, meta=meta, nontrivial_key=key, tags=tags)


def permute_cases(wild, ic, cmtn, pat, st, stream, shared=None, form=None):
    c = permute_case(wild, ic, cmtn, pat, st, stream, shared, form=form)
    if "answer_of_the_canonical_form_differs" in c.meta:
        return [c, permute_case(wild, ic, cmtn_list(cmtn), pat, st, stream)]
    return [c]


def padded(wild, ic, cmtn, pat, st):
    """(folded wildcard, folded pattern, folded structure incl. the dummies the padding loop adds)
    — used for cost estimates of the generators only, never as an oracle"""
    cm = sorted(cmtn_list(cmtn), key=lambda x: 1 if wild is not None and x in wild else 0)
    if ic:
        wild = None if wild is None else wild.lower()
        pat = [p.lower() for p in pat]
        st = [s.lower() for s in st]
        cm = [c.lower() for c in cm]
    cur = list(st)
    for c in cm:
        k = len(pat) - len(cur) if c == wild else sum(p == c for p in pat) - sum(s == c for s in cur)
        cur += [c] * max(0, k)
    return wild, list(pat), cur


def cost(wild, ic, cmtn, pat, st):
    """rough running time of the implementation in units of one permutation step: it walks all n!
    permutations of the padded structure and de-duplicates with a linear scan per mapping"""
    w, fp, cur = padded(wild, ic, cmtn, pat, st)
    n, k = len(cur), len(fp)
    perms = math.factorial(n)
    slots = 1
    for p in fp:
        slots *= sum(1 for s in cur if p == w or p == s)
    if n < k or k == 0:
        return perms
    rest = math.factorial(n - k)
    found = min(perms, slots * rest)          # mappings before de-duplication (upper bound)
    uniq = min(slots, perms // rest)          # distinct results (upper bound)
    return perms + found * uniq // 10


def bare_alpha(rng, cmtn):
    """symbols for a bare-string configuration: the symbol itself, the letters it would fall into, and others"""
    base = BARE_ALPHA.get(cmtn, [cmtn, "C", "O"])
    return list(base) + rng.sample(ALPHA + ["N", "h", "r", "Br", "l"], rng.randint(0, 2))


def gen_random(rng, big, limit, bare=False):
    if bare:
        wild, ic, cmtn = rng.choice(BARE)
    elif rng.random() < 0.5:
        wild, ic, cmtn = rng.choice(WILDS), rng.choice(ICS), rng.choice(CMTNS)
    else:
        wild, ic, cmtn = rng.choice(EXOTIC)
    for _ in range(50):
        lp = rng.randint(1, 7 if big else 5)
        ls = rng.randint(0, 9 if big else 6)
        alpha = rng.sample(ALPHA + ["N", "h", "r", "Br"], rng.randint(1, 4))
        if bare:
            alpha = bare_alpha(rng, cmtn)
            lp, ls = min(lp, 5), min(ls, 6)
        if wild is not None and rng.random() < 0.6 and wild not in alpha:
            alpha.append(wild)
        for c in cmtn_list(cmtn):
            if rng.random() < 0.5 and c not in alpha:
                alpha.append(c)
        pat = [rng.choice(alpha) for _ in range(lp)]
        st = [rng.choice(alpha) for _ in range(ls)]
        if rng.random() < 0.4 and ls >= lp:
            # make a match likely: the structure contains the concrete pattern symbols
            st = [p for p in pat if p != wild] + st
            st = st[:max(ls, lp)]
            rng.shuffle(st)
        if cost(wild, ic, cmtn, pat, st) <= (limit if big else limit // 7):
            return wild, ic, cmtn, pat, st
    return wild, ic, cmtn, ["C"], ["C"]


def matrix_cases(r, rng, n_matrices, stream):
    """MappingMatrix over random symbol sets with multi-letter symbols; one case per (ps, ss)"""
    from fgutils.permutation import MappingMatrix
    cases = []
    fixed = [  # corpus: the witness of F6 (DESIGN section 7) and its neighbours
        ("R", False, [], ["Cl", "C"], ["Cl", "C"]),
        (None, False, [], ["Cl", "C"], ["Cl", "C"]),
        ("R", True, ["H"], ["Cl", "C", "R", "H"], ["Cl", "C", "cl", "Br", "l"]),
        (None, True, [], ["N"], ["Na", "N"]),
    ]
    grid = list(itertools.product(WILDS, ICS, CMTNS))
    fixed += [  # bare-string configurations with a multi-letter symbol (regression: seeded change C08_r3_2)
        (None, False, "Cl", ["C", "Cl", "l"], ["C", "Cl", "O", "l"]),
        ("R", True, "Br", ["B", "Br", "r", "R"], ["Br", "C", "br"]),
        (None, False, "Si", ["Si", "S", "i"], ["O", "Si"]),
    ]
    for k in range(-len(fixed), n_matrices):
        form = None
        if k < 0:
            wild, ic, cmtn, psyms, ssyms = fixed[k + len(fixed)]
            psyms, ssyms = list(psyms), list(ssyms)
        else:
            wild, ic, cmtn = grid[k] if k < len(grid) else rng.choice(EXOTIC)
            psyms = rng.sample(MATRIX_SYMS, rng.randint(1, 6))
            ssyms = rng.sample(MATRIX_SYMS, rng.randint(1, 6))
            if k % 5 == 1:
                # alternative form: bare-string can_map_to_nothing; the symbol and the letters it could be split into
                # on BOTH sides (a pattern symbol that may vanish matches every structure symbol of the matrix)
                wild, ic, cmtn = BARE[(k // 5) % len(BARE)] if (k // 5) < len(BARE) else rng.choice(BARE)
                for sym in BARE_ALPHA.get(cmtn, [cmtn, "C"]):
                    if sym not in psyms:
                        psyms.append(sym)
                    if sym not in ssyms and rng.random() < 0.7:
                        ssyms.append(sym)
            elif k % 5 == 3 and isinstance(cmtn, list):
                form = rng.choice(["positional", "omitted"])
        if k >= 0 and k % 3 == 0:
            for s in ("Cl", "C"):           # the witness of F6: a multi-letter symbol on both sides
                if s not in psyms:
                    psyms.append(s)
                if s not in ssyms:
                    ssyms.append(s)
        p0, s0 = list(psyms), list(ssyms)
        mapper = call_impl(mk_mapper, wild, ic, cmtn, form)
        mm = mapper if isinstance(mapper, ImplError) else call_impl(MappingMatrix, p0, s0, mapper)
        lists_touched = (p0 != psyms or s0 != ssyms)
        alt = form is not None or not isinstance(cmtn, list)
        # alternative form of the configuration: a matrix built from the CANONICAL form must answer the same
        mm_canon = call_impl(lambda: MappingMatrix(list(psyms), list(ssyms), mk_mapper(wild, ic, cmtn_list(cmtn)))) if alt else None
        for ps in psyms:
            for ss in ssyms:
                canon_differs = None
                if isinstance(mm, ImplError):
                    ans = mm
                elif lists_touched:
                    ans = ImplError(Shape("MappingMatrix modified the caller's symbol lists"))
                else:
                    ans = call_impl(lambda: bool(mm.is_mapping(ps, ss)))
                    direct = call_impl(lambda: mk_mapper(wild, ic, cmtn, form).permute([ps], [ss]) != [])
                    if not isinstance(ans, ImplError) and (isinstance(direct, ImplError) or direct != ans):
                        ans = ImplError(Shape("is_mapping(%r,%r)=%r but permute([ps],[ss]) != [] is %r" % (ps, ss, ans, direct)))
                    if alt and not isinstance(ans, ImplError):
                        # the alternative form's answer is what the driver judges; a differing answer of the canonical
                        # form is judged as a case of its own
                        can = mm_canon if isinstance(mm_canon, ImplError) else call_impl(lambda: bool(mm_canon.is_mapping(ps, ss)))
                        if isinstance(can, ImplError) or can != ans:
                            canon_differs = [can]
                req = [Atom("C08"), Atom("ismapping"), enc_mapper(wild, ic, cmtn_list(cmtn)), ps, ss]
                multi = len(ps) > 1 or len(ss) > 1
                meta = {"op": "ismapping", "wildcard": wild, "ignore_case": ic, "can_map_to_nothing": cmtn, "constructor_form": form,
                        "pattern_symbols": psyms, "structure_symbols": ssyms, "ps": ps, "ss": ss}
                tags = ("corpus" if k < 0 else stream, "ismapping", form_tag(cmtn, form), "multi_letter" if multi else "single_letter",
                        "answer=%s" % ("raised" if isinstance(ans, ImplError) else int(ans)))
                if canon_differs:
                    can = canon_differs[0]
                    meta["answer_of_the_canonical_form_differs"] = {"can_map_to_nothing": cmtn_list(cmtn),
                                                                    "answer": can.text if isinstance(can, ImplError) else can}
                    tags += ("alternative-form-answers-differently",)
                cases.append(Case(req, ans, meta=meta, nontrivial_key=("m", wild, ic, tuple(cmtn_list(cmtn)), ps, ss), tags=tags))
                if canon_differs:
                    cases.append(Case(req, canon_differs[0], meta=dict(meta, can_map_to_nothing=cmtn_list(cmtn), constructor_form=None),
                                      nontrivial_key=("m", wild, ic, tuple(cmtn_list(cmtn)), ps, ss, "canonical"),
                                      tags=("ismapping", "canonical-form-of-a-differing-alternative")))
    return cases


LONG_CONFIGS = [(None, False, []), ("R", False, []), (None, True, []), ("R", True, []), (None, False, ["H"]), ("R", False, ["H"]),
                ("R", False, ["H", "R"]), ("R", True, ["R", "H"]), (None, False, "Cl")]


def gen_long(rng, n, heavy_ok):
    """one input whose PADDED structure has exactly n symbols and whose pattern has 1-2 symbols: n or n(n-1) results at
    most, cheap for the model and the specification; the implementation walks all n! permutations.  `heavy_ok`: allow
    the variants in which (nearly) every permutation matches (about 2.5 us per permutation instead of 0.5 us)."""
    wild, ic, cmtn = rng.choice(LONG_CONFIGS)
    cm = cmtn_list(cmtn)
    for _ in range(200):
        lp = rng.choice([1, 1, 2])
        x, y = rng.sample(["C", "O", "N", "Cl"], 2)
        opt = rng.choice(cm) if cm and rng.random() < 0.7 else None          # a pattern symbol that may map to nothing
        kind = rng.choice(["all", "most", "half", "one", "none"]) if heavy_ok else rng.choice(["most", "half", "half", "one", "none"])
        first = wild if wild is not None and rng.random() < 0.35 else x
        pat = [first] if lp == 1 else [first, rng.choice([x, y, opt or y, wild or x])]
        if opt is not None and rng.random() < 0.6:
            pat[-1] = opt
        if ic and rng.random() < 0.5:
            pat = [q.swapcase() for q in pat]
        m = {"all": n, "most": n - rng.randint(1, 4), "half": n // 2, "one": 1, "none": 0}[kind]
        st = [x] * m + [rng.choice([y, y, "S"]) for _ in range(n - m)]
        if ic:
            st = [q.swapcase() if rng.random() < 0.3 else q for q in st]
        rng.shuffle(st)
        # cut the structure so that structure + dummies has n symbols
        for cut in range(0, 3):
            st2 = st[:n - cut]
            if len(padded(wild, ic, cmtn, pat, st2)[2]) == n:
                return wild, ic, cmtn, pat, st2
    return wild, ic, cmtn, ["C"], ["C"] * n


def long_inputs(tier, seed):
    """the `long-structure` stream (own random source, so the other streams are what they were): padded structures of 9 and
    10 symbols in every run, 11 in the thorough tier — sizes beyond the exhaustive / box / random streams (<= 8), where a
    size threshold in the enumeration would hide"""
    import random
    rng = random.Random("long/%d" % seed)
    plan = [(9, 40, True), (10, 4, True), (10, 8, False)] if tier == "quick" else [(9, 300, True), (10, 24, True), (10, 40, False), (11, 3, False)]
    # the reviewer's witness and its neighbours, fixed
    yield ("long-structure", None, False, [], ["C"], ["C"] * 10)
    yield ("long-structure", None, False, [], ["C"], ["C"] * 6 + ["O"] * 4)
    yield ("long-structure", "R", False, ["H"], ["C", "H"], ["C"] * 5 + ["O"] * 4)
    for n, count, heavy in plan:
        for _ in range(count):
            yield ("long-structure",) + tuple(gen_long(rng, n, heavy))


class ParDriver:
    """several driver processes; a batch is cut into contiguous pieces (order-preserving, so
    results do not depend on the number of processes)"""

    def __init__(self, n):
        self.ds = [Driver() for _ in range(n)]
        self.count = 0

    def batch(self, lines):
        n = len(self.ds)
        if len(lines) < 4 * n:
            return self.ds[0].batch(lines)
        step = (len(lines) + n - 1) // n
        parts = [lines[i * step:(i + 1) * step] for i in range(n)]
        res = [None] * n
        errs = []

        def work(i):
            try:
                res[i] = self.ds[i].batch(parts[i])
            except Exception as e:  # noqa
                errs.append(e)

        ts = [threading.Thread(target=work, args=(i,)) for i in range(n)]
        for t in ts:
            t.start()
        for t in ts:
            t.join()
        if errs:
            raise errs[0]
        self.count += len(lines)
        return [x for part in res for x in part]

    def close(self):
        for d in self.ds:
            d.close()


def exhaustive_pairs(max_total, max_each):
    """all (pattern, structure) over ALPHA with |pat|,|str| <= max_each and |pat|+|str| <= max_total"""
    for lp in range(0, max_each + 1):
        for ls in range(0, max_each + 1):
            if lp + ls > max_total:
                continue
            for pat in itertools.product(ALPHA, repeat=lp):
                for st in itertools.product(ALPHA, repeat=ls):
                    yield pat, st


CORPUS = [
    # m15 (de-duplication only against the last mapping): two dummies, duplicates not adjacent
    ("R", False, ["H"], ["H", "H", "H"], ["H"]),
    (None, False, ["H"], ["H", "H", "H"], ["H"]),
    ("R", False, ["H", "R"], ["R", "H", "H"], ["C"]),
    # structure-side wildcard must not match a concrete pattern symbol
    ("R", False, [], ["C"], ["R"]),
    ("R", True, [], ["c", "C"], ["r", "R", "C"]),
    ("R", False, [], ["R", "C"], ["R", "C"]),
    # wildcard + ignore_case + map-to-nothing together
    ("R", True, ["H", "R"], ["r", "h", "C"], ["c", "H"]),
    ("R", True, ["R", "H"], ["R", "R", "H"], ["C"]),
    # multi-letter symbols inside lists
    ("R", False, ["H"], ["Cl", "C", "R"], ["C", "Cl", "Cl"]),
    (None, True, [], ["Cl", "cl"], ["CL", "cl", "Cl"]),
    # bare-string can_map_to_nothing with a multi-letter symbol = the one-element list (seeded change C08_r3_2)
    (None, False, "Cl", ["C", "Cl"], ["C"]),
    (None, False, "Cl", ["C"], ["O"]),
    (None, False, "Cl", ["C", "Cl"], ["Cl"]),
    ("R", True, "Br", ["B", "br", "R"], ["C", "b"]),
    ("R", False, "Si", ["S", "Si", "i"], ["S"]),
    # empty pattern / empty structure
    ("R", False, ["H", "R"], [], ["C"]),
    ("R", False, ["H", "R"], ["H", "R"], []),
    (None, False, [], [], []),
]


_SHARED = {}


def _shared_mapper(wild, ic, cmtn, form=None):
    """one long-lived mapper per configuration (and form in which it was given) and worker process"""
    k = (wild, ic, repr(cmtn), form)
    if k not in _SHARED:
        _SHARED[k] = mk_mapper(wild, ic, cmtn, form)
    return _SHARED[k]


class PCase(Case):
    """a case whose request line was already written in the worker process (the main process only forwards it)"""
    __slots__ = ("_line",)

    def line(self):
        return self._line


def _work(inp):
    stream, wild, ic, cmtn, pat, st = inp[:6]
    form = inp[6] if len(inp) > 6 else None
    out = []
    long = stream == "long-structure"
    _limit[0] = LONG_LIMIT_S if long else None
    # (the long calls are not repeated on a long-lived mapper: each costs seconds)
    for c in permute_cases(wild, ic, cmtn, pat, st, stream, None if long else _shared_mapper(wild, ic, cmtn, form), form=form):
        pc = PCase(c.req, c.impl, c.in_domain, c.meta, c.nontrivial_key, c.compare_model, c.tags)
        pc._line = c.line()
        out.append(pc)
    _limit[0] = None
    return out


def order_only(o):
    """the implementation's answer is a re-ordering of the model's (same assignments, same multiplicities, caller's lists
    equal) and passes the executable specification: the statement of C08 speaks of the SET of assignments and of "no
    assignment twice", not of their order"""
    if not o.ok_reply or o.spec_impl != "1" or isinstance(o.case.impl, ImplError):
        return False
    if len(o.case.req) < 2 or o.case.req[1] != "permute":
        return False
    m, i = o.model, o.impl_c
    if not (isinstance(m, list) and isinstance(i, list) and len(m) == 3 and len(i) == 3):
        return False
    return m[1:] == i[1:] and m[0] != i[0] and sorted(map(tuple, m[0])) == sorted(map(tuple, i[0]))


def evaluate(r, cases):
    """Run.evaluate + the correspondence rule of C08: a pure re-ordering is agreement (counted, tag `order_differs`)"""
    n0 = len(r.corr_failures)
    outs = r.evaluate(cases)
    keep = r.corr_failures[:n0]
    for o in r.corr_failures[n0:]:
        if o.case.in_domain and order_only(o):
            r.count("tag:order_differs")
        else:
            keep.append(o)
    r.corr_failures = keep
    return outs


def ctor_form(rng, wild, ic, cmtn):
    """a seed-chosen part of the list-form configurations is CONSTRUCTED differently (positional arguments /
    defaults left out): the same mapper, the same answers"""
    if isinstance(cmtn, list) and rng.random() < ALT_FORM_SHARE / 2:
        return rng.choice(["positional", "omitted"])
    return None


def gen_inputs(tier, rng):
    """the permute inputs of a run, in a fixed order (all randomness from rng, drawn here)"""
    grid = list(itertools.product(WILDS, ICS, CMTNS))
    for wild, ic, cmtn, pat, st in CORPUS:
        yield ("corpus", wild, ic, cmtn, pat, st)
    # exhaustive over the small alphabet
    if tier == "thorough":
        pairs = itertools.chain(exhaustive_pairs(6, 3),
                                (p for p in exhaustive_pairs(5, 5) if max(len(p[0]), len(p[1])) > 3))
    else:
        pairs = exhaustive_pairs(4, 4)
    # (a seed-chosen part of the grid goes through an ALTERNATIVE FORM of the same configuration: a one-element list as the
    #  bare string — 30% of those, i.e. ~12% of the stream — or the constructor called positionally / with defaults left out,
    #  ~10%; the canonical form is then asked as well and must agree, so the exhaustive statement about it is not weakened)
    for pat, st in pairs:
        for wild, ic, cmtn in grid:
            x = rng.random()
            if len(cmtn) == 1 and x < 0.3:
                yield ("exhaustive", wild, ic, cmtn[0], pat, st)
            elif x > 0.88:
                yield ("exhaustive", wild, ic, cmtn, pat, st, "positional" if x > 0.94 else "omitted")
            else:
                yield ("exhaustive", wild, ic, cmtn, pat, st)
    # exhaustive, alternative form: can_map_to_nothing as a bare string (multi-letter and one-letter), small lists
    bare_grid = [(w, ic, c) for w in WILDS for ic in ICS for c in ("Cl", "H", "R")]
    for pat, st in exhaustive_pairs(3 if tier == "quick" else 4, 3):
        for wild, ic, cmtn in bare_grid:
            yield ("exhaustive-bare-string", wild, ic, cmtn, pat, st)
    # random sample of the box |pat|,|str| <= 4 (quick) / <= 6 (thorough) over the same alphabet
    box = 4 if tier == "quick" else 6
    limit = 5040 if tier == "quick" else 120960
    for _ in range(20000 if tier == "quick" else 300000):
        bare = rng.random() < ALT_FORM_SHARE
        wild, ic, cmtn = rng.choice(BARE) if bare else rng.choice(grid)
        alpha = bare_alpha(rng, cmtn) if bare else ALPHA
        for _try in range(20):
            pat = [rng.choice(alpha) for _ in range(rng.randint(1, box))]
            st = [rng.choice(alpha) for _ in range(rng.randint(0, box))]
            if cost(wild, ic, cmtn, pat, st) <= limit // 7:
                break
        else:
            pat, st = ["C"], ["C"]
        yield ("box", wild, ic, cmtn, pat, st, ctor_form(rng, wild, ic, cmtn))
    # random longer lists, exotic configurations
    for k in range(10000 if tier == "quick" else 200000):
        wild, ic, cmtn, pat, st = gen_random(rng, k % 5 == 0, limit, bare=rng.random() < ALT_FORM_SHARE)
        yield ("random", wild, ic, cmtn, pat, st, ctor_form(rng, wild, ic, cmtn))


def run(tier, seed):
    import multiprocessing
    r = Run("C08", tier, seed)
    if not prepare(r, PROOFS, "C08"):
        return 2
    rng = r.rng
    ncpu = os.cpu_count() or 2
    pool = multiprocessing.get_context("fork").Pool(max(1, min(14, ncpu - 1)))
    try:
        r.driver = ParDriver(min(8, ncpu))
        # MappingMatrix cases (drawn first so that the permute stream can be consumed lazily)
        mcases = matrix_cases(r, rng, 60 if tier == "quick" else 1500, "matrix")
        evaluate(r, mcases[:2000])          # F6 witnesses come first
        # the long-structure stream runs beside the others (one input per task: a call takes seconds)
        long_async = pool.map_async(_work, list(long_inputs(tier, seed)), chunksize=1)
        block = []
        stopped = False
        for inp in gen_inputs(tier, rng):
            block.append(inp)
            if len(block) >= 30000:
                evaluate(r, [c for cs in pool.map(_work, block, chunksize=250) for c in cs])
                block = []
                if r.spec_failures:
                    # a concrete failing input is in hand: report it instead of searching on
                    stopped = True
                    break
        if block and not stopped:
            evaluate(r, [c for cs in pool.map(_work, block, chunksize=250) for c in cs])
        for k in range(2000, len(mcases), 40000):
            if not stopped:
                evaluate(r, mcases[k:k + 40000])
        if not stopped:
            evaluate(r, [c for cs in long_async.get() for c in cs])
        r.extra_cov["stopped_at_first_failing_block"] = stopped
    finally:
        pool.terminate()
    r.assumptions = [
        "itertools.permutations order is modelled by Perm.arrangements (validated, not verified)",
        "str.lower() is modelled by String.toLower: symbols are ASCII",
        "Python's `x in wildcard` substring test in the constructor's sort key is modelled by Perm.isSubstr",
        "an assignment [(0,a0),(1,a1),…] travels as (a0 a1 …); the harness rejects any other shape as a failure",
        "the order of the returned list is not part of the statement: an answer that is a re-ordering of the model's list and passes the executable specification counts as agreeing (tag order_differs, counted); the order the matcher relies on (first fitting assignment) is C04's business",
        "sizes: the implementation enumerates all n! permutations of the padded structure, so padded structures beyond 10 (quick) / 11 (thorough) symbols are not sampled; 9-11 symbols only with patterns of 1-2 symbols (stream long-structure)",
    ]
    r.extra_cov["answers_that_are_a_reordering_of_the_models"] = r.dist.get("tag:order_differs", 0)
    r.extra_cov["long_structure_cases"] = {k[len("tag:"):]: v for k, v in sorted(r.dist.items()) if k.startswith("tag:ls=") and int(k[7:]) >= 8}
    r.extra_cov["exhaustive_domain"] = "all pattern/structure lists over %s with %s, times %d configurations" % (
        ALPHA, "|pat|+|str| <= 4" if tier == "quick" else "|pat|,|str| <= 3 and all with |pat|+|str| <= 5", 20)
    # known finding K6 (recorded, not repaired): the witness is replayed against the real code on every run
    try:
        from fgutils.permutation import PermutationMapper
        k6 = next((f for f in common.load_known_findings() if f["id"] == "K6" and f.get("status") == "open"), None)
        odd = PermutationMapper("R", ignore_case=True, can_map_to_nothing=["r", "H"]).permute(["R", "H"], ["C"])
        nat = PermutationMapper("R", ignore_case=True, can_map_to_nothing=["H", "r"]).permute(["R", "H"], ["C"])
        reproduced = [(0, -1), (1, -1)] in [list(m) for m in odd] and [(0, -1), (1, -1)] not in [list(m) for m in nat]
        r.extra_cov["known_finding_K6_reproduced"] = bool(reproduced)
        if k6 is not None and reproduced:
            print("KNOWN-FINDING: property=C08 %s [K6]" % k6["what"][:300])
        elif k6 is not None:
            print("NOTE property=C08 known finding K6 does not reproduce on this tree")
    except Exception as e:  # the witness must never decide the verdict
        r.extra_cov["known_finding_K6_reproduced"] = "error: %r" % (e,)
    return r.finish(
        level="proof",
        rule="exhaustive: every pattern/structure list over {C,c,O,H,R,Cl} (quick: |pat|+|str|<=4; thorough: |pat|,|str|<=3 and |pat|+|str|<=5) "
             "x wildcard in {None,R} x ignore_case x can_map_to_nothing in {[],[H],[R],[H,R],[R,H]}; random lists from the box up to 4x4 (6x6 thorough); "
             "random longer lists (pattern <= 7, structure <= 9) incl. duplicate / substring-of-wildcard / folded configurations; "
             "LONG structures (stream long-structure, every run): patterns of 1-2 symbols against padded structures of exactly 9 and 10 symbols (11 in the thorough tier), with and without "
             "wildcard / ignore_case / can_map_to_nothing (list and bare multi-letter string), none / one / half / most / all structure symbols matching (n or n(n-1) results at most); "
             "ALTERNATIVE FORMS of the configuration (tags cmtn-form:* / ctor-form:*): can_map_to_nothing as a BARE STRING (= one-element list; multi-letter symbols Cl, Br, Si, Na, cl and "
             "one-letter ones) exhaustively on lists with |pat|+|str|<=3 and in ~15% of the box / random streams and a fifth of the matrices, over alphabets that contain the symbol AND the letters "
             "it could be split into; constructor called with positional arguments / defaults left out (~7%); the Lean model receives the intended normal form ([<string>]) and the canonical "
             "form (keywords, list) is also asked of the implementation and must answer the same; "
             "MappingMatrix over random symbol sets with multi-letter symbols, one case per symbol pair; "
             "non-trivial = at least one assignment returned (permute) / every matrix cell, distinct by (configuration, lists)",
        checker_cmd="cd lean && lake build FGVerif.Proofs.C08 && lake env lean FGVerif/Audit/C08.lean",
        explanation="theorems in lean/FGVerif/Proofs/C08.lean about Model/Permutation.lean (permute_exact, permute_nodup, arrangements lemmas, "
                    "specCheck_sound); model tied to fgutils.permutation by differential testing (result lists compared exactly; a pure re-ordering of the model's list that passes the executable spec agrees and is counted: the statement speaks of the set of assignments, each exactly once); executable spec "
                    "C08.specCheckCall applied to every implementation output together with the caller's lists after the call; every call is "
                    "repeated on a long-lived mapper object and must answer the same")


def replay(path):
    """re-run the request of a replay file against the current tree"""
    d = json.load(open(path))
    meta = d.get("meta") or {}
    r = Run("C08", "replay", d.get("seed", 0))
    if not prepare(r, PROOFS, "C08"):
        return 2
    if meta.get("op") == "permute":
        c = permute_case(meta["wildcard"], meta["ignore_case"], meta["can_map_to_nothing"], meta["pattern"],
                         meta["structure"], "replay", form=meta.get("constructor_form"))
        evaluate(r, [c])
    elif meta.get("op") == "ismapping":
        from fgutils.permutation import MappingMatrix
        wild, ic, cmtn = meta["wildcard"], meta["ignore_case"], meta["can_map_to_nothing"]
        ans = call_impl(lambda: bool(MappingMatrix(list(meta["pattern_symbols"]), list(meta["structure_symbols"]),
                                                   mk_mapper(wild, ic, cmtn, meta.get("constructor_form"))).is_mapping(meta["ps"], meta["ss"])))
        req = [Atom("C08"), Atom("ismapping"), enc_mapper(wild, ic, cmtn_list(cmtn)), meta["ps"], meta["ss"]]
        r.evaluate([Case(req, ans, meta=meta, nontrivial_key=("m",))])
    else:
        print("ERROR property=C08 replay file carries no re-runnable request")
        return 2
    # no evidence file is written for a replay
    if r.driver is not None:
        r.driver.close()
    if r.driver_errors:
        print("ERROR property=C08 the driver could not answer the replayed request")
        return 2
    bad = r.spec_failures or r.corr_failures
    if bad:
        p = r.write_replay("failing-input" if r.spec_failures else "correspondence", "replayed", r.outcome_payload(bad[0]))
        print("VIOLATION property=C08 replay=%s%s" % (p, "" if r.spec_failures else " no-failing-input-found"))
        return 1
    print("replay: property C08 holds on the replayed request")
    return 0
