"""Hook for the GenParsed obligations (lean/FGVerif/Proofs/GenParsed*.lean): the generated *parsed* tables
(Generated/C05.lean, Generated/C14.lean) are what the parser model `C01.parse` makes of the generated
pattern strings.  Properties whose checks consume those tables (C05, C14) list `MODULE` in their PROOFS
(so `common.prepare` builds it: a parser change that alters how a shipped pattern parses, or a translator
that pairs a graph with the wrong string, breaks a proof obligation of that property) and call
`audit_into(run)` after `prepare` so that the `#print axioms` of Audit/GenParsed.lean are counted among
the run's obligations."""
import os
import re

import common

MODULE = "FGVerif.Proofs.GenParsed"
AUDIT = "GenParsed"
CHECKER_CMD = "lake build FGVerif.Proofs.GenParsed && lake env lean FGVerif/Audit/GenParsed.lean"
EXPLANATION = ("the parsed tables the check consumes are tied to the parser model inside Lean "
               "(lean/FGVerif/Proofs/GenParsed*.lean: kernel-evaluated table obligations that every generated pattern / "
               "anti-pattern graph, group-atom list, label reference and anchor is what C01.parse makes of the generated "
               "pattern string; character-list mirror tables from harness/gen_tables_parsed.py)")


def audit_into(run, only=None):
    """`only`: keep the obligations whose name contains one of these substrings (None = all)"""
    def keep(name):
        return only is None or any(k in name for k in only)
    if run.build is not None and run.build.proofs_ok:
        thms, raw, ok = common.audit(AUDIT)
        if not ok:
            run.audit_bad.append("audit file GenParsed did not check: " + raw[-400:])
        for name, axs in thms.items():
            if not keep(name):
                continue
            good = set(axs) <= common.ALLOWED_AXIOMS
            run.obligations[name] = {"axioms": axs, "ok": good}
            if not good:
                run.audit_bad.append("theorem %s depends on %s" % (name, axs))
    else:
        src = open(os.path.join(common.LEAN_DIR, "FGVerif", "Audit", AUDIT + ".lean")).read()
        for m in re.finditer(r"#print axioms\s+(\S+)", src):
            if keep(m.group(1)):
                run.obligations[m.group(1)] = {"axioms": [], "ok": False}
