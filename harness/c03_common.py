"""C03 / C04 — shared harness: generators, implementation calls, case construction, verdict
routing for the anchored / un-anchored subgraph matcher (fgutils/algorithm/subgraph.py).

The Lean driver (`Driver/C03.lean`) answers for every case
  * the model's output (flag, pair set when flag) — compared with the implementation,
  * which clause of the specification the *implementation's* output fails:
      c03_missed                  an embedding exists (oracle `existsEmbedding`) but flag = False
      c04_not_embedding           flag = True but the returned pairs are not an embedding
      c04_false_negative_acyclic  acyclic host and pattern, flag = False, an embedding exists
  * whether host / pattern contain a cycle (scope of known finding K2).
C03 fails only on `c03_missed`; C04 fails on `c04_not_embedding` outside K2's scope and on
`c04_false_negative_acyclic`.

OPTIONAL PATTERN NODES (`can_map_to_nothing != []`, C04 only; C03's statement quantifies over wildcard and ignore_case):
the statement of C04 ("a function from ALL pattern nodes") cannot hold literally once a node may stay without a partner
by design; it is read as "the whole pattern minus the optional nodes that were mapped to nothing".  Judged on every
successful answer (Model/C04Opt.lean, Proofs/C04Opt.lean): anchor pair present, pairs name existing nodes, symbols
admitted, a function to DISTINCT host nodes, every pattern bond between two mapped nodes on a host bond of equal order
(`c04_not_embedding` = not a partial embedding), and every pattern node WITHOUT a partner carries a symbol that may map
to nothing (`c04_required_node_unmapped`).  The last clause fails on the unchanged library when an optional node in the
MIDDLE of the pattern is mapped to nothing (the nodes behind it are never looked at): known finding K12, classified
narrowly (that clause and no other, implementation == model, the model fails the same clause).  The oracle clauses
(an embedding exists / none exists) are not judged with optional nodes.

ENTRY POINTS (tags entry:*): `map_anchored_subgraph`, the public `map_subgraph` with an explicit `subgraph_anchor`
(keyword / positional, anchor 0 included, pattern ids not starting at 0 — the answer must be exactly the one-element
list of the anchored answer: clause `c04_result_shape`) and without one (one entry per pattern node, each judged for
its own anchor), `map_subgraph_to_graph`.  INPUT FORMS (tags form:*, `apply_form`): extra node / edge attributes, numpy
integers as node ids, `nx.freeze`, sub-graph views of a larger graph, on host and/or pattern; the wire form is read off
the variant object, the answer is judged by the same clauses and compared with the plain form's.
"""
from __future__ import annotations

import hashlib
import itertools
import json
import os
import random
import sys

import networkx as nx

import common
from common import Atom, Case, ImplError, Run, call_impl, enc_graph, enc_mapper, prepare, sx

PROOFS = ["FGVerif.Proofs.C03Perm", "FGVerif.Proofs.C03", "FGVerif.Proofs.C03Oracle", "FGVerif.Proofs.C04", "FGVerif.Proofs.C04Opt"]

MAX_HOST_DEGREE = 6      # the implementation enumerates itertools.permutations(all unvisited host neighbours): d! per call
SYMS = ["C", "O", "N", "c"]


# ---------------------------------------------------------------------------
# graphs
# ---------------------------------------------------------------------------
def build(nodes, edges, rng=None):
    """nodes: [(id, sym)], edges: [(u, v, bond)] -> nx.Graph; insertion order shuffled by rng
    (this decides networkx's node and adjacency iteration order)"""
    nodes = list(nodes)
    edges = list(edges)
    if rng is not None:
        rng.shuffle(nodes)
        rng.shuffle(edges)
        edges = [(v, u, b) if rng.random() < 0.5 else (u, v, b) for u, v, b in edges]
    g = nx.Graph()
    for n, s in nodes:
        g.add_node(n, symbol=s)
    for u, v, b in edges:
        g.add_edge(u, v, bond=b)
    return g


def shape_tree(rng, n, maxdeg=MAX_HOST_DEGREE):
    edges, deg = [], [0] * n
    for i in range(1, n):
        cand = [j for j in range(i) if deg[j] < maxdeg]
        # a bias towards few parents gives high-degree, symmetric neighbourhoods
        j = rng.choice(cand[: max(1, len(cand) // 2)]) if rng.random() < 0.5 else rng.choice(cand)
        edges.append((j, i))
        deg[i] += 1
        deg[j] += 1
    return edges


def shape_ring(n):
    return [(i, (i + 1) % n) for i in range(n)]


def shape_fused(rng, n):
    """two or three rings sharing edges: a ring plus chords-with-detours"""
    k = rng.randint(3, max(3, n - 2))
    edges = shape_ring(k)
    nxt = k
    while nxt < n:
        # hang a path of length L between two ring-adjacent (or close) nodes
        L = min(rng.randint(1, 3), n - nxt)
        u = rng.randrange(k)
        v = (u + rng.choice([1, 1, 2])) % k
        if u == v:
            v = (u + 1) % k
        path = [u] + list(range(nxt, nxt + L)) + [v]
        edges += list(zip(path, path[1:]))
        nxt += L
    return list({(min(a, b), max(a, b)) for a, b in edges if a != b})


def shape_clique(n):
    return list(itertools.combinations(range(n), 2))


def shape_tree_plus(rng, n):
    edges = shape_tree(rng, n, maxdeg=4)
    have = set(edges)
    for _ in range(rng.choice([1, 1, 2, 3])):
        if n < 3:
            break
        u, v = sorted(rng.sample(range(n), 2))
        if (u, v) not in have:
            have.add((u, v))
    return list(have)


def cap_degree(n, edges, maxdeg):
    deg = [0] * n
    out = []
    for u, v in edges:
        if deg[u] < maxdeg and deg[v] < maxdeg:
            out.append((u, v))
            deg[u] += 1
            deg[v] += 1
    return out


def gen_host(rng, anchored=True):
    kind = rng.choice(["tree", "tree", "tree", "ring", "fused", "fused", "clique", "tree+"])
    if kind == "clique":
        n = rng.randint(3, 7)
        edges = shape_clique(n)
    elif kind == "ring":
        n = rng.randint(3, 10)
        edges = shape_ring(n)
    elif kind == "fused":
        n = rng.randint(4, 12)
        edges = cap_degree(n, shape_fused(rng, n), MAX_HOST_DEGREE)
    elif kind == "tree+":
        n = rng.randint(3, 12)
        edges = cap_degree(n, shape_tree_plus(rng, n), MAX_HOST_DEGREE)
    else:
        n = rng.randint(3, 12)
        edges = shape_tree(rng, n)
    nsym = rng.randint(1, 4)
    alphabet = rng.sample(SYMS, nsym)
    if rng.random() < 0.03:
        alphabet.append("R")
    syms = [rng.choice(alphabet) for _ in range(n)]
    bonds = rng.choice([[1], [1], [1, 1, 2], [1, 2, 1.5, 3]])
    if anchored and rng.random() < 0.7:
        ids = rng.sample(range(-3, 3 * n + 3), n)      # arbitrary node ids
    else:
        ids = list(range(n))
    g = build([(ids[i], syms[i]) for i in range(n)], [(ids[u], ids[v], rng.choice(bonds)) for u, v in edges], rng)
    return g, kind, (nsym, tuple(bonds))


def gen_subpattern(rng, H, near_miss=False, maxk=7):
    """random connected sub-structure of H: connected node subset, a spanning tree plus some of
    the other induced bonds, fresh node ids, symbols blurred to R / case-flipped.
    returns (P, emb) with emb: pattern id -> host id (an embedding modulo the mapper's rule)"""
    n = H.number_of_nodes()
    k = rng.randint(1, min(n, maxk))
    start = rng.choice(list(H.nodes))
    S = [start]
    while len(S) < k:
        cand = [v for u in S for v in H.neighbors(u) if v not in S]
        if not cand:
            break
        S.append(rng.choice(cand))
    sub = H.subgraph(S)
    tree = set()
    seen = {S[0]}
    order = list(sub.edges)
    rng.shuffle(order)
    # random spanning tree by repeated scanning
    changed = True
    while changed:
        changed = False
        for u, v in order:
            if (u in seen) != (v in seen):
                tree.add((u, v))
                seen.update((u, v))
                changed = True
    keep = rng.choice([0.0, 0.6, 1.0])
    pid = rng.sample(range(0, 2 * len(S) + 2), len(S)) if rng.random() < 0.5 else list(range(len(S)))
    rng.shuffle(pid)
    mp = dict(zip(S, pid))
    nodes = []
    for u in S:
        s = H.nodes[u]["symbol"]
        x = rng.random()
        if x < 0.2:
            s = "R"
        elif x < 0.3:
            s = s.swapcase()
        nodes.append((mp[u], s))
    edges = []
    for u, v in sub.edges:
        if (u, v) in tree or (v, u) in tree or rng.random() < keep:
            edges.append((mp[u], mp[v], H.edges[u, v]["bond"]))
    if near_miss and edges:
        if rng.random() < 0.5:
            i = rng.randrange(len(edges))
            u, v, b = edges[i]
            edges[i] = (u, v, 2 if b == 1 else 1)
        else:
            i = rng.randrange(len(nodes))
            nodes[i] = (nodes[i][0], rng.choice([s for s in SYMS if s != nodes[i][1]]))
    P = build(nodes, edges, rng)
    return P, {mp[u]: u for u in S}


def gen_unrelated(rng):
    kind = rng.choice(["tree", "tree", "ring", "clique", "tree+", "star"])
    if kind == "ring":
        n = rng.randint(3, 6)
        edges = shape_ring(n)
    elif kind == "clique":
        n = rng.randint(3, 4)
        edges = shape_clique(n)
    elif kind == "tree+":
        n = rng.randint(3, 6)
        edges = shape_tree_plus(rng, n)
    elif kind == "star":
        n = rng.randint(3, 6)
        edges = [(0, i) for i in range(1, n)]
    else:
        n = rng.randint(1, 6)
        edges = shape_tree(rng, n, maxdeg=4)
    alphabet = rng.sample(SYMS + ["R"], rng.randint(1, 3))
    bonds = rng.choice([[1], [1], [1, 2]])
    ids = rng.sample(range(0, 2 * n + 2), n) if rng.random() < 0.4 else list(range(n))
    return build([(ids[i], rng.choice(alphabet)) for i in range(n)],
                 [(ids[u], ids[v], rng.choice(bonds)) for u, v in edges], rng)


def gen_mapper(rng, allow_cmtn=True):
    wild = rng.choice(["R", "R", None])
    ic = rng.random() < 0.4
    cmtn = []
    if allow_cmtn and rng.random() < 0.08:
        cmtn = rng.choice([["H"], ["R"], ["O"], ["H", "R"], ["c"]])
    return wild, ic, cmtn


def has_cycle(g):
    return g.number_of_nodes() > 0 and not nx.is_forest(g)


# ---------------------------------------------------------------------------
# implementation
# ---------------------------------------------------------------------------
def mk_mapper(margs):
    from fgutils.permutation import PermutationMapper
    wild, ic, cmtn = margs
    return PermutationMapper(wildcard=wild, ignore_case=ic, can_map_to_nothing=list(cmtn))


def impl_anchored(H, a, P, pa, margs):
    """-> [flag, sorted pair set (only when flag), sorted visited host, sorted visited pattern]"""
    from fgutils.algorithm.subgraph import map_anchored_subgraph
    ok, mapping, (vn, vpn) = map_anchored_subgraph(H, a, P, pa, mk_mapper(margs))
    pairs = sorted({(int(h), int(p)) for h, p in mapping}) if ok else []
    return [bool(ok), [list(x) for x in pairs], sorted(int(x) for x in vn), sorted(int(x) for x in vpn)]


def impl_unanchored(H, P, margs):
    from fgutils.algorithm.subgraph import map_subgraph_to_graph
    return bool(map_subgraph_to_graph(H, P, mk_mapper(margs)))


def impl_mapsub(H, a, P, pa, margs, how):
    """the public entry point `fgutils.algorithm.map_subgraph`, with (`how` = "keyword" / "positional") or without
    (`pa` None; `how` = "omitted" / "none") an explicit pattern anchor -> [[flag, sorted pair set (only when flag)], …]"""
    from fgutils.algorithm import map_subgraph
    mp = mk_mapper(margs)
    if pa is None:
        res = map_subgraph(H, a, P, mp) if how == "omitted" else map_subgraph(H, a, P, mp, subgraph_anchor=None)
    elif how == "positional":
        res = map_subgraph(H, a, P, mp, pa)
    else:
        res = map_subgraph(H, a, P, mp, subgraph_anchor=pa)
    out = []
    for ok, mapping in res:
        out.append([bool(ok), [list(x) for x in sorted({(int(h), int(p)) for h, p in mapping})] if ok else []])
    return out


# ---------------------------------------------------------------------------
# FORMS of the same input graph (the matcher reads `symbol` / `bond` only and never writes)
# ---------------------------------------------------------------------------
FORM_KINDS = ("extra_attrs", "numpy_ids", "frozen", "view")
_NODE_EXTRA = [("charge", [0, 1, -1]), ("hcount", [0, 1, 2, 3]), ("aam", [1, 2, 7, 40]), ("is_labeled", [False]), ("labels", [[]]),
               ("in_ring", [True, False]), ("color", ["red", "blue"]), ("pos", [(0.0, 1.5), (2.0, 0.5)])]
_EDGE_EXTRA = [("in_ring", [True, False]), ("order", [1, 2, (1, 2)]), ("standard_order", [0, 1, -1]), ("weight", [0.5, 1.0, 2.5]),
               ("stereo", ["E", "Z", None]), ("betweenness", [0.1, 0.25, 0.6]), ("label", ["a", "b"])]


def apply_form(g, kind, seed):
    """one variant of the graph object: same nodes, symbols, bonds.  Deterministic in (g, kind, seed) for the replay."""
    import copy
    import numpy as np
    rng = random.Random(seed)
    if kind == "extra_attrs":
        h = copy.deepcopy(g)
        nk = rng.sample(_NODE_EXTRA, rng.choice([0, 1, 2, 3]))
        ek = rng.sample(_EDGE_EXTRA, rng.choice([1, 1, 2, 3]))
        p_some = rng.choice([1.0, 1.0, 0.6])
        for n in h.nodes:
            for name, vals in nk:
                if rng.random() < p_some:
                    h.nodes[n][name] = rng.choice(vals)
        for u, v in h.edges:
            for name, vals in ek:
                if rng.random() < p_some:
                    h.edges[u, v][name] = rng.choice(vals)
        return h
    if kind == "numpy_ids":
        ty = rng.choice([np.int64, np.int64, np.int32, np.intp])
        h = nx.Graph()
        for n, d in g.nodes(data=True):
            h.add_node(ty(n), **copy.deepcopy(d))
        for u, v, d in g.edges(data=True):
            h.add_edge(ty(u), ty(v), **copy.deepcopy(d))
        return h
    if kind == "frozen":
        return nx.freeze(copy.deepcopy(g))
    if kind == "view":
        big = copy.deepcopy(g)
        own = list(g.nodes)
        nxt = (max([int(x) for x in own]) + 1) if own else 0
        junk = []
        for _ in range(rng.choice([1, 2, 3])):
            j = nxt if rng.random() < 0.7 or not own else min(int(x) for x in own) - 1 - len(junk)
            nxt += 1
            big.add_node(j, symbol=rng.choice(["C", "O", "N", "R", "H"]))
            if own and rng.random() < 0.85:
                big.add_edge(j, rng.choice(own), bond=rng.choice([1, 1, 2, 1.5]))
            if junk and rng.random() < 0.4:
                big.add_edge(j, rng.choice(junk), bond=1)
            junk.append(j)
        how = rng.choice(["subgraph", "subgraph", "subgraph_view", "frozen_subgraph"])
        if how == "subgraph_view":
            keep = set(own)
            return nx.subgraph_view(big, filter_node=lambda n: n in keep)
        if how == "frozen_subgraph":
            return nx.freeze(big).subgraph(own)
        return big.subgraph(own)
    raise ValueError(kind)


def apply_forms(g, forms):
    for kind, seed in forms:
        g = apply_form(g, kind, seed)
    return g


def choose_forms(rng, p_each=0.12):
    """every kind independently with probability `p_each` (so 10-20% of the cases go through each alternative, and
    combinations occur); `frozen` last (a frozen graph cannot be decorated)"""
    forms = [[k, rng.randrange(1 << 30)] for k in FORM_KINDS if rng.random() < p_each]
    forms.sort(key=lambda f: f[0] == "frozen")
    return forms


def with_forms(rng, H, P, p_each=0.12):
    """-> (H', P', meta, tags): variants of host and/or pattern"""
    side = rng.choice(["host", "host", "pattern", "both"])
    fh = choose_forms(rng, p_each) if side in ("host", "both") else []
    fp = choose_forms(rng, p_each) if side in ("pattern", "both") else []
    if rng.random() < 0.5 and side == "both" and fh:
        # the same decoration on both sides (equal seeds give equal attribute names; the values still differ per edge)
        fp = [list(f) for f in fh]
    tags = tuple(sorted({"form:%s:%s" % (k, w) for w, fs in (("host", fh), ("pattern", fp)) for k, _ in fs})) or ("form:plain",)
    return apply_forms(H, fh), apply_forms(P, fp), {"forms": {"host": fh, "pattern": fp}}, tags


def int_nodes(g):
    return [(int(n), s) for n, s in g.nodes(data="symbol")]


def int_edges(g):
    return [(int(u), int(v), b) for u, v, b in g.edges(data="bond")]


class MatchCase(Case):
    """anchored case: correspondence on what the property can observe — C03: the flag; C04: the
    flag and, on success, the pair set (`impl`).  The driver gets the complete return value
    (`wire`: flag, pair set, both visited sets): the pairs for the specification, the visited
    sets only to record whether they agree with the model."""
    __slots__ = ("wire",)

    def __init__(self, req, impl, wire=None, **kw):
        super().__init__(req, impl, **kw)
        self.wire = wire

    def line(self):
        if isinstance(self.impl, ImplError) or self.wire is None:
            return super().line()
        return sx(self.req + [self.wire])


def key_of(line):
    return hashlib.md5(line.encode()).hexdigest()[:16]


def anchored_case(prop, H, a, P, pa, margs, tags=(), meta=None, in_domain=True):
    out = call_impl(impl_anchored, H, a, P, pa, margs)
    req = [Atom(prop), Atom("anchored"), enc_mapper(*margs), enc_graph(H), int(a), enc_graph(P), int(pa)]
    hc, pc = has_cycle(H), has_cycle(P)
    connected = P.number_of_nodes() > 0 and nx.is_connected(P)
    # can_map_to_nothing: pairs are not total by design, so C03 says nothing; C04 is judged by the clauses for
    # optional nodes (partial embedding + every node without a partner is optional; by the driver)
    dom = in_domain and (not margs[2] or prop == "C04")
    if prop == "C04" and not connected:
        dom = False                             # C04 speaks about connected patterns
    nontrivial = P.number_of_nodes() >= 3 and H.number_of_nodes() >= 3
    tg = tuple(tags) + ("anchored", "entry:map_anchored_subgraph", "host_cyclic" if hc else "host_acyclic", "pattern_cyclic" if pc else "pattern_acyclic",
                        "wildcard" if margs[0] else "no_wildcard", "ignore_case" if margs[1] else "case_sensitive",
                        "cmtn" if margs[2] else "cmtn=[]", "|P|=%d" % P.number_of_nodes())
    m = dict(meta or {})
    m.update({"host_nodes": int_nodes(H), "host_edges": int_edges(H), "anchor": int(a),
              "pattern_nodes": int_nodes(P), "pattern_edges": int_edges(P),
              "pattern_anchor": int(pa), "mapper": list(margs), "py_host_cycle": hc, "py_pattern_cycle": pc})
    if isinstance(out, ImplError):
        c = MatchCase(req, out, None, in_domain=dom, meta=m, tags=tg + ("raised",))
    else:
        c = MatchCase(req, [out[0], out[1] if prop == "C04" else []], out, in_domain=dom, meta=m,
                      tags=tg + ("flag=1" if out[0] else "flag=0",))
    if nontrivial:
        c.nontrivial_key = key_of(sx(req))
    return c


def mapsub_case(prop, H, a, P, pa, margs, how, tags=(), meta=None, in_domain=True):
    """the public entry point `map_subgraph`: `pa` None = no pattern anchor given (one entry per pattern node),
    otherwise the explicit `subgraph_anchor` (keyword or positional) — the answer must be exactly the one-element
    list of the anchored answer"""
    out = call_impl(impl_mapsub, H, a, P, pa, margs, how)
    req = [Atom(prop), Atom("mapsub"), enc_mapper(*margs), enc_graph(H), int(a), enc_graph(P), None if pa is None else int(pa)]
    hc, pc = has_cycle(H), has_cycle(P)
    connected = P.number_of_nodes() > 0 and nx.is_connected(P)
    dom = in_domain and (not margs[2] or prop == "C04") and P.number_of_nodes() > 0
    if prop == "C04" and not connected:
        dom = False
    entry = "entry:map_subgraph(no_anchor:%s)" % how if pa is None else "entry:map_subgraph(subgraph_anchor:%s)" % how
    tg = tuple(tags) + ("mapsub", entry, "host_cyclic" if hc else "host_acyclic", "pattern_cyclic" if pc else "pattern_acyclic",
                        "wildcard" if margs[0] else "no_wildcard", "ignore_case" if margs[1] else "case_sensitive",
                        "cmtn" if margs[2] else "cmtn=[]", "|P|=%d" % P.number_of_nodes())
    if pa is not None and int(pa) == 0:
        tg += ("subgraph_anchor=0",)
    m = dict(meta or {})
    m.update({"host_nodes": int_nodes(H), "host_edges": int_edges(H), "anchor": int(a),
              "pattern_nodes": int_nodes(P), "pattern_edges": int_edges(P),
              "mapsub_pattern_anchor": None if pa is None else int(pa), "mapsub_how": how,
              "mapper": list(margs), "py_host_cycle": hc, "py_pattern_cycle": pc})
    if isinstance(out, ImplError):
        c = MatchCase(req, out, None, in_domain=dom, meta=m, tags=tg + ("raised",))
    else:
        c = MatchCase(req, out if prop == "C04" else [[f, []] for f, _ in out], out, in_domain=dom, meta=m,
                      tags=tg + ("flag=1" if any(f for f, _ in out) else "flag=0", "entries=%s" % (len(out) if len(out) < 4 else ">=4")))
    if P.number_of_nodes() >= 3 and H.number_of_nodes() >= 3:
        c.nontrivial_key = key_of(sx(req))
    return c


def unanchored_case(prop, H, P, margs, tags=(), meta=None, in_domain=True):
    out = call_impl(impl_unanchored, H, P, margs)
    req = [Atom(prop), Atom("unanchored"), enc_mapper(*margs), enc_graph(H), enc_graph(P)]
    hc, pc = has_cycle(H), has_cycle(P)
    ids_ok = sorted(H.nodes) == list(range(H.number_of_nodes()))
    dom = in_domain and not margs[2] and ids_ok and P.number_of_nodes() > 0
    if prop == "C04" and not (P.number_of_nodes() > 0 and nx.is_connected(P)):
        dom = False
    tg = tuple(tags) + ("unanchored", "entry:map_subgraph_to_graph", "host_cyclic" if hc else "host_acyclic", "pattern_cyclic" if pc else "pattern_acyclic",
                        "wildcard" if margs[0] else "no_wildcard", "ignore_case" if margs[1] else "case_sensitive",
                        "cmtn" if margs[2] else "cmtn=[]", "|P|=%d" % P.number_of_nodes())
    m = dict(meta or {})
    m.update({"host_nodes": int_nodes(H), "host_edges": int_edges(H),
              "pattern_nodes": int_nodes(P), "pattern_edges": int_edges(P),
              "mapper": list(margs), "py_host_cycle": hc, "py_pattern_cycle": pc})
    if not isinstance(out, ImplError):
        tg += ("flag=1" if out else "flag=0",)
    c = Case(req, out, in_domain=dom, meta=m, tags=tg)
    if P.number_of_nodes() >= 3 and H.number_of_nodes() >= 3:
        c.nontrivial_key = key_of(sx(req))
    return c


# ---------------------------------------------------------------------------
# corpus (fixed regression inputs, first on every run)
# ---------------------------------------------------------------------------
def parse(s, idx_offset=0):
    from fgutils.parse import parse as p
    return p(s, idx_offset=idx_offset) if idx_offset else p(s)


K2_WITNESSES = [("C1CC1", 0, "C(CC)CC", 0), ("CCCCC", 2, "C1CC1", 0)]


def chain(syms, bonds=None):
    return build([(i, s) for i, s in enumerate(syms)], [(i, i + 1, (bonds or [1] * len(syms))[i]) for i in range(len(syms) - 1)])


def k12_corpus():
    """(host smiles, host anchor, pattern graph, pattern anchor, mapper), tag"""
    h = (None, False, ["H"])
    return [
        (("C", 0, chain(["C", "H", "O"]), 0, h), "k12_witness"),                       # (True, [(0,0)]): O never matched
        (("CC", 0, chain(["C", "H", "O"]), 0, h), "k12_witness"),
        (("CO", 0, chain(["C", "H", "O"]), 0, h), "cmtn_corpus"),                      # H cannot be skipped over: O stays unmapped
        (("C=O", 1, parse("C(H)=O"), 2, h), "cmtn_corpus"),                            # the library's own test: optional leaf
        (("C=O", 0, parse("C(H)=O"), 0, h), "cmtn_corpus"),
        (("CC=O", 1, parse("C(H)=O"), 0, h), "cmtn_corpus"),
        (("CCO", 1, parse("C(H)(H)O"), 0, h), "cmtn_corpus"),
        (("CCO", 2, parse("C(H)(H)O"), 3, h), "cmtn_corpus"),
        (("CCO", 1, parse("RC(H)(H)OR"), 1, ("R", False, ["H", "R"])), "cmtn_corpus"),
        (("CO", 0, parse("RCOR"), 1, ("R", False, ["R"])), "cmtn_corpus"),            # optional wildcard leaves
    ]


def corpus_cases(prop):
    cases = []
    plain = ("R", False, [])
    # the two witnesses of known finding K2 — must be reproduced against the real code
    for hs, a, ps, pa in K2_WITNESSES:
        cases.append(anchored_case(prop, parse(hs), a, parse(ps), pa, plain, tags=("corpus", "k2_witness"),
                                   meta={"corpus": "K2 witness host %s anchor %d pattern %s anchor %d" % (hs, a, ps, pa)}))
    # known finding K12 (optional node in the middle of the pattern) and its well-behaved neighbours (optional leaves)
    for (hs, a, P, pa, margs), tg in k12_corpus():
        cases.append(anchored_case(prop, parse(hs), a, P, pa, margs, tags=("corpus", tg)))
    fixed = [
        ("CC(=O)OC", 1, "RC(=O)OR", 1, ("R", False, [])),          # ester, wildcards
        ("CC(=O)OC", 1, "C(=O)O", 0, ("R", False, [])),
        ("CC(=O)O", 1, "RC(=O)OR", 1, ("R", False, [])),           # acid is not an ester (H missing)
        ("c1ccccc1O", 0, "ccO", 0, ("R", False, [])),
        ("C1CCOC1", 3, "C1OC1", 1, ("R", False, [])),              # K3's molecule
        ("CC(C)(C)C", 1, "C(C)(C)(C)C", 0, ("R", False, [])),      # symmetric neighbourhood, degree 4
        ("CC(C)(C)O", 1, "C(C)(O)C", 0, ("R", False, [])),         # needs backtracking over the assignment
        ("CC(O)C(C)N", 1, "C(C)(O)C(C)N", 0, ("R", False, [])),
        ("CCO", 0, "cco", 0, (None, True, [])),                    # ignore_case
        ("CCO", 0, "cco", 0, (None, False, [])),
        ("C=O", 0, "CO", 0, ("R", False, [])),                     # bond order differs
        ("CCCO", 1, "C(C)CO", 0, ("R", False, [])),
        ("NCC(O)C(O)CN", 2, "C(O)C(O)", 0, ("R", False, [])),
        # deep recursion: a chain pattern of 10 atoms anchored at its end / in its middle (review 3, M1: a depth guard in _fit)
        ("CCCCCCCCCCO", 1, "CCCCCCCCCO", 0, ("R", False, [])),
        ("CCCCCCCCCCO", 10, "CCCCCCCCCO", 9, ("R", False, [])),
        ("NCCCCCCCCCCCCCCCCCCCCCCCCO", 12, "CCCCCCCCCCCCCCCCCCCCCCCCO", 11, ("R", False, [])),
        ("C1CCCCC1CCCCCCCCCCCCCCN", 0, "C1CCCCC1CCCCCCCCCCCCCCN", 0, ("R", False, [])),
    ]
    for hs, a, ps, pa, margs in fixed:
        cases.append(anchored_case(prop, parse(hs), a, parse(ps), pa, margs, tags=("corpus",)))
        cases.append(unanchored_case(prop, parse(hs), parse(ps), margs, tags=("corpus",)))
    for hs, a, ps, pa in K2_WITNESSES:
        cases.append(unanchored_case(prop, parse(hs), parse(ps), plain, tags=("corpus", "k2_witness_unanchored")))
    # test_explore_wrong_branch-like: two equal first steps, only one continues
    H = build([(0, "C"), (1, "C"), (2, "C"), (3, "O"), (4, "C"), (5, "N")],
              [(0, 1, 1), (0, 2, 1), (1, 3, 1), (2, 4, 1), (4, 5, 1)])
    P = build([(0, "C"), (1, "C"), (2, "C"), (3, "N")], [(0, 1, 1), (1, 2, 1), (2, 3, 1)])
    cases.append(anchored_case(prop, H, 0, P, 0, plain, tags=("corpus", "wrong_branch")))
    # the public entry point map_subgraph with an explicit pattern anchor 0 / on a pattern whose ids do not start at 0 /
    # without an anchor
    co = parse("CO")
    co_shifted = nx.relabel_nodes(co, {0: 1, 1: 0}, copy=True)          # node order [1, 0]
    for hs, a, pat, pa in [("OC", 0, co, 0), ("OC", 0, co_shifted, 0), ("OC", 0, co, 1), ("CC(=O)OC", 1, parse("RC(=O)OR"), 0),
                           ("CC(=O)OC", 3, parse("RC(=O)OR"), 3), ("CCO", 2, parse("CO", idx_offset=4), 5)]:
        for how in ("keyword", "positional"):
            cases.append(mapsub_case(prop, parse(hs), a, pat, pa, plain, how, tags=("corpus", "corpus:map_subgraph")))
        cases.append(mapsub_case(prop, parse(hs), a, pat, None, plain, "omitted", tags=("corpus", "corpus:map_subgraph")))
    # hosts / patterns that carry attributes the matcher has no business with, frozen graphs, views, numpy ids
    k = 0
    for hs, a, ps, pa in [("CCO", 2, "CO", 1), ("CC(=O)O", 2, "RC(=O)O", 2), ("CC(=O)OC", 1, "RC(=O)OR", 1), ("NCC(O)C(O)CN", 2, "C(O)C(O)", 0)]:
        for kind in FORM_KINDS:
            for side in ("host", "pattern", "both"):
                k += 1
                fh = [[kind, 1000 + k]] if side != "pattern" else []
                fp = [[kind, 2000 + k]] if side != "host" else []
                cases.append(anchored_case(prop, apply_forms(parse(hs), fh), a, apply_forms(parse(ps), fp), pa, plain,
                                           tags=("corpus", "corpus:forms", "form:%s:%s" % (kind, side)),
                                           meta={"forms": {"host": fh, "pattern": fp}}))
    # corpus directory (minimised past failures)
    d = os.path.join(common.CORPUS_DIR, "C03")
    if os.path.isdir(d):
        for fn in sorted(os.listdir(d)):
            if fn.endswith(".json"):
                j = json.load(open(os.path.join(d, fn)))
                c = case_from_json(prop, j)
                if c is not None:
                    cases.append(c)
    return cases


def graph_from_json(j):
    return build([(int(n), s) for n, s in j["nodes"]], [(int(u), int(v), b) for u, v, b in j["edges"]])


def case_from_json(prop, j):
    H, P = graph_from_json(j["host"]), graph_from_json(j["pattern"])
    margs = (j["mapper"][0], bool(j["mapper"][1]), list(j["mapper"][2]))
    if j.get("op", "anchored") == "anchored":
        return anchored_case(prop, H, j["anchor"], P, j["pattern_anchor"], margs, tags=("corpus", "corpus_file"),
                             meta={"corpus": j.get("name")})
    return unanchored_case(prop, H, P, margs, tags=("corpus", "corpus_file"), meta={"corpus": j.get("name")})


# ---------------------------------------------------------------------------
# generated cases
# ---------------------------------------------------------------------------
def gen_high_degree(rng):
    """star host with 7-8 leaves (a few leaves extended by one atom), pattern = the centre with 1-3
    of its neighbours (symbols possibly blurred to R), anchored centre on centre; the neighbours the
    pattern needs are inserted AFTER others of a different symbol"""
    d = rng.choice([7, 7, 8])
    syms = [rng.choice(["C", "N", "O", "S", "Cl"]) for _ in range(d)]
    H = nx.Graph()
    H.add_node(0, symbol=rng.choice(["C", "N", "P"]))
    order = list(range(1, d + 1))
    rng.shuffle(order)
    for i in order:
        H.add_node(i, symbol=syms[i - 1])
    for i in order:
        H.add_edge(0, i, bond=rng.choice([1, 1, 2]))
    nxt = d + 1
    for i in order[:2]:
        if rng.random() < 0.5:
            H.add_node(nxt, symbol="C")
            H.add_edge(i, nxt, bond=1)
            nxt += 1
    k = rng.randint(1, 3)
    pick = rng.sample(order[-4:], min(k, 4)) if rng.random() < 0.6 else rng.sample(order, k)
    P = nx.Graph()
    P.add_node(0, symbol=H.nodes[0]["symbol"])
    for j, v in enumerate(pick, 1):
        P.add_node(j, symbol=("R" if rng.random() < 0.2 else H.nodes[v]["symbol"]))
        P.add_edge(0, j, bond=H.edges[0, v]["bond"] if rng.random() < 0.9 else 3)
    return H, 0, P, 0


# ---------------------------------------------------------------------------
# DEEP cases: long chains / combs / rings with tails / sparse trees — patterns of 10-40 atoms in hosts of 12-60 atoms,
# anchored at an end and in the middle, so that recursion depth, visited-set sizes and path lengths lie far beyond
# any small constant; un-anchored scans in which only a late host node / a late pattern anchor succeeds.
# The answer is known BY CONSTRUCTION wherever possible (`expect_exists`: the pattern is cut out of the host ->
# an embedding exists; a symbol the host does not contain / more atoms than the host has -> none exists); the
# driver's proved oracle must agree with it (a disagreement is a machinery failure, exit 2).
# ---------------------------------------------------------------------------
DEEP_SYMS = ["C", "N", "O", "S"]


def _ids(rng, n, arbitrary):
    return rng.sample(range(-5, 3 * n + 5), n) if arbitrary else list(range(n))


def deep_host(rng, family):
    """-> (n, syms, edges [(u, v, bond)], spine): positions 0..n-1; `spine` = positions along the longest designed path"""
    nsym = rng.choice([1, 2, 2, 3])
    alpha = rng.sample(DEEP_SYMS, nsym)
    bonds = rng.choice([[1], [1], [1, 1, 1, 2]])
    if family == "chain":
        n = rng.choice([12, 16, 20, 24, 30, 40, 50, 60])
        edges = [(i, i + 1) for i in range(n - 1)]
        spine = list(range(n))
    elif family == "comb":
        b = rng.choice([10, 14, 20, 26, 30])
        teeth = [i for i in range(b) if rng.random() < rng.choice([0.3, 0.6, 1.0])][: 60 - b]
        n = b + len(teeth)
        edges = [(i, i + 1) for i in range(b - 1)] + [(t, b + j) for j, t in enumerate(teeth)]
        spine = list(range(b))
    elif family == "ring_tail":
        rsz = rng.choice([3, 5, 6, 6, 8])
        tail = rng.choice([9, 12, 18, 25, 34, 50])
        n = rsz + tail
        edges = shape_ring(rsz) + [(0, rsz)] + [(i, i + 1) for i in range(rsz, n - 1)]
        spine = [x for x in range(rsz // 2, -1, -1)] + list(range(rsz, n))        # half way round the ring, then the tail
    else:                                   # sparse tree, degree <= 3, with a long path through it
        b = rng.choice([10, 15, 20, 28])
        n = min(60, b + rng.choice([4, 10, 20, 30]))
        edges = [(i, i + 1) for i in range(b - 1)]
        deg = [0] * n
        for u, v in edges:
            deg[u] += 1
            deg[v] += 1
        for i in range(b, n):
            cand = [j for j in range(i) if deg[j] < 3]
            j = rng.choice(cand)
            edges.append((j, i))
            deg[i] += 1
            deg[j] += 1
        spine = list(range(b))
    syms = [rng.choice(alpha) for _ in range(n)]
    if family in ("comb", "tree") and nsym == 1 and rng.random() < 0.7:
        # all-equal symbols on a branching host make the implementation try every neighbour assignment at every level:
        # keep the branching hosts mostly distinguishable (a second symbol off the spine)
        other = rng.choice([s for s in DEEP_SYMS if s not in alpha])
        for i in range(n):
            if i not in spine and rng.random() < 0.8:
                syms[i] = other
    return n, syms, [(u, v, rng.choice(bonds)) for u, v in edges], spine


def gen_deep_one(rng):
    """one deep (host, anchor, pattern, pattern anchor, mapper, tags, expect_exists) input"""
    family = rng.choice(["chain", "chain", "comb", "ring_tail", "tree"])
    n, syms, edges, spine = deep_host(rng, family)
    adj = {i: [] for i in range(n)}
    for u, v, b in edges:
        adj[u].append(v)
        adj[v].append(u)
    hid = _ids(rng, n, rng.random() < 0.6)
    H = build([(hid[i], syms[i]) for i in range(n)], [(hid[u], hid[v], b) for u, v, b in edges], rng)
    # the pattern: a connected part of the host that contains a long stretch of the spine (10-40 atoms)
    k = min(rng.choice([10, 12, 15, 20, 25, 30, 40]), n)
    L = min(len(spine), k)
    L = rng.randint(max(1, min(L, 9)), L) if family != "chain" else L
    s0 = rng.randint(0, len(spine) - L)
    S = list(spine[s0:s0 + L])
    seen = set(S)
    while len(S) < k:
        cand = [v for u in S for v in adj[u] if v not in seen]
        if not cand:
            break
        v = rng.choice(cand)
        S.append(v)
        seen.add(v)
    wild, ic = rng.choice([("R", False), ("R", False), (None, False), ("R", True), (None, True)])
    pid = _ids(rng, len(S), rng.random() < 0.5)
    rng.shuffle(pid)
    mp = dict(zip(S, pid))
    psym = {}
    for u in S:
        s = syms[u]
        x = rng.random()
        if wild == "R" and x < 0.12:
            s = "R"
        elif ic and x < 0.3:
            s = s.swapcase()
        psym[u] = s
    # pattern bonds: a spanning tree (every bond of an acyclic part; of a ring all bonds, or all but one) of the induced part
    pedges = [(u, v, b) for u, v, b in edges if u in seen and v in seen]
    Pg = nx.Graph([(u, v) for u, v, _ in pedges])
    if family == "ring_tail" and rng.random() < 0.4 and len(S) > 1 and not nx.is_forest(Pg):
        cyc = nx.find_cycle(Pg)
        drop = rng.choice(cyc)
        pedges = [e for e in pedges if {e[0], e[1]} != {drop[0], drop[1]}]      # the ring opened: an acyclic pattern on a cyclic host
    variant = rng.choice(["sub", "sub", "sub", "sub", "far_symbol", "far_swap", "far_bond", "too_big", "other_anchor"])
    expect = True
    # the anchor: an end of the spine stretch, its middle, or any pattern atom
    where = rng.choice(["end", "end", "middle", "any"])
    stretch = S[:L]
    pa_pos = stretch[0] if where == "end" and rng.random() < 0.5 else stretch[-1] if where == "end" else stretch[L // 2] if where == "middle" else rng.choice(S)
    a_pos = pa_pos
    if variant == "far_symbol":
        # the atom farthest from the anchor gets a symbol the host does not contain: no embedding (symbol count)
        dist = nx.single_source_shortest_path_length(nx.Graph([(u, v) for u, v, _ in pedges]), pa_pos)
        far = max(dist, key=lambda u: (dist[u], u))
        psym[far] = "P" if not ic else "p"
        expect = False
    elif variant == "far_swap":
        # the atom farthest from the anchor gets another symbol of the alphabet: judged by the oracle
        dist = nx.single_source_shortest_path_length(nx.Graph([(u, v) for u, v, _ in pedges]), pa_pos)
        far = max(dist, key=lambda u: (dist[u], u))
        psym[far] = rng.choice([x for x in DEEP_SYMS if x.lower() != psym[far].lower()])
        expect = None
    elif variant == "far_bond" and pedges:
        # the bond farthest from the anchor gets an order the host does not contain: no embedding
        dist = nx.single_source_shortest_path_length(nx.Graph([(u, v) for u, v, _ in pedges]), pa_pos)
        i = max(range(len(pedges)), key=lambda i: (min(dist[pedges[i][0]], dist[pedges[i][1]]), i))
        pedges[i] = (pedges[i][0], pedges[i][1], 3)
        expect = False
    elif variant == "too_big":
        # one more atom, of a symbol the host does not contain, somewhere on the stretch: no embedding (symbol count)
        extra = max(mp.values()) + 1
        at = rng.choice(stretch)
        psym["x"] = "Q"
        mp["x"] = extra
        pedges.append((at, "x", 1))
        S = S + ["x"]
        expect = False
    elif variant == "other_anchor":
        a_pos = rng.randrange(n)
        expect = None if a_pos != pa_pos else True
    P = build([(mp[u], psym[u]) for u in S], [(mp[u], mp[v], b) for u, v, b in pedges], rng)
    tags = ("deep", "deep:family=" + family, "deep:variant=" + variant, "deep:anchor=" + where,
            "deep:|P|=%s" % bucket(P.number_of_nodes()), "deep:|H|=%s" % bucket(n))
    return H, hid[a_pos], P, mp[pa_pos], (wild, ic, []), tags, expect, {"deep_embedding": {str(mp[u]): hid[u] for u in S if u != "x"}}


def bucket(x):
    return "<10" if x < 10 else "10-19" if x < 20 else "20-29" if x < 30 else "30-39" if x < 40 else "40-49" if x < 50 else "50+"


def gen_deep_scan(rng):
    """un-anchored scan in which only a LATE host node and a LATE pattern anchor succeed: host = chain 0..n-1 of one
    symbol whose last atom (id n-1) carries the only N; pattern = N at the end of a chain of k-1 atoms, N inserted
    last.  The first host node with an embedding is n-k."""
    n = rng.choice([14, 18, 24, 30, 36])
    k = rng.choice([3, 6, 10, 12])
    k = min(k, n - 1)
    c = rng.choice(["C", "O", "S"])
    H = nx.Graph()
    for i in range(n):
        H.add_node(i, symbol=c if i < n - 1 else "N")
    for i in range(n - 1):
        H.add_edge(i, i + 1, bond=1)
    variant = rng.choice(["sub", "sub", "too_long"])
    if variant == "too_long":
        k = n + 1 if n <= 24 else k
        variant = "too_long" if k > n else "sub"
    P = nx.Graph()
    for j in range(k - 1):
        P.add_node(j, symbol=c)
    P.add_node(k - 1, symbol="N")
    for j in range(k - 1):
        P.add_edge(j, j + 1, bond=1)
    return H, P, ("R", False, []), ("deep", "deep:family=scan", "deep:variant=" + variant, "deep:|P|=%s" % bucket(k), "deep:|H|=%s" % bucket(n),
                                    "deep:first_host_anchor=%s" % bucket(max(0, n - k))), (k <= n)


def gen_deep_cases(prop, rng, n):
    cases = []
    for i in range(n):
        if i % 12 == 11:
            H, P, margs, tags, expect = gen_deep_scan(rng)
            cases.append(unanchored_case(prop, H, P, margs, tags=tags, meta={"expect_exists": expect}))
            continue
        H, a, P, pa, margs, tags, expect, meta = gen_deep_one(rng)
        meta["expect_exists"] = expect
        x = rng.random()
        if x < 0.85:
            cases.append(anchored_case(prop, H, a, P, pa, margs, tags=tags, meta=meta))
        elif x < 0.93:
            cases.append(mapsub_case(prop, H, a, P, pa, margs, rng.choice(["keyword", "positional"]), tags=tags, meta=meta))
        else:
            # one entry per pattern node (10-40 pattern anchors tried); the construction speaks about one of them only
            meta["expect_exists"] = expect
            cases.append(mapsub_case(prop, H, a, P, None, margs, "omitted", tags=tags, meta=meta))
    return cases


def gen_cmtn_cases(prop, rng, n):
    """patterns with OPTIONAL nodes: a sub-structure of the host decorated with optional leaves (must match, the leaves
    mapped to nothing or to a host neighbour), optional nodes in the middle of a pattern bond (known finding K12 or a
    failure), hosts with and without the optional symbol"""
    cases = []
    for _ in range(n):
        H, hkind, _ = gen_host(rng, anchored=True)
        cm = rng.choice([["H"], ["H"], ["R"], ["H", "R"], ["O"], ["c"]])
        wild = rng.choice(["R", "R", None])
        ic = rng.random() < 0.25
        if rng.random() < 0.3:
            # the host carries the optional symbol on some leaves too
            nxt = max(H.nodes) + 1
            for u in rng.sample(list(H.nodes), min(2, H.number_of_nodes())):
                H.add_node(nxt, symbol=rng.choice([c for c in cm if c != "R"] or ["H"]))
                H.add_edge(u, nxt, bond=1)
                nxt += 1
        P, emb = gen_subpattern(rng, H, near_miss=rng.random() < 0.15, maxk=5 if hkind == "clique" else 7)
        kind = rng.choice(["leaf", "leaf", "leaf", "middle", "plain"])
        nxt = max(P.nodes) + 1
        if kind == "leaf":
            for _k in range(rng.randint(1, 3)):
                P.add_node(nxt, symbol=rng.choice(cm))
                P.add_edge(rng.choice([u for u in P.nodes if u != nxt]), nxt, bond=1)
                nxt += 1
        elif kind == "middle" and P.number_of_edges() > 0:
            u, v = rng.choice(list(P.edges))
            b = P.edges[u, v]["bond"]
            P.remove_edge(u, v)
            P.add_node(nxt, symbol=rng.choice(cm))
            P.add_edge(u, nxt, bond=b)
            P.add_edge(nxt, v, bond=rng.choice([1, b]))
        if rng.random() < 0.7:
            pa = rng.choice(list(emb))
            a = emb[pa]
        else:
            pa = rng.choice(list(P.nodes))
            a = rng.choice(list(H.nodes))
        tags = ("cmtn:" + kind, "cmtn:list=" + ",".join(cm), "host:" + hkind)
        x = rng.random()
        if x < 0.8:
            cases.append(anchored_case(prop, H, a, P, pa, (wild, ic, cm), tags=tags))
        elif x < 0.9:
            cases.append(mapsub_case(prop, H, a, P, pa, (wild, ic, cm), rng.choice(["keyword", "positional"]), tags=tags))
        else:
            cases.append(mapsub_case(prop, H, a, P, None, (wild, ic, cm), "omitted", tags=tags))
    return cases


def expectation_mismatches(outs):
    """cases whose answer is known by construction, on which the driver's oracle says otherwise (machinery failure)"""
    bad = []
    for o in outs:
        want = o.case.meta.get("expect_exists")
        if want is None or not o.ok_reply:
            continue
        if (extras(o).get("exists") == "1") != want:
            bad.append(o)
    return bad


def gen_cases(prop, rng, n):
    """n random (host, pattern, anchors, mapper) inputs -> cases (anchored; every 4th also un-anchored)"""
    cases = []
    for k in range(n):
        unanch = k % 4 == 3
        H, hkind, _ = gen_host(rng, anchored=not unanch)
        x = rng.random()
        emb = None
        # dense patterns make the implementation's per-path DFS explode (K7 <- K7 takes minutes)
        maxk = 5 if hkind == "clique" else 7
        if x < 0.62:
            P, emb = gen_subpattern(rng, H, maxk=maxk)
            pkind = "sub"
        elif x < 0.77:
            P, emb = gen_subpattern(rng, H, near_miss=True, maxk=maxk)
            pkind = "near_miss"
        elif x < 0.95:
            P = gen_unrelated(rng)
            pkind = "unrelated"
        else:
            # disconnected pattern: two sub-structures side by side
            P1, _ = gen_subpattern(rng, H, maxk=3)
            P2 = gen_unrelated(rng)
            P = nx.Graph()
            P.add_nodes_from(P1.nodes(data=True))
            P.add_edges_from(P1.edges(data=True))
            off = max(list(P1.nodes) + [0]) + 1
            P.add_nodes_from((n_ + off, d) for n_, d in P2.nodes(data=True))
            P.add_edges_from((u + off, v + off, d) for u, v, d in P2.edges(data=True))
            pkind = "disconnected"
        margs = gen_mapper(rng)
        tags = ("host:" + hkind, "pattern:" + pkind)
        if not unanch and k % 37 == 5:
            # a centre with 7-8 neighbours (beyond the degree cap of the random hosts; the pattern
            # keeps <= 3 neighbours so that the implementation's d! enumeration stays affordable)
            H, a, P, pa = gen_high_degree(rng)
            cases.append(anchored_case(prop, H, a, P, pa, (margs[0], margs[1], []), tags=("host:star>=7", "pattern:sub")))
            continue
        if not unanch and k % 29 == 7:
            # the same graph OBJECTS are matched, edited in place, and matched again: the answer
            # must be the one for the graphs as they are at call time
            pa0 = rng.choice(list(P.nodes))
            a0 = rng.choice(list(H.nodes))
            call_impl(impl_anchored, H, a0, P, pa0, margs)
            hn = list(H.nodes)
            if rng.random() < 0.5:
                H.nodes[rng.choice(hn)]["symbol"] = rng.choice(["N", "O", "C", "S"])
            else:
                new = max(hn) + 1
                H.add_node(new, symbol=rng.choice(["O", "N", "C"]))
                H.add_edge(rng.choice(hn), new, bond=rng.choice([1, 2]))
            if rng.random() < 0.3:
                P.nodes[rng.choice(list(P.nodes))]["symbol"] = rng.choice(["N", "O", "C", "R"])
            cases.append(anchored_case(prop, H, a0, P, pa0, margs, tags=tags + ("after_in_place_edit",)))
            continue
        # FORMS of the same input (extra node / edge attributes, numpy integers as node ids, frozen graphs, sub-graph
        # views) on host and/or pattern: the matcher must answer as for the plain form
        H2, P2, fmeta, ftags = with_forms(rng, H, P)
        formed = ftags != ("form:plain",)
        if unanch:
            c = unanchored_case(prop, H2, P2, margs, tags=tags + ftags, meta=fmeta)
            if formed:
                note_plain(c, call_impl(impl_unanchored, H, P, margs))
            cases.append(c)
            continue
        if emb is not None and rng.random() < 0.65:
            pa = rng.choice(list(emb))
            a = emb[pa]                         # anchor pair on the construction's embedding
        else:
            pa = rng.choice(list(P.nodes))
            a = rng.choice(list(H.nodes))
        # ENTRY POINTS: map_anchored_subgraph (72%), the public map_subgraph with an explicit pattern anchor (16%,
        # keyword / positional; anchor 0 wherever the pattern has a node 0) and without one (12%)
        x = rng.random()
        if x < 0.72:
            c = anchored_case(prop, H2, a, P2, pa, margs, tags=tags + ftags, meta=fmeta)
            if formed:
                plain = call_impl(impl_anchored, H, a, P, pa, margs)
                note_plain(c, plain if isinstance(plain, ImplError) else plain[0])
        else:
            if x < 0.88:
                if 0 in P.nodes and rng.random() < 0.5:
                    pa = 0
                    if emb is not None and rng.random() < 0.6:
                        a = emb[0]
                how = rng.choice(["keyword", "positional"])
                c = mapsub_case(prop, H2, a, P2, pa, margs, how, tags=tags + ftags, meta=fmeta)
            else:
                pa, how = None, rng.choice(["omitted", "none"])
                c = mapsub_case(prop, H2, a, P2, None, margs, how, tags=tags + ftags, meta=fmeta)
            if formed:
                plain = call_impl(impl_mapsub, H, a, P, pa, margs, how)
                note_plain(c, plain if isinstance(plain, ImplError) else [f for f, _ in plain])
        cases.append(c)
    return cases


def flags_of(c):
    """the success flag(s) of a case's implementation answer"""
    if isinstance(c.impl, ImplError):
        return ("raised", c.impl.kind)
    if c.req[1] == "unanchored":
        return c.impl
    if c.req[1] == "mapsub":
        return [f for f, _ in c.impl]
    return c.impl[0]


def note_plain(c, plain):
    """record whether the answer on the variant form equals the answer on the plain form of the same graphs (flags;
    the pair set of a success may legitimately depend on the adjacency order).  The verdict comes from the
    specification applied to the variant's answer; this is the distribution for the evidence."""
    if isinstance(plain, ImplError):
        plain = ("raised", plain.kind)
    mine = flags_of(c)
    if isinstance(mine, list) and isinstance(plain, list):
        # map_subgraph without an anchor: one entry per pattern node in the PATTERN's node order, which a view may change
        mine, plain = sorted(mine), sorted(plain)
    same = mine == plain
    c.meta["plain_form_flags"] = plain
    c.meta["equals_plain_form"] = same
    c.tags = tuple(c.tags) + (("form:answer_equals_plain_form",) if same else ("form:ANSWER_DIFFERS_FROM_PLAIN_FORM",))


# exhaustive enumeration: all connected graphs with <= 5 nodes (up to isomorphism) x all labelings
# with 2 symbols, single bonds
def small_connected_graphs(maxn):
    from networkx.generators.atlas import graph_atlas_g
    out = []
    for g in graph_atlas_g():
        n = g.number_of_nodes()
        if 1 <= n <= maxn and nx.is_connected(g):
            out.append(nx.convert_node_labels_to_integers(g))
    return out


def labelled_small(maxn, syms):
    out = []
    for g in small_connected_graphs(maxn):
        n = g.number_of_nodes()
        for lab in itertools.product(syms, repeat=n):
            out.append(build([(i, lab[i]) for i in range(n)], [(u, v, 1) for u, v in g.edges]))
    return out


def exhaustive_cases(prop, shard, nshards, maxn_anch=3):
    """all pattern/host pairs over connected graphs <= 5 nodes x 2 symbols (plus wildcard patterns <= 4
    nodes), un-anchored; all anchor pairs for hosts and patterns with <= maxn_anch nodes"""
    hosts = labelled_small(5, ["C", "O"])
    pats = labelled_small(5, ["C", "O"]) + [g for g in labelled_small(4, ["R", "C"])
                                             if any(s == "R" for _, s in g.nodes(data="symbol"))]
    margs = ("R", False, [])
    cases = []
    idx = 0
    for H in hosts:
        for P in pats:
            idx += 1
            if idx % nshards != shard:
                continue
            cases.append(unanchored_case(prop, H, P, margs, tags=("exhaustive",)))
            if H.number_of_nodes() <= maxn_anch and P.number_of_nodes() <= maxn_anch:
                for a in H.nodes:
                    for pa in P.nodes:
                        cases.append(anchored_case(prop, H, a, P, pa, margs, tags=("exhaustive",)))
    return cases


def _shard_worker(args):
    """thorough tier: one shard is generated, run through the implementation and through its own
    driver process inside a worker; only the summary travels back (deterministic per (seed, shard))"""
    kind, prop, tier, seed, shard, n = args
    if kind == "gen":
        cases = gen_cases(prop, random.Random("%d/%d/%s" % (seed, shard, prop)), n)
        cases += gen_deep_cases(prop, random.Random("deep/%d/%d/%s" % (seed, shard, prop)), max(20, n // 10))
        cases += gen_cmtn_cases(prop, random.Random("cmtn/%d/%d/%s" % (seed, shard, prop)), max(20, n // 10))
        xlimit = 100
    else:
        cases = exhaustive_cases(prop, shard, n)
        xlimit = 20
    w = Run(prop, tier, seed)
    outs = w.evaluate(cases, classify_known=make_classifier(prop))
    bad_cycle = tally(w, outs)
    bad_oracle = oracle_crosscheck(w, outs, xlimit)
    bad_expect = expectation_mismatches(outs)
    if w.driver is not None:
        w.driver.close()
    slim = lambda lst: lst[:3]
    return {"kind": kind, "evaluations": w.evaluations, "nontrivial": w.nontrivial, "dist": w.dist, "samples": w.samples[:1],
            "out_of_domain": w.out_of_domain, "ood_dis": w.out_of_domain_disagreements,
            "spec_failures": slim(sorted(w.spec_failures, key=lambda o: len(o.case.line()))), "n_spec": len(w.spec_failures),
            "corr_failures": slim(sorted(w.corr_failures, key=lambda o: len(o.case.line()))), "n_corr": len(w.corr_failures),
            "driver_errors": slim(w.driver_errors), "known_hits": slim(w.known_hits), "n_known": len(w.known_hits),
            "traces": w.traces_validated, "bad_cycle": bad_cycle, "bad_oracle": slim(bad_oracle + bad_expect), "n_bad_oracle": len(bad_oracle) + len(bad_expect),
            "n_expect": sum(1 for o in outs if o.case.meta.get("expect_exists") is not None and o.ok_reply),
            "xchecked": w.extra_cov.get("oracle_crosschecked_against_networkx_vf2", 0)}


def merge_shard(r, res, totals):
    r.evaluations += res["evaluations"]
    r.nontrivial |= res["nontrivial"]
    for k, v in res["dist"].items():
        r.count(k, v)
    if len(r.samples) < 6:
        r.samples += res["samples"]
    r.out_of_domain += res["out_of_domain"]
    r.out_of_domain_disagreements += res["ood_dis"]
    r.spec_failures += res["spec_failures"]
    r.corr_failures += res["corr_failures"]
    r.driver_errors += res["driver_errors"]
    r.known_hits += res["known_hits"]
    r.traces_validated += res["traces"]
    for k in ("n_spec", "n_corr", "n_known", "bad_cycle", "n_bad_oracle", "xchecked", "n_expect"):
        totals[k] = totals.get(k, 0) + res[k]
    if res["kind"] == "exh":
        totals["exhaustive"] = totals.get("exhaustive", 0) + res["evaluations"]
    if res["bad_oracle"] and "bad_oracle_example" not in totals:
        totals["bad_oracle_example"] = res["bad_oracle"][0]


# ---------------------------------------------------------------------------
# outcome handling
# ---------------------------------------------------------------------------
def extras(o):
    d = {}
    for e in o.extra:
        if isinstance(e, list) and len(e) == 2:
            d[e[0]] = e[1]
    return d


def make_classifier(prop):
    k2 = next((f for f in common.load_known_findings() if f["id"] == "K2" and f.get("status") == "open"), None)
    k12 = next((f for f in common.load_known_findings() if f["id"] == "K12" and f.get("status") == "open"), None)

    def classify(o):
        """K2's scope, decided per case by the oracle (not by input name, not by the model's answer):
        the implementation reports success, the returned pairs are not an embedding (driver:
        isEmbedding false), no other clause fails, and host or pattern has a cycle (driver:
        isForestB false)"""
        if prop != "C04" or not o.ok_reply:
            return None
        e = extras(o)
        # the recorded defects are in the algorithm, so the MODEL shows them too: a failure is inside a finding's
        # scope only if implementation and model agree on this input (flag and pair set) and the model fails the same
        # clauses.  A new defect that merely happens to show on a cyclic graph / with optional nodes (implementation
        # != model) is a violation, not a known finding.
        failed, model_failed = e.get("failed") or [], e.get("model_failed") or []
        if not o.corr or not failed or sorted(failed) != sorted(model_failed):
            return None
        allowed = set()
        # K2: success, the returned pairs are not an embedding (with optional nodes: not a partial embedding), host or
        # pattern has a cycle (driver: isForestB false)
        if k2 is not None and (e.get("host_cycle") == "1" or e.get("pattern_cycle") == "1"):
            allowed.add("c04_not_embedding")
        # K12 (optional node in the middle of the pattern mapped to nothing, the nodes behind it never matched): NARROW —
        # can_map_to_nothing != [] and the failing clause is "a required pattern node has no partner"
        if k12 is not None and o.case.meta.get("mapper", [None, None, []])[2]:
            allowed.add("c04_required_node_unmapped")
        if not set(failed) <= allowed:
            return None
        return k12 if failed == ["c04_required_node_unmapped"] else k2

    return classify


def tally(r, outs):
    """input distribution by the driver's verdicts + machinery self-checks"""
    bad_cycle = 0
    for o in outs:
        if not o.ok_reply:
            continue
        e = extras(o)
        r.count("oracle:exists=" + str(e.get("exists")))
        for cl in e.get("failed") or []:
            r.count("clause_failed:" + cl)
        if e.get("vis_agree") == "0":
            r.count("visited_set_disagreements(recorded only)")
        if e.get("wf") == "0":
            r.count("wf=0")
        m = o.case.meta
        if "py_host_cycle" in m:
            if (e.get("host_cycle") == "1") != m["py_host_cycle"] or (e.get("pattern_cycle") == "1") != m["py_pattern_cycle"]:
                bad_cycle += 1
    return bad_cycle


def vf2_anchored(H, a, P, pa, margs):
    """networkx's monomorphism enumeration as an independent oracle (connected patterns only)"""
    from networkx.algorithms.isomorphism import GraphMatcher
    wild, ic, _ = margs

    def adm(ps, hs):
        w = wild
        if ic:
            ps, hs, w = ps.lower(), hs.lower(), (w.lower() if w else w)
        return ps == w or ps == hs
    gm = GraphMatcher(H, P, node_match=lambda dh, dp: adm(dp["symbol"], dh["symbol"]),
                      edge_match=lambda x, y: x["bond"] == y["bond"])
    for mp in gm.subgraph_monomorphisms_iter():
        if mp.get(a) == pa:
            return True
    return False


def oracle_crosscheck(r, outs, limit):
    """the Lean oracle `existsEmbedding` against networkx VF2 on connected patterns; a
    disagreement means the machinery is broken (exit 2), never a verdict about FGUtils"""
    bad = []
    done = 0
    for o in outs:
        if done >= limit:
            break
        m = o.case.meta
        if not o.ok_reply or "anchor" not in m or m["mapper"][2]:
            continue
        if "pattern_anchor" not in m:
            if m.get("mapsub_pattern_anchor") is None:
                continue
            m = dict(m, pattern_anchor=m["mapsub_pattern_anchor"])
        P = build(m["pattern_nodes"], m["pattern_edges"])
        if P.number_of_nodes() == 0 or not nx.is_connected(P):
            continue
        H = build(m["host_nodes"], m["host_edges"])
        want = vf2_anchored(H, m["anchor"], P, m["pattern_anchor"], m["mapper"])
        done += 1
        if (extras(o).get("exists") == "1") != want:
            bad.append(o)
    r.extra_cov["oracle_crosschecked_against_networkx_vf2"] = done
    r.extra_cov["oracle_disagreements"] = len(bad)
    return bad


def run(prop, tier, seed):
    r = Run(prop, tier, seed)
    if not prepare(r, PROOFS, prop):
        return 2
    classify = make_classifier(prop)
    rng = r.rng
    corpus = corpus_cases(prop)
    outs = r.evaluate(corpus, classify_known=classify)
    # the K2 witnesses must be reproduced against the real code on every run
    k2_repro = 0
    for o in outs:
        if "k2_witness" in o.case.tags and o.ok_reply and extras(o).get("failed") == ["c04_not_embedding"]:
            k2_repro += 1
    r.extra_cov["k2_witnesses_reproduced"] = "%d/%d" % (k2_repro, len(K2_WITNESSES))
    if k2_repro != len(K2_WITNESSES):
        print("NOTE property=%s known finding K2: only %d of %d witnesses reproduce on this tree" % (prop, k2_repro, len(K2_WITNESSES)))
    k12_repro = sum(1 for o in outs if "k12_witness" in o.case.tags and o.ok_reply and extras(o).get("failed") == ["c04_required_node_unmapped"])
    k12_n = sum(1 for o in outs if "k12_witness" in o.case.tags)
    r.extra_cov["k12_witnesses_reproduced"] = "%d/%d" % (k12_repro, k12_n)
    if prop == "C04" and k12_repro != k12_n:
        print("NOTE property=%s known finding K12: only %d of %d witnesses reproduce on this tree" % (prop, k12_repro, k12_n))
    totals = {}
    if tier == "quick":
        outs += r.evaluate(gen_cases(prop, rng, 8000), classify_known=classify)
    # DEEP cases (every run, also thorough's main process): patterns of 10-40 atoms in hosts of 12-60 atoms
    outs += r.evaluate(gen_deep_cases(prop, random.Random("deep/%d/%s" % (seed, prop)), 700), classify_known=classify)
    # OPTIONAL pattern nodes (can_map_to_nothing; in domain for C04 only)
    outs += r.evaluate(gen_cmtn_cases(prop, random.Random("cmtn/%d/%s" % (seed, prop)), 600), classify_known=classify)
    bad_cycle = tally(r, outs)
    bad_oracle = oracle_crosscheck(r, outs, 500)
    bad_expect = expectation_mismatches(outs)
    n_expect = sum(1 for o in outs if o.case.meta.get("expect_exists") is not None and o.ok_reply)
    bad_oracle += bad_expect
    n_bad_oracle, xchecked = len(bad_oracle), r.extra_cov["oracle_crosschecked_against_networkx_vf2"]
    if tier != "quick":
        import multiprocessing as mp
        nshards = 64
        base = (len(r.spec_failures), len(r.corr_failures), len(r.known_hits))
        jobs = [("gen", prop, tier, seed, s, 300000 // nshards) for s in range(nshards)]
        # exhaustive: all pattern/host pairs over connected graphs <= 5 nodes, 2 symbols (test)
        jobs += [("exh", prop, tier, seed, s, 128) for s in range(128)]
        with mp.Pool(16) as pool:
            for res in pool.imap(_shard_worker, jobs):
                merge_shard(r, res, totals)
        bad_cycle += totals.get("bad_cycle", 0)
        n_bad_oracle += totals.get("n_bad_oracle", 0)
        xchecked += totals.get("xchecked", 0)
        n_expect += totals.get("n_expect", 0)
        if not bad_oracle and "bad_oracle_example" in totals:
            bad_oracle = [totals["bad_oracle_example"]]
        r.extra_cov["exhaustive_small_cases"] = totals.get("exhaustive", 0)
        # the shards keep only the three shortest failures each; the totals are exact
        r.extra_cov["spec_failures"] = base[0] + totals.get("n_spec", 0)
        r.extra_cov["correspondence_failures"] = base[1] + totals.get("n_corr", 0)
        r.extra_cov["known_finding_hits"] = base[2] + totals.get("n_known", 0)
    r.extra_cov["oracle_crosschecked_against_networkx_vf2"] = xchecked
    r.extra_cov["oracle_disagreements"] = n_bad_oracle
    r.extra_cov["oracle_checked_against_answers_known_by_construction"] = n_expect
    r.extra_cov["deep_cases"] = {k[len("tag:deep:"):]: v for k, v in sorted(r.dist.items()) if k.startswith("tag:deep:")}
    r.extra_cov["cycle_oracle_vs_networkx_disagreements"] = bad_cycle
    r.extra_cov["cases_by_entry_point"] = {k[len("tag:entry:"):]: v for k, v in sorted(r.dist.items()) if k.startswith("tag:entry:")}
    r.extra_cov["cases_by_input_form"] = {k[len("tag:form:"):]: v for k, v in sorted(r.dist.items()) if k.startswith("tag:form:")}
    r.extra_cov["form_answers_differing_from_plain_form"] = r.dist.get("tag:form:ANSWER_DIFFERS_FROM_PLAIN_FORM", 0)
    r.assumptions = [
        "networkx Graph enters the model as insertion-ordered node list + insertion-ordered adjacency rows (Model/Graph.lean); itertools.permutations order is modelled by Perm.arrangements",
        "hosts are limited to degree <= %d and cliques to <= 7 nodes (patterns on cliques to <= 5 nodes): the implementation enumerates all d! permutations of the unvisited host neighbours per call and walks every simple path of a dense pattern" % MAX_HOST_DEGREE,
        "inputs with can_map_to_nothing != []: out of domain for C03 (its statement quantifies over wildcard and ignore_case); for C04 the statement is read as 'the whole pattern minus the optional nodes mapped to nothing' — judged: partial embedding (anchor pair, admitted symbols, injective function, bonds between mapped nodes) and every node without a partner optional (Model/C04Opt.lean; failure of the latter on the unchanged library = known finding K12); the oracle clauses are not judged with optional nodes; disconnected patterns are counted out of domain for C04",
        "the oracle existsEmbedding is proved exact on well-formed graphs (existsEmbedding_sound, existsEmbedding_complete); it is additionally cross-checked against networkx VF2 on every run and, on the deep cases, against the answer known by construction (a disagreement is a machinery failure)",
        "sizes: random hosts 3-12 atoms / patterns <= 7 atoms; deep families hosts 12-60 atoms / patterns 10-41 atoms (recursion depth up to 40); larger inputs are not sampled",
        "correspondence observes the flag (C03) / the flag and the pair set on success (C04); agreement of the returned visited sets is recorded only (no caller reads them)",
        "the theorems assume canMapToNothing = [] and well-formed simple graphs (C03.WF, checked per case by wfB: tag wf=0 counts violations)",
    ]
    def escalate():
        # a proof obligation or the correspondence broke and no input violating the property was
        # found in this run's sample: search a thorough-size random sample (16 processes)
        import multiprocessing as mp
        jobs = [("gen", prop, "thorough", seed + 1000003, s, 4000) for s in range(32)]   # each with 400 deep cases
        with mp.Pool(16) as pool:
            for res in pool.imap(_shard_worker, jobs):
                merge_shard(r, res, totals)
        r.extra_cov["escalated_cases"] = 32 * 4000
    r.escalation = escalate
    rc_machinery = 0
    if bad_cycle or n_bad_oracle:
        print("ERROR property=%s the oracle machinery disagrees with networkx (cycle test: %d, embedding oracle: %d cases)%s" % (
            prop, bad_cycle, n_bad_oracle, (" e.g. " + bad_oracle[0].case.line()[:300]) if bad_oracle else ""))
        rc_machinery = 2
    rc = r.finish(
        level="proof",
        rule="hosts: random trees / rings / fused rings / trees+chords (3-12 nodes, degree <= 6), cliques 3-7, 1-4 symbols, arbitrary node ids (anchored) "
             "or 0..n-1 (un-anchored), shuffled insertion order; patterns: random connected sub-structures of the host with symbols blurred to R / case-flipped, "
             "near misses (one bond or symbol changed), unrelated trees/rings/cliques/stars, disconnected; mapper: wildcard in {R, None} x ignore_case x "
             "can_map_to_nothing (8%, out of domain); ENTRY POINTS: map_anchored_subgraph 72% / map_subgraph with explicit subgraph_anchor 16% (keyword or positional, anchor 0 "
             "wherever the pattern has a node 0, pattern ids not starting at 0) / map_subgraph without anchor 12% of the anchored cases, map_subgraph_to_graph every 4th case "
             "(tags entry:*); INPUT FORMS on host and/or pattern, each kind in 12% of the cases, combinable (tags form:*): extra node / edge attributes, numpy integers as "
             "node ids, nx.freeze, sub-graph views of a larger graph — the answer is judged by the same clauses and compared with the plain form's (form:answer_equals_plain_form); "
             "DEEP cases in every run (700 quick; a tenth of every thorough shard; tags deep:*): chains / combs / rings with a tail / sparse trees of 12-60 atoms with patterns of "
             "10-40 atoms cut out of them (symbols blurred / case-flipped, ring opened), anchored at an end, in the middle or anywhere, through all three anchored entry points; "
             "variants with the answer known by construction (cut-out: exists; a symbol or bond order the host lacks at the atom farthest from the anchor, one atom too many: none) "
             "or judged by the oracle (far atom re-labelled, other host anchor); un-anchored scans over chains of 14-36 atoms in which only host node n-k and the last pattern anchor succeed; "
             "OPTIONAL pattern nodes (600 quick; tags cmtn:*): sub-structure patterns decorated with 1-3 optional leaves (H / R / a host symbol), optional nodes in the middle of a bond, "
             "hosts that do or do not carry the optional symbol, can_map_to_nothing in {[H],[R],[H,R],[O],[c]} — in domain for C04 only; "
             "non-trivial = host and pattern with >= 3 nodes, distinct by request; thorough adds all pattern/host pairs "
             "over connected graphs <= 5 nodes x 2 symbols (un-anchored; all anchor pairs up to 3 nodes)",
        checker_cmd="cd lean && lake build " + " ".join(PROOFS) + " && lake env lean FGVerif/Audit/%s.lean" % prop,
        explanation="theorems in lean/FGVerif/Proofs/{C03Perm,C03,C03Oracle,C04,C04Opt}.lean about Model/Subgraph.lean; model tied to fgutils.algorithm.subgraph by differential testing; "
                    "executable spec (isEmbedding / existsEmbedding, proved sound and complete in Model/C03Spec.lean + Proofs/C03Oracle.lean) applied to every implementation output")
    return rc if rc == 1 else max(rc, rc_machinery)


# ---------------------------------------------------------------------------
# replay
# ---------------------------------------------------------------------------
def dec_graph(w):
    """wire form (parsed s-expression) -> nx.Graph"""
    g = nx.Graph()

    def s(x):
        if x == "_":
            return None
        if x.startswith("s:"):
            return x[2:]
        if x.startswith("h:"):
            return bytes.fromhex(x[2:]).decode()
        return x
    for n in w[1]:
        sym = s(n[1])
        if sym is None:
            g.add_node(int(n[0]))
        else:
            g.add_node(int(n[0]), symbol=sym)
    for row in w[2]:
        u = int(row[0])
        for nb in row[1]:
            v = int(nb[0])
            lab = common.dec_label(nb[1][0][1])
            if lab is not None and float(lab).is_integer():
                lab = int(lab)
            g.add_edge(u, v, bond=lab)
    return g


def dec_mapper(w):
    wild = None if w[0] == "_" else (w[0][2:] if w[0].startswith("s:") else bytes.fromhex(w[0][2:]).decode())
    return wild, w[1] == "1", [x[2:] if x.startswith("s:") else bytes.fromhex(x[2:]).decode() for x in w[2]]


def replay(prop, path):
    j = json.load(open(path))
    req = common.parse_sx(j["request_line"])
    r = Run(prop, "replay", 0)
    meta = j.get("meta") or {}
    forms = meta.get("forms") or {"host": [], "pattern": []}
    if forms["host"] or forms["pattern"]:
        print("input forms: host %s, pattern %s (re-applied to the recorded graphs)" % (forms["host"], forms["pattern"]))
    fh = lambda g: apply_forms(g, forms["host"])
    fp = lambda g: apply_forms(g, forms["pattern"])
    if req[1] == "anchored":
        c = anchored_case(prop, fh(dec_graph(req[3])), int(req[4]), fp(dec_graph(req[5])), int(req[6]), dec_mapper(req[2]))
    elif req[1] == "mapsub":
        pa = None if req[6] == "_" else int(req[6])
        print("entry point: fgutils.algorithm.map_subgraph, subgraph_anchor %s (%s)" % (pa, meta.get("mapsub_how")))
        c = mapsub_case(prop, fh(dec_graph(req[3])), int(req[4]), fp(dec_graph(req[5])), pa, dec_mapper(req[2]),
                        meta.get("mapsub_how") or ("omitted" if pa is None else "keyword"))
    else:
        c = unanchored_case(prop, fh(dec_graph(req[3])), fp(dec_graph(req[4])), dec_mapper(req[2]))
    c.in_domain = True
    outs = r.evaluate([c], classify_known=make_classifier(prop))
    o = outs[0]
    print("request   :", c.line()[:2000])
    print("reply     :", common.sx_of(o.reply)[:2000])
    print("impl==model:", o.corr, " spec_impl:", o.spec_impl, " failed clauses:", extras(o).get("failed"))
    if r.known_hits:
        print("KNOWN-FINDING: property=%s %s [%s]" % (prop, r.known_hits[0][0]["what"], r.known_hits[0][0]["id"]))
    r.driver.close()
    if r.spec_failures:
        print("VIOLATION property=%s replay=%s" % (prop, path))
        return 1
    if r.corr_failures:
        print("VIOLATION property=%s replay=%s no-failing-input-found" % (prop, path))
        return 1
    return 0
