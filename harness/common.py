"""Shared machinery of the FGUtils verification harness.

* S-expression wire format (see lean/FGVerif/Wire.lean)
* building the Lean project from /repo's current tree (table regeneration + lake)
* axiom / forbidden-token audit of the property theorems
* the line-protocol driver
* verdict logic, replay files, known findings, evidence files
"""
from __future__ import annotations

import fcntl
import hashlib
import json
import os
import random
import re
import subprocess
import sys
import threading
import time
import traceback

VERIF = os.path.dirname(os.path.dirname(os.path.abspath(__file__)))
REPO = os.environ.get("FGUTILS_REPO", "/repo")
LEAN_DIR = os.path.join(VERIF, "lean")
OUT_DIR = os.path.join(VERIF, "out")
EVIDENCE_DIR = os.path.join(VERIF, "evidence")
CORPUS_DIR = os.path.join(VERIF, "corpus")
DRIVER_EXE = os.path.join(LEAN_DIR, ".lake", "build", "bin", "fgdriver")
ALLOWED_AXIOMS = {"propext", "Classical.choice", "Quot.sound"}

if REPO not in sys.path:
    sys.path.insert(0, REPO)


# ---------------------------------------------------------------------------
# S-expressions
# ---------------------------------------------------------------------------
class Atom(str):
    """a raw atom (written verbatim)"""


_SAFE = re.compile(r"^[A-Za-z0-9_#+.*-]*$")


def sx(o) -> str:
    if isinstance(o, Atom):
        return str(o)
    if o is None:
        return "_"
    if o is True:
        return "1"
    if o is False:
        return "0"
    if isinstance(o, int):
        return str(int(o))
    if isinstance(o, float):
        raise TypeError("floats never travel on the wire: %r" % (o,))
    if isinstance(o, str):
        if _SAFE.fullmatch(o):
            return "s:" + o
        return "h:" + o.encode("utf-8").hex()
    if isinstance(o, (list, tuple)):
        return "(" + " ".join(sx(x) for x in o) + ")"
    try:
        import numpy as np

        if isinstance(o, np.integer):
            return str(int(o))
        if isinstance(o, np.bool_):
            return "1" if o else "0"
    except ImportError:
        pass
    raise TypeError("cannot encode %r (%s)" % (o, type(o)))


def parse_sx(s: str):
    """-> nested python lists of atom strings"""
    toks = re.findall(r"\(|\)|[^\s()]+", s)
    stack = [[]]
    for t in toks:
        if t == "(":
            stack.append([])
        elif t == ")":
            top = stack.pop()
            stack[-1].append(top)
        else:
            stack[-1].append(t)
    if len(stack) != 1 or len(stack[0]) != 1:
        raise ValueError("bad sexp: %r" % s[:200])
    return stack[0][0]


def canon(o):
    """python value -> the nested-list-of-atom-strings form that parse_sx gives for sx(o)"""
    return parse_sx(sx(o))


def dbl(order):
    """bond order -> doubled integer (1.5 -> 3).  Pairs/lists -> list of doubled ints."""
    if order is None:
        return None
    if isinstance(order, (tuple, list)):
        return [dbl(x) for x in order]
    d = order * 2
    if int(d) != d:
        raise ValueError("bond order not a multiple of 0.5: %r" % (order,))
    return int(d)


# ---------------------------------------------------------------------------
# build
# ---------------------------------------------------------------------------
class BuildResult:
    def __init__(self):
        self.driver_ok = False
        self.proofs_ok = False
        self.log = ""
        self.failed_modules = []
        self.wall = 0.0


def _run(cmd, cwd=None, timeout=3600, env=None):
    p = subprocess.run(cmd, cwd=cwd, stdout=subprocess.PIPE, stderr=subprocess.STDOUT,
                       text=True, timeout=timeout, env=env)
    return p.returncode, p.stdout


class BuildLock:
    def __enter__(self):
        os.makedirs(OUT_DIR, exist_ok=True)
        self.f = open(os.path.join(OUT_DIR, ".build.lock"), "w")
        fcntl.flock(self.f, fcntl.LOCK_EX)
        return self

    def __exit__(self, *a):
        fcntl.flock(self.f, fcntl.LOCK_UN)
        self.f.close()


def regenerate_tables():
    """run the translator; it rewrites Generated/*.lean only when the content differs"""
    import glob
    log = ""
    failed = []
    for script in sorted(glob.glob(os.path.join(VERIF, "harness", "gen_tables*.py"))):
        rc, out = _run([sys.executable, script], cwd=VERIF)
        log += out
        if rc != 0:
            # a translator that cannot read the current source any more (e.g. a parser change makes
            # a shipped pattern unparsable) must not turn every check into a machinery failure: its
            # generated file stays as it was, the failure is recorded, and the properties that depend
            # on that table treat their table obligations as broken (see prepare)
            failed.append(os.path.basename(script))
            log += "\nTRANSLATOR FAILED: %s\n" % os.path.basename(script)
    FAILED_TRANSLATORS[:] = failed
    return log


FAILED_TRANSLATORS = []
# which properties consume which translator's output
TRANSLATOR_USERS = {
    # Generated/Tables.lean is imported by Model.C01 (lexer tables), Model.C12 (valences), Model.C18 (periodic table),
    # Model.C19 (RDKit tables) and Proofs.GenParsedBase; the other properties' models and proofs do not read it
    "gen_tables.py": {"C01", "C02", "C05", "C06", "C07", "C12", "C14", "C15", "C18", "C19"},
    "gen_tables_c05.py": {"C05", "C06"},
    "gen_tables_c06.py": {"C06"},
    "gen_tables_c07.py": {"C07", "C06"},
    "gen_tables_c12.py": {"C12", "C05"},
    "gen_tables_c14.py": {"C14", "C15"},
    "gen_tables_parsed.py": {"C05", "C14", "C15"},
}


def build(proof_modules: list[str]) -> BuildResult:
    """regenerate tables from /repo, build the driver, then the given proof modules"""
    res = BuildResult()
    t0 = time.time()
    with BuildLock():
        res.log += regenerate_tables()
        rc, out = _run(["lake", "build", "fgdriver"], cwd=LEAN_DIR)
        res.log += out
        res.driver_ok = rc == 0 and os.path.exists(DRIVER_EXE)
        res.proofs_ok = True
        for m in proof_modules:
            rc, out = _run(["lake", "build", m], cwd=LEAN_DIR)
            res.log += out
            if rc != 0:
                res.proofs_ok = False
                res.failed_modules.append(m)
    res.wall = time.time() - t0
    return res


_FORBIDDEN = re.compile(
    r"\bsorry\b|\badmit\b|^\s*axiom\s|native_decide|bv_decide|implemented_by|\bunsafe\s|maxHeartbeats\s+0\b")


def strip_lean_comments(src: str) -> str:
    # nested block comments
    out = []
    i, depth = 0, 0
    n = len(src)
    while i < n:
        if src.startswith("/-", i):
            depth += 1
            i += 2
        elif depth > 0 and src.startswith("-/", i):
            depth -= 1
            i += 2
        elif depth > 0:
            if src[i] == "\n":
                out.append("\n")
            i += 1
        elif src.startswith("--", i):
            while i < n and src[i] != "\n":
                i += 1
        else:
            out.append(src[i])
            i += 1
    return "".join(out)


def grep_forbidden(allow: dict[str, list[str]] | None = None):
    """scan every .lean file of the project; return list of (file, lineno, text)"""
    hits = []
    for root, _, files in os.walk(LEAN_DIR):
        if ".lake" in root:
            continue
        for fn in files:
            if not fn.endswith(".lean"):
                continue
            p = os.path.join(root, fn)
            src = strip_lean_comments(open(p).read())
            for k, line in enumerate(src.split("\n"), 1):
                if _FORBIDDEN.search(line):
                    rel = os.path.relpath(p, LEAN_DIR)
                    if allow and any(a in line for a in allow.get(rel, [])):
                        continue
                    hits.append((rel, k, line.strip()))
    return hits


def audit(prop: str):
    """`#print axioms` of every property theorem listed in Audit/<prop>.lean.
    returns (theorems: {name: [axioms]}, raw_output, ok)"""
    path = os.path.join("FGVerif", "Audit", prop + ".lean")
    rc, out = _run(["lake", "env", "lean", path], cwd=LEAN_DIR)
    theorems = {}
    # "'C20.foo' depends on axioms: [propext, Quot.sound]" / "'C20.foo' does not depend on any axioms"
    for m in re.finditer(r"'([^']+)' depends on axioms: \[([^\]]*)\]", out, re.S):
        theorems[m.group(1)] = [a.strip() for a in m.group(2).replace("\n", " ").split(",") if a.strip()]
    for m in re.finditer(r"'([^']+)' does not depend on any axioms", out):
        theorems[m.group(1)] = []
    return theorems, out, rc == 0


# ---------------------------------------------------------------------------
# driver
# ---------------------------------------------------------------------------
class Driver:
    def __init__(self):
        if os.path.exists(DRIVER_EXE):
            cmd = [DRIVER_EXE]
        else:
            cmd = ["lake", "env", "lean", "--run", "Main.lean"]
        self.p = subprocess.Popen(cmd, cwd=LEAN_DIR, stdin=subprocess.PIPE, stdout=subprocess.PIPE,
                                  text=True, bufsize=1 << 20)
        self.count = 0

    def batch(self, lines: list[str]) -> list:
        if not lines:
            return []
        err = []

        def writer():
            try:
                for ln in lines:
                    self.p.stdin.write(ln + "\n")
                self.p.stdin.flush()
            except Exception as e:  # pragma: no cover
                err.append(e)

        t = threading.Thread(target=writer)
        t.start()
        out = []
        for _ in lines:
            r = self.p.stdout.readline()
            if not r:
                raise RuntimeError("driver died after %d replies" % len(out))
            out.append(parse_sx(r))
        t.join()
        if err:
            raise err[0]
        self.count += len(lines)
        return out

    def ask(self, line: str):
        return self.batch([line])[0]

    def close(self):
        try:
            self.p.stdin.close()
            self.p.wait(timeout=10)
        except Exception:
            self.p.kill()


# ---------------------------------------------------------------------------
# known findings
# ---------------------------------------------------------------------------
def load_known_findings():
    p = os.path.join(VERIF, "known_findings.json")
    if not os.path.exists(p):
        return []
    return json.load(open(p))["findings"]


# ---------------------------------------------------------------------------
# cases, verdicts, evidence
# ---------------------------------------------------------------------------
class Case:
    """one input for one operation of one property.

    req      : python list, the request without the trailing implementation output
    impl     : canonical implementation output (python value encodable by sx) or ImplError
    in_domain: False for inputs the property does not speak about (never decides a verdict)
    meta     : free-form description written into samples / replay
    nontrivial_key: hashable; distinct keys are counted as distinct non-trivial cases (None = trivial)
    """

    __slots__ = ("req", "impl", "in_domain", "meta", "nontrivial_key", "compare_model", "tags")

    def __init__(self, req, impl, in_domain=True, meta=None, nontrivial_key=None, compare_model=True,
                 tags=()):
        self.req = req
        self.impl = impl
        self.in_domain = in_domain
        self.meta = meta or {}
        self.nontrivial_key = nontrivial_key
        self.compare_model = compare_model
        self.tags = tuple(tags)

    def line(self):
        if isinstance(self.impl, ImplError):
            return sx(self.req + [[Atom("raised"), Atom(self.impl.kind)]])
        return sx(self.req + [self.impl])


class ImplError:
    """the implementation raised; kind is a small enum"""

    def __init__(self, exc: BaseException):
        self.kind = classify_exc(exc)
        self.text = "%s: %s" % (type(exc).__name__, str(exc)[:300])

    def __repr__(self):
        return "ImplError(%s)" % self.text


def classify_exc(e):
    for cls, name in ((SyntaxError, "SyntaxError"), (KeyError, "KeyError"), (IndexError, "IndexError"),
                      (ValueError, "ValueError"), (AssertionError, "Assertion"),
                      (RuntimeError, "RuntimeError"), (StopIteration, "StopIteration"),
                      (TypeError, "TypeError")):
        if isinstance(e, cls):
            return name
    return "Other"


def call_impl(f, *a, **k):
    try:
        return f(*a, **k)
    except Exception as e:  # noqa
        return ImplError(e)


class Outcome:
    def __init__(self, case, reply):
        self.case = case
        self.reply = reply
        self.ok_reply = isinstance(reply, list) and len(reply) >= 4 and reply[0] == "ok"
        self.model = reply[1] if self.ok_reply else None
        self.spec_model = reply[2] if self.ok_reply else None
        self.spec_impl = reply[3] if self.ok_reply else None
        self.extra = reply[4:] if self.ok_reply else []
        if isinstance(case.impl, ImplError):
            self.impl_c = ["raised", case.impl.kind]
        else:
            self.impl_c = canon(case.impl)

    @property
    def corr(self):
        return (not self.case.compare_model) or (self.ok_reply and self.model == self.impl_c)

    @property
    def spec_fail(self):
        return self.ok_reply and self.spec_impl == "0"

    @property
    def driver_error(self):
        return not self.ok_reply


class Run:
    """collects outcomes for one property and turns them into verdict + evidence"""

    def __init__(self, prop, tier, seed):
        self.prop = prop
        self.tier = tier
        self.seed = seed
        self.t0 = time.time()
        self.rng = random.Random(seed)
        self.evaluations = 0
        self.nontrivial = set()
        self.samples = []
        self.dist = {}
        self.out_of_domain = 0
        self.out_of_domain_disagreements = 0
        self.spec_failures = []      # Outcome
        self.corr_failures = []      # Outcome
        self.driver_errors = []      # Outcome
        self.known_hits = []         # (finding, Outcome)
        self.assumptions = []
        self.notes = {}
        self.driver = None
        self.violation_lines = []
        self.obligations = {}
        self.audit_bad = []
        self.build = None
        self.extra_cov = {}
        self.traces_validated = 0
        # optional deeper search, run by finish() when a proof obligation or the correspondence
        # broke but no input violating the property has been found yet: a callable that evaluates
        # more cases through self.evaluate (thorough-size sample, neighbourhood of the disagreeing
        # inputs, cell-by-cell evaluation of regenerated tables, ...)
        self.escalation = None
        self.escalated = False

    # -- statistics -------------------------------------------------------
    def count(self, key, n=1):
        self.dist[key] = self.dist.get(key, 0) + n

    def get_driver(self):
        if self.driver is None:
            self.driver = Driver()
        return self.driver

    # -- evaluation -------------------------------------------------------
    def evaluate(self, cases: list[Case], classify_known=None):
        """send the cases through the driver; record outcomes"""
        if not cases:
            return []
        replies = self.get_driver().batch([c.line() for c in cases])
        outs = []
        for c, r in zip(cases, replies):
            o = Outcome(c, r)
            outs.append(o)
            self.evaluations += 1
            for t in c.tags:
                self.count("tag:" + t)
            if c.nontrivial_key is not None:
                self.nontrivial.add(c.nontrivial_key)
            if len(self.samples) < 6 and c.nontrivial_key is not None:
                self.samples.append({"request": c.line()[:600], "reply": sx_of(r)[:600], "meta": c.meta})
            if o.driver_error:
                self.driver_errors.append(o)
                continue
            if not c.in_domain:
                self.out_of_domain += 1
                if not o.corr or o.spec_fail:
                    self.out_of_domain_disagreements += 1
                continue
            self.traces_validated += 1
            bad = o.spec_fail or not o.corr
            if bad and classify_known is not None:
                f = classify_known(o)
                if f is not None:
                    self.known_hits.append((f, o))
                    continue
            if o.spec_fail:
                self.spec_failures.append(o)
            elif not o.corr:
                self.corr_failures.append(o)
        return outs

    # -- replay files -----------------------------------------------------
    def write_replay(self, kind, name, payload):
        d = os.path.join(OUT_DIR, "replays", self.prop)
        os.makedirs(d, exist_ok=True)
        path = os.path.join(d, "%s_%s_seed%d.json" % (name, self.tier, self.seed))
        payload = dict(payload)
        payload.update({"property": self.prop, "kind": kind, "seed": self.seed, "tier": self.tier,
                        "repo_head": repo_head()})
        with open(path, "w") as f:
            json.dump(payload, f, indent=1, default=str)
        return path

    def outcome_payload(self, o: Outcome):
        return {"request_line": o.case.line(), "impl_output": sx_of(o.impl_c), "model_output": sx_of(o.model),
                "spec_impl": o.spec_impl, "spec_model": o.spec_model, "extra": sx_of(o.extra), "meta": o.case.meta,
                "impl_error": o.case.impl.text if isinstance(o.case.impl, ImplError) else None}

    # -- verdict ----------------------------------------------------------
    def finish(self, level="proof", rule="", checker_cmd="", explanation=""):
        """decide, print VIOLATION / KNOWN-FINDING lines, write evidence, return exit code"""
        violations = 0
        exit_code = 0
        printed_known = set()
        for f, o in self.known_hits:
            if f["id"] not in printed_known:
                printed_known.add(f["id"])
                print("KNOWN-FINDING: property=%s %s [%s; e.g. %s]" % (
                    self.prop, f["what"], f["id"], o.case.line()[:160]))
        if self.driver_errors and not (self.spec_failures or self.corr_failures):
            # the machinery failed: never a pass, never a violation
            p = self.write_replay("machinery", "driver_error", self.outcome_payload(self.driver_errors[0]))
            print("ERROR property=%s driver could not answer %d request(s); first: %s" % (
                self.prop, len(self.driver_errors), p))
            exit_code = 2
        proofs_broken = self.build is not None and (not self.build.proofs_ok or bool(self.audit_bad))
        if not self.spec_failures and (self.corr_failures or proofs_broken) and self.escalation is not None \
                and not self.escalated:
            self.escalated = True
            try:
                self.escalation()
            except Exception:  # the search is best effort; the verdict below still stands
                traceback.print_exc()
        if self.spec_failures:
            o = min(self.spec_failures, key=lambda o: len(o.case.line()))
            p = self.write_replay("failing-input", "spec", self.outcome_payload(o))
            print("VIOLATION property=%s replay=%s" % (self.prop, p))
            violations += len(self.spec_failures)
            exit_code = 1
        if not self.spec_failures and (self.corr_failures or proofs_broken):
            # a proof obligation or the correspondence no longer checks and the search over this
            # run's inputs found no input on which the property itself fails
            payload = {"theorem_or_correspondence": [], "note":
                       "no input violating the property was found by this run's search"}
            if self.corr_failures:
                o = min(self.corr_failures, key=lambda o: len(o.case.line()))
                payload.update(self.outcome_payload(o))
                payload["theorem_or_correspondence"].append(
                    "correspondence model-vs-implementation (%d disagreeing cases)" % len(self.corr_failures))
            if proofs_broken:
                payload["theorem_or_correspondence"] += ["lake build " + m for m in self.build.failed_modules]
                payload["theorem_or_correspondence"] += ["audit: " + a for a in self.audit_bad]
                payload["build_log_tail"] = self.build.log[-3000:]
            p = self.write_replay("correspondence" if self.corr_failures else "proof-obligation", "broken", payload)
            print("VIOLATION property=%s replay=%s no-failing-input-found" % (self.prop, p))
            violations += max(1, len(self.corr_failures))
            exit_code = 1
        for ln in self.violation_lines:
            print(ln)
            exit_code = 1
            violations += 1
        self.write_evidence(level, rule, checker_cmd, explanation, violations)
        if self.driver is not None:
            self.driver.close()
        return exit_code

    def write_evidence(self, level, rule, checker_cmd, explanation, violations):
        os.makedirs(EVIDENCE_DIR, exist_ok=True)
        obligations = len(self.obligations)
        discharged = sum(1 for v in self.obligations.values() if v.get("ok"))
        tb = sorted({a for v in self.obligations.values() for a in v.get("axioms", [])})
        cov = {
            "obligations": obligations,
            "discharged": discharged,
            "checker_cmd": checker_cmd,
            "trusted_base": ["Lean 4.33.0 kernel"] + ["axiom " + a for a in tb] + [
                "harness/gen_tables*.py + harness/table_probe.py (table translators: AST literal first, otherwise values captured from one traced call / probes of the compiled regex)",
                "harness correspondence check (differential testing)"],
            "obligation_list": {k: v for k, v in sorted(self.obligations.items())},
            "evaluations": self.evaluations,
            "distinct_nontrivial": len(self.nontrivial),
            "rule": rule,
            "samples": self.samples if self.samples else [{"note": "no generated cases in this run"}],
            "traces_validated_against_impl": self.traces_validated,
            "input_distribution": dict(sorted(self.dist.items())),
            "out_of_domain_cases": self.out_of_domain,
            "out_of_domain_disagreements": self.out_of_domain_disagreements,
            "spec_failures": len(self.spec_failures),
            "correspondence_failures": len(self.corr_failures),
            "known_finding_hits": len(self.known_hits),
            "explanation": explanation,
            "escalated_search": self.escalated,
            "build_wall_s": round(self.build.wall, 2) if self.build else None,
            "repo_head": repo_head(),
        }
        cov.update(self.extra_cov)
        ev = {
            "property_id": self.prop,
            "tier": self.tier,
            "seed": self.seed,
            "level": level,
            "coverage": cov,
            "assumptions": self.assumptions,
            "wall_s": round(time.time() - self.t0, 2),
            "violations": violations,
        }
        with open(os.path.join(EVIDENCE_DIR, self.prop + ".json"), "w") as f:
            json.dump(ev, f, indent=1, default=str)


def sx_of(parsed) -> str:
    """nested lists of atoms -> text"""
    if parsed is None:
        return "_"
    if isinstance(parsed, str):
        return parsed
    return "(" + " ".join(sx_of(x) for x in parsed) + ")"


_repo_head = None


def repo_head():
    global _repo_head
    if _repo_head is None:
        try:
            h = subprocess.run(["git", "-C", REPO, "rev-parse", "HEAD"], stdout=subprocess.PIPE, text=True).stdout.strip()
            d = subprocess.run(["git", "-C", REPO, "status", "--porcelain"], stdout=subprocess.PIPE, text=True).stdout
            _repo_head = h + ("+dirty" if d.strip() else "")
        except Exception:
            _repo_head = "unknown"
    return _repo_head


def prepare(run: Run, proof_modules: list[str], audit_prop: str | None = None, allow_tokens=None):
    """build + audit; fills run.build, run.obligations, run.audit_bad.  Returns False when the
    machinery itself is unusable (driver does not build)."""
    b = build(proof_modules)
    run.build = b
    if not b.driver_ok:
        print("ERROR property=%s the Lean driver does not build (machinery failure)\n%s" % (run.prop, b.log[-2000:]))
        return False
    hits = grep_forbidden(allow_tokens)
    for h in hits:
        run.audit_bad.append("forbidden token %s:%d: %s" % h)
    for t in FAILED_TRANSLATORS:
        users = TRANSLATOR_USERS.get(t, None)
        if users is None or run.prop in users:
            run.audit_bad.append("translator %s could not read the current source: the table obligations of %s are not re-checked" % (t, run.prop))
        else:
            run.extra_cov.setdefault("translators_failed_for_other_properties", []).append(t)
    if run.tier == "thorough" and b.proofs_ok and proof_modules:
        # independent re-check of the compiled proof modules by the toolchain's leanchecker
        t0 = time.time()
        rc, out = _run(["lake", "env", "leanchecker"] + list(proof_modules), cwd=LEAN_DIR, timeout=3600)
        run.extra_cov["leanchecker"] = {"modules": list(proof_modules), "exit": rc, "wall_s": round(time.time() - t0, 1),
                                        "output_tail": out[-300:]}
        if rc != 0:
            run.audit_bad.append("leanchecker rejected the compiled proof modules: " + out[-300:])
    if audit_prop and b.proofs_ok:
        thms, raw, ok = audit(audit_prop)
        if not ok:
            run.audit_bad.append("audit file did not check: " + raw[-400:])
        for name, axs in thms.items():
            good = set(axs) <= ALLOWED_AXIOMS
            run.obligations[name] = {"axioms": axs, "ok": good}
            if not good:
                run.audit_bad.append("theorem %s depends on %s" % (name, axs))
    elif audit_prop:
        # proofs did not build: list the obligations as undischarged
        src = open(os.path.join(LEAN_DIR, "FGVerif", "Audit", audit_prop + ".lean")).read()
        for m in re.finditer(r"#print axioms\s+(\S+)", src):
            run.obligations[m.group(1)] = {"axioms": [], "ok": False}
    return True


def env_seed():
    try:
        return int(os.environ.get("VERIF_SEED", "0"))
    except ValueError:
        return 0


# ---------------------------------------------------------------------------
# graph / mapper encoders (wire form of lean/FGVerif/Model/Graph.lean)
# ---------------------------------------------------------------------------
def enc_label(b):
    if b is None:
        return None
    if isinstance(b, (tuple, list)):
        return [dbl(b[0]), dbl(b[1])]
    return dbl(b)


def enc_graph(g):
    """networkx Graph/MultiGraph -> wire form, preserving node order, adjacency order, key order"""
    import networkx as nx
    multi = isinstance(g, nx.MultiGraph)
    nodes = []
    for n, d in g.nodes(data=True):
        labels = d.get("labels")
        nodes.append([int(n), d.get("symbol"), None if labels is None else list(labels),
                      d.get("is_labeled"), d.get("aam")])
    adj = []
    for n in g.nodes:
        row = []
        for v, dd in g.adj[n].items():
            if multi:
                row.append([int(v), [[int(k), enc_label(d.get("bond"))] for k, d in dd.items()]])
            else:
                row.append([int(v), [[0, enc_label(dd.get("bond"))]]])
        adj.append([int(n), row])
    return [multi, nodes, adj]


def dec_label(x):
    if x == "_":
        return None
    if isinstance(x, list):
        return (int(x[0]) / 2, int(x[1]) / 2)
    return int(x) / 2


def enc_mapper(wildcard, ignore_case, cmtn):
    return [wildcard, bool(ignore_case), list(cmtn)]


def canon_edges(g):
    """sorted (min, max, key, label) list — order-insensitive view of the edges"""
    import networkx as nx
    out = []
    if isinstance(g, nx.MultiGraph):
        for u, v, k, d in g.edges(keys=True, data=True):
            out.append([min(u, v), max(u, v), k, enc_label(d.get("bond"))])
    else:
        for u, v, d in g.edges(data=True):
            out.append([min(u, v), max(u, v), 0, enc_label(d.get("bond"))])
    out.sort(key=lambda e: (e[0], e[1], e[2], str(e[3])))
    return out


# ---------------------------------------------------------------------------
# replay
# ---------------------------------------------------------------------------
def generic_replay(prop, path, reimpl=None):
    """re-evaluate a recorded request.  Without `reimpl` the recorded implementation output is
    re-checked by the driver against the current model/spec; with `reimpl(parsed_request)` the
    current implementation is run again on the recorded input first."""
    rec = json.load(open(path))
    line = rec.get("request_line")
    if not line:
        print("replay file has no request_line (kind=%s): %s" % (rec.get("kind"), rec.get("theorem_or_correspondence")))
        return 2
    b = build([])
    if not b.driver_ok:
        print("ERROR driver does not build")
        return 2
    d = Driver()
    req = parse_sx(line)
    if reimpl is not None:
        new_impl = reimpl(req)
        if isinstance(new_impl, ImplError):
            tail = sx([Atom("raised"), Atom(new_impl.kind)])
        else:
            tail = sx(new_impl)
        line = sx_of(req[:-1])[:-1] + " " + tail + ")"
        print("re-ran the implementation on the recorded input")
    reply = d.ask(line)
    d.close()
    print("request:", line[:2000])
    print("reply:  ", sx_of(reply)[:2000])
    ok = isinstance(reply, list) and len(reply) >= 4 and reply[0] == "ok"
    if not ok:
        return 2
    impl_c = parse_sx(line)[-1]
    if reply[3] == "0":
        print("VIOLATION property=%s replay=%s" % (prop, path))
        return 1
    if reply[1] != impl_c:
        print("correspondence: model and implementation outputs differ on this input (spec holds)")
    return 0


# ---------------------------------------------------------------------------
# input variants: the same graph in another FORM (round 3 of seeded changes: the misses were
# about the form of the input - numpy integers from a table column, a frozen graph, a view)
# ---------------------------------------------------------------------------
VARIANT_KINDS = ("extra_attrs", "numpy", "frozen", "view", "list_labels")
# irrelevant attributes no function of the library may look at (or lose, when it works in place)
VARIANT_NODE_EXTRAS = {"note": "x", "weight": 1.0}
VARIANT_EDGE_EXTRAS = {"note": "x", "weight": 1.0}


class VariantDamaged(AssertionError):
    """an in-place operation changed or dropped attributes it has no business with (call_impl maps
    it to `(raised Assertion)`: a specification failure)"""


def _is_int_id(n):
    import numpy as np
    return (isinstance(n, int) and not isinstance(n, bool)) or isinstance(n, np.integer)


def _exact_clone(g, node_id=None, node_attrs=None, edge_attrs=None, extra_nodes=(), extra_edges=()):
    """a new modifiable graph of g's class with g's nodes re-added in the SAME order and g's edges put
    back so that every adjacency row (and, for multigraphs, every key dict) has the SAME order -
    `Graph.copy()` re-adds edges in `edges` order and may permute adjacency rows, which exact
    (order-faithful) correspondences would observe.  Attribute dicts are fresh (lists inside copied).

    node_id(n) -> id in the clone (must be injective, equal ids stay equal: hash-compatible);
    node_attrs(d) / edge_attrs(d) -> the attribute dict in the clone; extra nodes / edges (with
    attribute dicts) are appended AFTER everything else so the rows of the original nodes keep their order."""
    import networkx as nx
    if g.is_directed():
        raise ValueError("input_variant handles undirected graphs only")
    multi = g.is_multigraph()
    h = nx.MultiGraph() if multi else nx.Graph()
    h.graph.update(g.graph)
    nid = node_id or (lambda n: n)

    def cp(d):
        return {k: (list(v) if isinstance(v, list) else v) for k, v in d.items()}
    nf = node_attrs or cp
    ef = edge_attrs or cp
    ids = {}
    for n, d in g.nodes(data=True):
        ids[n] = nid(n)
        h.add_node(ids[n], **nf(dict(d)))
    shared = {}
    for u in g.nodes:
        for v, dd in g.adj[u].items():
            key = frozenset((u, v))
            if key not in shared:
                shared[key] = {k: ef(dict(d)) for k, d in dd.items()} if multi else ef(dict(dd))
            h._adj[ids[u]][ids[v]] = shared[key]     # keeps the adjacency order (as c12/c13.dec_graph do)
    for n, d in extra_nodes:
        h.add_node(n, **d)
    for u, v, d in extra_edges:
        h.add_edge(u, v, **d)
    return h


def graph_shape(g):
    """everything an order-faithful encoder can observe of a graph: class, node order with attributes,
    adjacency order with keys and attributes - numpy scalars and lists normalised, extras dropped"""
    import numpy as np

    def norm(v):
        if isinstance(v, (list, tuple)):
            return tuple(norm(x) for x in v)
        if isinstance(v, np.generic):
            return v.item()
        return v

    def attrs(d, extras):
        return tuple(sorted((k, norm(v)) for k, v in d.items() if not (k in extras and d[k] == extras[k])))
    multi = g.is_multigraph()
    nodes = [(norm(n), attrs(d, VARIANT_NODE_EXTRAS)) for n, d in g.nodes(data=True)]
    rows = []
    for u in g.nodes:
        row = []
        for v, dd in g.adj[u].items():
            if multi:
                row.append((norm(v), tuple((norm(k), attrs(d, VARIANT_EDGE_EXTRAS)) for k, d in dd.items())))
            else:
                row.append((norm(v), attrs(dd, VARIANT_EDGE_EXTRAS)))
        rows.append((norm(u), tuple(row)))
    return (multi, tuple(nodes), tuple(rows))


def _variant_of_kind(g, kind, rng):
    import networkx as nx
    import numpy as np
    if kind == "extra_attrs":
        def nf(d):
            d = {k: (list(v) if isinstance(v, list) else v) for k, v in d.items()}
            for k, v in VARIANT_NODE_EXTRAS.items():
                d.setdefault(k, v)
            return d

        def ef(d):
            d = {k: (list(v) if isinstance(v, list) else v) for k, v in d.items()}
            for k, v in VARIANT_EDGE_EXTRAS.items():
                d.setdefault(k, v)
            return d
        if g.number_of_nodes() == 0:
            return None
        return _exact_clone(g, node_attrs=nf, edge_attrs=ef)
    if kind == "numpy":
        changed = [False]

        def num(v):
            if isinstance(v, bool) or v is None:
                return v
            if isinstance(v, int):
                changed[0] = True
                return np.int64(v)
            return v

        def order(v):
            if isinstance(v, float) and not isinstance(v, np.floating):
                changed[0] = True
                return np.float64(v)
            if isinstance(v, tuple):
                return tuple(order(x) for x in v)
            if isinstance(v, list):
                return [order(x) for x in v]
            return v

        def nf(d):
            d = {k: (list(v) if isinstance(v, list) else v) for k, v in d.items()}
            if "aam" in d:
                d["aam"] = num(d["aam"])
            return d

        def ef(d):
            d = dict(d)
            if "bond" in d:
                d["bond"] = order(d["bond"])
            return d

        def nid(n):
            if isinstance(n, int) and not isinstance(n, bool) and -2 ** 62 < n < 2 ** 62:
                changed[0] = True
                return np.int64(n)
            return n
        h = _exact_clone(g, node_id=nid, node_attrs=nf, edge_attrs=ef)
        return h if changed[0] else None
    if kind == "frozen":
        return nx.freeze(_exact_clone(g))
    if kind == "view":
        n = g.number_of_nodes()
        if n == 0:
            return None
        # at most n extra nodes: networkx iterates a filtered atlas in the order of the underlying graph
        # only while the shown nodes are at least half of it (otherwise in the order of a python set)
        k = rng.randint(1, min(3, n))
        nodes = list(g.nodes)
        if all(_is_int_id(x) for x in nodes):
            base = int(max(nodes)) + rng.randint(1, 3)
            extra = [base + i for i in range(k)]
        else:
            extra = [("_unrelated_", i) for i in range(k)]
            if any(x in g for x in extra):
                return None
        sym = "C"
        en = [(x, {"symbol": sym, "aam": 900 + i}) for i, x in enumerate(extra)]
        some_edge = next(iter(g.edges(data=True)), None)
        lab = {"bond": some_edge[2]["bond"]} if some_edge is not None and "bond" in some_edge[2] else {}
        ee = [(a, b, dict(lab)) for a, b in zip(extra, extra[1:])]
        if rng.random() < 0.5:
            ee.append((extra[0], rng.choice(nodes), dict(lab)))     # hidden by the view: one end is not shown
        big = _exact_clone(g, extra_nodes=en, extra_edges=ee)
        return big.subgraph(nodes)
    if kind == "list_labels":
        changed = [False]

        def ef(d):
            d = dict(d)
            if isinstance(d.get("bond"), tuple):
                d["bond"] = list(d["bond"])
                changed[0] = True
            return d
        h = _exact_clone(g, edge_attrs=ef)
        return h if changed[0] else None
    raise ValueError("unknown variant kind %r" % (kind,))


def input_variant(g, rng, kinds=("extra_attrs", "numpy", "frozen", "view", "list_labels")):
    """-> (g2, tag): the networkx graph `g` in another, semantically equal FORM.

    kinds (one is drawn with `rng`; a kind that would not change anything for this graph - no tuple
    label, no integer anywhere, no node - is skipped; tag 'variant=plain' and `g` itself when none applies):
      extra_attrs  irrelevant extra node and edge attributes (note='x', weight=1.0)
      numpy        integer node ids and integer `aam` values as numpy.int64, float bond orders (also
                   inside (g, h) labels) as numpy.float64 - what a numpy array / table column gives
      frozen       nx.freeze of a copy made by re-adding nodes and edges in the same order
      view         G.subgraph(nodes of g) of a larger graph with extra unrelated nodes (and edges)
      list_labels  tuple bond labels as lists
    'reordered' is deliberately NOT a kind: node / adjacency order may be observable.  Node order,
    adjacency order and edge keys of g2 are those of g (checked here: `graph_shape`), so every
    order-faithful wire encoding (enc_graph, c09.enc_mol, c10.enc_its, ...) of g2 equals that of g."""
    order = list(kinds)
    rng.shuffle(order)
    want = graph_shape(g)
    for kind in order:
        h = _variant_of_kind(g, kind, rng)
        if h is None:
            continue
        if graph_shape(h) != want:
            raise AssertionError("input_variant(%s) changed what the wire form observes (harness defect)" % kind)
        return h, "variant=" + kind
    return g, "variant=plain"


def variant_extras_intact(g, nodes, edges):
    """after an IN-PLACE operation on an 'extra_attrs' variant: the original nodes / edges that are still
    there carry their extra attributes untouched.  Raises VariantDamaged otherwise."""
    for n in nodes:
        if n in g:
            d = g.nodes[n]
            for k, v in VARIANT_NODE_EXTRAS.items():
                if k not in d or d[k] != v or type(d[k]) is not type(v):
                    raise VariantDamaged("node %r lost or changed its attribute %r: %r" % (n, k, d.get(k)))
    for e in edges:
        u, v = e[0], e[1]
        if g.has_edge(u, v):
            dd = g.get_edge_data(u, v)
            for d in (dd.values() if g.is_multigraph() else [dd]):
                for k, val in VARIANT_EDGE_EXTRAS.items():
                    if k not in d or d[k] != val or type(d[k]) is not type(val):
                        raise VariantDamaged("edge %r-%r lost or changed its attribute %r: %r" % (u, v, k, d.get(k)))
    return True
