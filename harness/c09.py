"""C09 — the ITS graph superimposes reactant and product bond-for-bond.

Correspondence (model `C09.getIts` vs `fgutils.its.get_its` / `ITS.from_smiles`) and the
executable specification `C09.specCheck` applied to every implementation output.
The generators of this file are also used by c10.py.
"""
import glob
import json
import os

import networkx as nx

from common import Atom, Case, Run, call_impl, prepare, ImplError, dbl, CORPUS_DIR, input_variant, sx

PROOFS = ["FGVerif.Proofs.C09"]

SYMS = ["C", "C", "C", "C", "N", "O", "S", "Cl", "H", "P", "Br", "F"]
ORDERS = [1, 1, 1, 2, 2, 3, 1.5]


# ---------------------------------------------------------------------------
# plain descriptions of graphs: nodes [(id, sym, aam|None)], edges [(u, v, order)]
# ---------------------------------------------------------------------------
def build(nodes, edges, rng=None, shuffle=True):
    """networkx graph with nodes and edges inserted in random order and orientation, so that
    `G.edges` reports edges in an order unrelated to the ids (larger id first, etc.)"""
    g = nx.Graph()
    ns = list(nodes)
    es = list(edges)
    if rng is not None and shuffle:
        rng.shuffle(ns)
        rng.shuffle(es)
    for n, s, a in ns:
        if a is None:
            g.add_node(n, symbol=s)
        else:
            g.add_node(n, symbol=s, aam=a)
    for u, v, o in es:
        if rng is not None and shuffle and rng.random() < 0.5:
            u, v = v, u
        g.add_edge(u, v, bond=o)
    return g


def enc_mol(g):
    """what the model sees: node list in G.nodes order, edge list in G.edges order/orientation"""
    nodes = [[int(n), d["symbol"], d.get("aam")] for n, d in g.nodes(data=True)]
    edges = [[int(u), int(v), dbl(d["bond"])] for u, v, d in g.edges(data=True)]
    return [nodes, edges]


def canon_its(I):
    nodes = sorted(([int(n), d.get("symbol"), d.get("aam")] for n, d in I.nodes(data=True)), key=lambda x: x[0])
    edges = []
    for u, v, d in I.edges(data=True):
        b = d["bond"]
        edges.append([int(min(u, v)), int(max(u, v)), [dbl(b[0]), dbl(b[1])]])
    edges.sort(key=lambda e: (e[0], e[1], e[2][0], e[2][1]))
    return [nodes, edges]


def mol_in_domain(g):
    """the domain of the statement, decided independently of the Lean `domOk`"""
    aams = [d["aam"] for _, d in g.nodes(data=True) if "aam" in d]
    if any((not isinstance(a, int)) or a < 1 for a in aams):
        return False
    if len(set(aams)) != len(aams):
        return False
    if any(d["bond"] == 0 for _, _, d in g.edges(data=True)):
        return False
    return True


# ---------------------------------------------------------------------------
# random reactions
# ---------------------------------------------------------------------------
def random_edges(rng, ids, density=0.25, orders=ORDERS):
    """connected-ish random simple graph on ids: random tree + extra edges"""
    es = {}
    ids = list(ids)
    for k in range(1, len(ids)):
        if rng.random() < 0.9:
            j = rng.randrange(k)
            es[frozenset((ids[k], ids[j]))] = rng.choice(orders)
    extra = int(density * len(ids) * rng.random() * 2)
    for _ in range(extra):
        if len(ids) < 2:
            break
        a, b = rng.sample(ids, 2)
        es.setdefault(frozenset((a, b)), rng.choice(orders))
    return es


BIG_EDGES = [999, 1000, 1001, 1023, 1024, 9999, 10000, 32767, 32768, 65535, 65536, 99999, 100000, 999999, 1000000]


def big_map_numbers(rng, n):
    """n distinct map numbers between 1 and 10^6: a mix of small ones, numbers around powers of ten / two and arbitrary ones
    (map numbers are arbitrary positive integers for get_its; a reaction taken out of a database keeps its own numbering)"""
    out = set()
    while len(out) < n:
        c = rng.random()
        out.add(rng.randint(1, 40) if c < 0.25 else rng.choice(BIG_EDGES) + rng.randint(-2, 2) if c < 0.55 else rng.randint(1, 10 ** 6))
    out = [max(1, x) for x in out]
    out = list(dict.fromkeys(out))
    while len(out) < n:
        x = rng.randint(1, 10 ** 6)
        if x not in out:
            out.append(x)
    rng.shuffle(out)
    return out


def gen_reaction(rng, big=False, full=False, ood=None):
    """-> (G, H, tags) as networkx graphs.

    Atoms 0..n-1 are the common atoms; reactant-only and product-only atoms are added; the map
    is a shuffled injection into 1..; some common atoms lose their number on one side (partial
    maps, one-sided atoms); both graphs get their own random node ids, insertion orders and edge
    orientations.  `full`: fully mapped, same atoms both sides (for C10).  `ood`: 'zero', 'neg',
    'dup', 'bond0' = leave the domain in that way."""
    tags = []
    n = rng.randint(0, 40) if big else rng.randint(0, 11)
    if rng.random() < 0.03:
        n = 0
    syms = [rng.choice(SYMS) for _ in range(n)]
    atoms = list(range(n))
    eg = random_edges(rng, atoms)
    # product bonds: copy, then random bond changes
    eh = dict(eg)
    nchanges = rng.randint(0, 4) if n >= 2 else 0
    for _ in range(nchanges):
        c = rng.random()
        if c < 0.35 and eh:
            del eh[rng.choice(sorted(eh, key=sorted))]
        elif c < 0.7:
            a, b = rng.sample(atoms, 2)
            eh[frozenset((a, b))] = rng.choice(ORDERS)
        elif eh:
            k = rng.choice(sorted(eh, key=sorted))
            eh[k] = rng.choice(ORDERS)
    if nchanges == 0:
        tags.append("no_bond_change")
    # atom map numbers: shuffled, with gaps and offsets
    style = rng.random()
    if style < 0.25:
        nums = list(range(1, n + 1))
        tags.append("map_ascending")
    elif style < 0.6:
        nums = list(range(1, n + 1))
        rng.shuffle(nums)
        tags.append("map_shuffled")
    elif style < 0.82:
        nums = rng.sample(range(1, 3 * n + 5), n)
        tags.append("map_sparse")
    else:
        nums = big_map_numbers(rng, n)
        tags.append("map_big(up to 10^6)")
    aam_g = {a: nums[a] for a in atoms}
    aam_h = dict(aam_g)
    sym_g = {a: syms[a] for a in atoms}
    sym_h = dict(sym_g)
    nodes_g, nodes_h = list(atoms), list(atoms)
    if not full:
        # partial maps: a common atom keeps its number on one side only, or on neither
        p = rng.choice([0.0, 0.0, 0.15, 0.4])
        for a in atoms:
            if rng.random() < p:
                side = rng.random()
                if side < 0.4:
                    aam_g[a] = None
                elif side < 0.8:
                    aam_h[a] = None
                else:
                    aam_g[a] = aam_h[a] = None
        if p > 0:
            tags.append("partial_map")
        # one-sided atoms (leaving / incoming groups), mapped or not, bonded to the rest
        nxt = n
        used = set(nums)
        for side in ("g", "h"):
            for _ in range(rng.choice([0, 0, 1, 2, 3])):
                a = nxt
                nxt += 1
                s = rng.choice(SYMS)
                num = None
                if rng.random() < 0.6:
                    num = rng.choice([x for x in range(1, 3 * n + 12) if x not in used])
                    used.add(num)
                (nodes_g if side == "g" else nodes_h).append(a)
                (sym_g if side == "g" else sym_h)[a] = s
                (aam_g if side == "g" else aam_h)[a] = num
                es = eg if side == "g" else eh
                others = [x for x in (nodes_g if side == "g" else nodes_h) if x != a]
                for _ in range(rng.choice([1, 1, 2])):
                    if others:
                        es[frozenset((a, rng.choice(others)))] = rng.choice(ORDERS)
                if "one_sided_atoms" not in tags:
                    tags.append("one_sided_atoms")
        # symbols may disagree between the sides (the spec takes G's)
        if atoms and rng.random() < 0.1:
            sym_h[rng.choice(atoms)] = rng.choice(SYMS)
            tags.append("symbol_differs")
    if ood == "zero":
        for side in (aam_g, aam_h):
            ks = [k for k, v in side.items() if v is not None]
            if ks and rng.random() < 0.8:
                side[rng.choice(ks)] = 0
    elif ood == "neg":
        for side in (aam_g, aam_h):
            ks = [k for k, v in side.items() if v is not None]
            if ks and rng.random() < 0.8:
                side[rng.choice(ks)] = -rng.randint(1, 3)
    elif ood == "dup":
        side = rng.choice([aam_g, aam_h])
        ks = [k for k, v in side.items() if v is not None]
        if len(ks) >= 2:
            a, b = rng.sample(ks, 2)
            side[a] = side[b]
    elif ood == "bond0":
        es = rng.choice([eg, eh])
        if es:
            es[rng.choice(sorted(es, key=sorted))] = 0
    if ood:
        tags.append("ood_" + ood)

    # node ids of each side: own random bijection, or identity
    def ids_for(nodes):
        c = rng.random()
        if c < 0.3:
            return {a: a for a in nodes}, "ids_identity"
        if c < 0.5:
            off = rng.randint(1, 5)
            return {a: a + off for a in nodes}, "ids_offset"
        pool = rng.sample(range(0, 3 * len(nodes) + 4), len(nodes))
        return dict(zip(nodes, pool)), "ids_shuffled"

    idg, tg = ids_for(nodes_g)
    idh, th = ids_for(nodes_h)
    tags.append("G_" + tg)
    tags.append("H_" + th)
    shuffle_g = rng.random() < 0.8
    shuffle_h = rng.random() < 0.8
    G = build([(idg[a], sym_g[a], aam_g[a]) for a in nodes_g],
              [(idg[min(k)], idg[max(k)], o) for k, o in sorted(eg.items(), key=lambda x: sorted(x[0]))],
              rng, shuffle=shuffle_g)
    H = build([(idh[a], sym_h[a], aam_h[a]) for a in nodes_h],
              [(idh[min(k)], idh[max(k)], o) for k, o in sorted(eh.items(), key=lambda x: sorted(x[0]))],
              rng, shuffle=shuffle_h)
    if any(u > v for u, v in G.edges) or any(u > v for u, v in H.edges):
        tags.append("edge_reported_larger_id_first")
    return G, H, tags


# ---------------------------------------------------------------------------
# chemically valid mapped reactions (for the legs that go through RDKit)
# ---------------------------------------------------------------------------
VALENCE = {"C": 4, "N": 3, "O": 2, "S": 2, "Cl": 1, "F": 1, "Br": 1, "P": 3, "H": 1}
HEAVY = ["C", "C", "C", "C", "C", "N", "O", "O", "S", "Cl", "F", "Br", "P"]


def gen_valid_reaction(rng, nmax=10, full=True, with_h=False, big_maps=None):
    """fully mapped reaction over RDKit-representable atoms whose two sides respect the usual
    valences (bond orders 1, 2, 3).  -> (G, H, tags); node ids = SMILES-like 0..n-1 on each side,
    then shuffled.  `with_h`: some free valences carry EXPLICIT hydrogen nodes (mapped like every other atom; the
    library itself makes such graphs: prune_its_to_rc(insert_hydrogens=True), add_implicit_hydrogens).
    `big_maps` (default: 15% of the calls): map numbers up to 10^6."""
    if big_maps is None:
        big_maps = rng.random() < 0.15
    n = rng.randint(1, nmax)
    syms = [rng.choice(HEAVY) for _ in range(n)]
    free = [VALENCE[s] for s in syms]
    eg = {}

    def can(a, b, o, fr, es):
        return a != b and frozenset((a, b)) not in es and fr[a] >= o and fr[b] >= o

    for k in range(1, n):
        cand = [j for j in range(k) if free[j] >= 1]
        if cand and free[k] >= 1 and rng.random() < 0.9:
            j = rng.choice(cand)
            o = rng.choice([1, 1, 1, 2, 3])
            while not can(k, j, o, free, eg):
                o -= 1
            eg[frozenset((k, j))] = o
            free[k] -= o
            free[j] -= o
    for _ in range(rng.randint(0, 2)):   # rings
        if n >= 3:
            a, b = rng.sample(range(n), 2)
            if can(a, b, 1, free, eg):
                eg[frozenset((a, b))] = 1
                free[a] -= 1
                free[b] -= 1
    eh = dict(eg)
    fh = list(free)
    for _ in range(rng.randint(0, 4)):
        c = rng.random()
        if c < 0.35 and eh:
            k = rng.choice(sorted(eh, key=sorted))
            a, b = sorted(k)
            fh[a] += eh[k]
            fh[b] += eh[k]
            del eh[k]
        elif c < 0.7 and n >= 2:
            a, b = rng.sample(range(n), 2)
            o = rng.choice([1, 1, 2, 3])
            if can(a, b, o, fh, eh):
                eh[frozenset((a, b))] = o
                fh[a] -= o
                fh[b] -= o
        elif eh:
            k = rng.choice(sorted(eh, key=sorted))
            a, b = sorted(k)
            o = rng.choice([1, 2, 3])
            d = o - eh[k]
            if fh[a] >= d and fh[b] >= d:
                eh[k] = o
                fh[a] -= d
                fh[b] -= d
    tags = ["valid_chem"]
    if with_h:
        nh = 0
        for a in range(n):
            k = min(free[a], fh[a])
            while k > 0 and nh < 6 and rng.random() < 0.35:
                syms.append("H")
                eg[frozenset((a, len(syms) - 1))] = 1
                eh[frozenset((a, len(syms) - 1))] = 1
                k -= 1
                nh += 1
        n = len(syms)
        if nh:
            tags.append("explicit_H_nodes")
    nums = list(range(1, n + 1))
    c = rng.random()
    if big_maps:
        nums = big_map_numbers(rng, n)
        tags.append("map_big(up to 10^6)")
    elif c < 0.5:
        rng.shuffle(nums)
        tags.append("map_shuffled")
    elif c < 0.7:
        nums = rng.sample(range(1, 3 * n + 3), n)
        tags.append("map_sparse")
    else:
        tags.append("map_ascending")
    aam_g = {a: nums[a] for a in range(n)}
    aam_h = dict(aam_g)
    if not full:
        for a in range(n):
            if rng.random() < 0.2:
                (aam_g if rng.random() < 0.5 else aam_h)[a] = None
    G = build([(a, syms[a], aam_g[a]) for a in range(n)], [(min(k), max(k), o) for k, o in sorted(eg.items(), key=lambda x: sorted(x[0]))], rng)
    H = build([(a, syms[a], aam_h[a]) for a in range(n)], [(min(k), max(k), o) for k, o in sorted(eh.items(), key=lambda x: sorted(x[0]))], rng)
    if any(o == 3 for o in list(eg.values()) + list(eh.values())):
        tags.append("order3")
    return G, H, tags


_RD_BT = None


def _rd_tables():
    global _RD_BT
    import rdkit.Chem as Chem
    if _RD_BT is None:
        _RD_BT = {1: Chem.BondType.SINGLE, 2: Chem.BondType.DOUBLE, 3: Chem.BondType.TRIPLE,
                  4: Chem.BondType.QUADRUPLE, 1.5: Chem.BondType.AROMATIC}
    return _RD_BT, {v: k for k, v in _RD_BT.items()}


def rdkit_alone_mol(g):
    """an RDKit molecule for a molecular graph, built by the harness with RDKit ALONE (not fgutils.rdkit.graph_to_mol)"""
    import rdkit.Chem as Chem
    bt, _ = _rd_tables()
    rw = Chem.RWMol()
    idx = {}
    for n, d in g.nodes(data=True):
        sym = d["symbol"]
        at = Chem.Atom(sym[0].upper() + sym[1:] if sym.islower() else sym)
        if d.get("aam") is not None:
            at.SetAtomMapNum(int(d["aam"]))
        idx[n] = rw.AddAtom(at)
    for u, v, d in g.edges(data=True):
        rw.AddBond(idx[u], idx[v], bt[d["bond"]])
    return rw.GetMol()


def rdkit_alone_graph(smiles, keep_hs=False, sanitize=True):
    """the molecule RDKit builds from one side of a reaction SMILES, read with RDKit ALONE (no code of the library):
    node = atom index, symbol, map number when > 0; bond orders 1/2/3/4/1.5.  None when RDKit refuses the string.
    keep_hs=False, sanitize=True are RDKit's default reader settings."""
    import rdkit.Chem as Chem
    _, inv = _rd_tables()
    ps = Chem.SmilesParserParams()
    ps.removeHs = not keep_hs
    ps.sanitize = sanitize
    mol = Chem.MolFromSmiles(smiles, ps)
    if mol is None:
        return None
    g = nx.Graph()
    for a in mol.GetAtoms():
        if a.GetAtomMapNum() > 0:
            g.add_node(a.GetIdx(), symbol=a.GetSymbol(), aam=a.GetAtomMapNum())
        else:
            g.add_node(a.GetIdx(), symbol=a.GetSymbol())
    for b in mol.GetBonds():
        g.add_edge(b.GetBeginAtomIdx(), b.GetEndAtomIdx(), bond=inv.get(b.GetBondType(), 1))
    return g


def rdkit_alone_reaction(smiles, keep_hs=False, sanitize=True):
    parts = smiles.split(">>")
    if len(parts) != 2:
        return None
    g, h = (rdkit_alone_graph(p, keep_hs, sanitize) for p in parts)
    return None if g is None or h is None else (g, h)


def has_explicit_h_atom(smiles):
    """does the string write a hydrogen ATOM (`[H]`, `[H:5]`, `[2H]`)?  (RDKit's default reader drops those; whether the
    library's reader keeps them is C10's subject)"""
    import re
    return re.search(r"\[\d*H[+-]?\d*(:\d+)?\]", smiles) is not None


def reaction_smiles(G, H, rng):
    """the reaction written by RDKit ALONE (input production must not depend on the bridge under test)"""
    import rdkit.Chem as Chem
    canonical = rng.random() < 0.5
    return "{}>>{}".format(Chem.MolToSmiles(rdkit_alone_mol(G), canonical=canonical),
                           Chem.MolToSmiles(rdkit_alone_mol(H), canonical=canonical))


# ---------------------------------------------------------------------------
# implementation calls
# ---------------------------------------------------------------------------
def impl_get_its(G, H):
    from fgutils.its import get_its
    return canon_its(get_its(G, H))


def impl_from_smiles(smiles):
    from fgutils.its import ITS
    return canon_its(ITS.from_smiles(smiles).graph)


def load_corpus():
    out = []
    for p in sorted(glob.glob(os.path.join(CORPUS_DIR, "C09", "*.json"))):
        for e in json.load(open(p)):
            e["file"] = os.path.basename(p)
            out.append(e)
    return out


def graph_from_desc(d):
    """corpus graphs are given with explicit insertion order: no shuffling"""
    return build([tuple(x) for x in d["nodes"]], [tuple(x) for x in d["edges"]], None)


def smiles_case(smiles, tags, meta=None):
    """ITS.from_smiles judged against the two molecules RDKit builds from the string, read with RDKit ALONE.  Strings that
    write hydrogen ATOMS are not produced here (RDKit's default reader drops them, a reader that keeps them is equally
    legitimate: which one the library uses is C10's round-trip clause, F17)"""
    if has_explicit_h_atom(smiles):
        return None
    gh = rdkit_alone_reaction(smiles)
    if gh is None:
        return None
    g, h = gh
    out = call_impl(impl_from_smiles, smiles)
    dom = mol_in_domain(g) and mol_in_domain(h)
    req = [Atom("C09"), Atom("its"), enc_mol(g), enc_mol(h)]
    m = {"smiles": smiles, "via": "ITS.from_smiles"}
    m.update(meta or {})
    return Case(req, out, in_domain=dom, meta=m, nontrivial_key=("s", smiles) if g.number_of_edges() + h.number_of_edges() > 0 else None,
                tags=tuple(tags) + ("via_from_smiles",))


# forms in which get_its must accept its arguments (the ITS is that of the plain form): numpy map numbers /
# ids (a map assigned from an array or a table column), irrelevant extra attributes, frozen graphs, sub-graph views
VARIANT_KINDS = ("numpy", "extra_attrs", "frozen", "view")


def graphs_case(G, H, tags, meta=None, rng=None, variant_kinds=None):
    """`variant_kinds` (with `rng`): get_its receives semantically equal FORMS of G and H (common.input_variant,
    one kind drawn per side); request, domain oracle and expected ITS are those of the PLAIN graphs"""
    dom = mol_in_domain(G) and mol_in_domain(H)
    eg, eh = enc_mol(G), enc_mol(H)
    Gi, Hi = G, H
    meta = dict(meta or {})
    if variant_kinds:
        Gi, tg = input_variant(G, rng, variant_kinds)
        Hi, th = input_variant(H, rng, variant_kinds)
        if sx(enc_mol(Gi)) != sx(eg) or sx(enc_mol(Hi)) != sx(eh):
            raise AssertionError("input_variant changed the wire form (harness defect)")
        tags = tuple(tags) + ("input_form", "G_" + tg, "H_" + th)
        meta["variant"] = [tg, th]
    out = call_impl(impl_get_its, Gi, Hi)
    req = [Atom("C09"), Atom("its"), eg, eh]
    nontrivial = G.number_of_edges() + H.number_of_edges() > 0 and dom
    size = G.number_of_nodes()
    tags = tuple(tags) + ("via_get_its", "n<=4" if size <= 4 else "n<=12" if size <= 12 else "n>12")
    key = repr((eg, eh) + tuple(meta.get("variant", ()))) if nontrivial else None
    return Case(req, out, in_domain=dom, meta=meta, nontrivial_key=key, tags=tags)


# ---------------------------------------------------------------------------
# replay: rebuild the graphs of a recorded request, call the *current* implementation again
# ---------------------------------------------------------------------------
def dec_atom(a):
    if a == "_":
        return None
    if a.startswith("s:"):
        return a[2:]
    if a.startswith("h:"):
        return bytes.fromhex(a[2:]).decode("utf-8")
    return int(a)


def graph_from_wire(w):
    """inverse of enc_mol / c10.enc_its: inserting nodes and edges in the listed order reproduces
    the node order and the G.edges order and orientation"""
    g = nx.Graph()
    for n, sym, a in w[0]:
        d = {}
        if dec_atom(sym) is not None:
            d["symbol"] = dec_atom(sym)
        if dec_atom(a) is not None:
            d["aam"] = dec_atom(a)
        g.add_node(int(n), **d)
    for u, v, lab in w[1]:
        b = tuple(int(x) / 2 for x in lab) if isinstance(lab, list) else int(lab) / 2
        if isinstance(b, tuple):
            b = tuple(int(x) if x == int(x) else x for x in b)
        elif b == int(b):
            b = int(b)
        g.add_edge(int(u), int(v), bond=b)
    return g


def replay(path):
    from common import parse_sx, Driver, sx, sx_of, canon
    d = json.load(open(path))
    req = parse_sx(d["request_line"])
    G, H = graph_from_wire(req[2]), graph_from_wire(req[3])
    smiles = (d.get("meta") or {}).get("smiles")
    variant = (d.get("meta") or {}).get("variant")
    if smiles:
        out = call_impl(impl_from_smiles, smiles)
    elif variant:
        import random
        vr = random.Random(d.get("seed", 0))
        Gv = input_variant(G, vr, (variant[0].split("=")[1],))[0] if variant[0] != "variant=plain" else G
        Hv = input_variant(H, vr, (variant[1].split("=")[1],))[0] if variant[1] != "variant=plain" else H
        print("re-applied the recorded input forms: G %s, H %s" % tuple(variant))
        out = call_impl(impl_get_its, Gv, Hv)
    else:
        out = call_impl(impl_get_its, G, H)
    case = Case([Atom("C09"), Atom("its"), enc_mol(G), enc_mol(H)], out)
    drv = Driver()
    reply = drv.ask(case.line())
    drv.close()
    impl_c = ["raised", out.kind] if isinstance(out, ImplError) else canon(out)
    print("request :", case.line())
    print("impl now:", sx_of(impl_c))
    print("reply   :", sx_of(reply))
    ok = reply[0] == "ok" and reply[3] == "1" and reply[1] == impl_c
    if reply[0] == "ok" and reply[3] == "0":
        print("VIOLATION property=C09 replay=%s (the specification rejects the implementation's output)" % path)
    elif not ok:
        print("VIOLATION property=C09 replay=%s no-failing-input-found (model and implementation disagree)" % path)
    return 0 if ok else 1


def check_domain_flags(r, outs, idx=0):
    """the Lean domain predicate and the harness's oracle must classify every case alike"""
    bad = 0
    for o in outs:
        if o.ok_reply and len(o.extra) > idx:
            if (o.extra[idx] == "1") != bool(o.case.meta.get("dom_oracle", o.case.in_domain)):
                bad += 1
                r.notes.setdefault("domain_flag_mismatch", []).append(o.case.line()[:300])
    return bad


def run(tier, seed):
    r = Run("C09", tier, seed)
    if not prepare(r, PROOFS, "C09"):
        return 2
    rng = r.rng
    n_cases = 2000 if tier == "quick" else 200000
    cases = []
    # corpus first (witnesses of F7 and past failures)
    for e in load_corpus():
        if e["kind"] == "smiles":
            c = smiles_case(e["smiles"], ["corpus"], {"corpus": e["file"], "note": e.get("note")})
        else:
            c = graphs_case(graph_from_desc(e["G"]), graph_from_desc(e["H"]), ["corpus"], {"corpus": e["file"], "note": e.get("note")})
            # every corpus reaction also in every other input form (numpy map numbers, extra attributes, frozen, view)
            for kind in VARIANT_KINDS:
                cases.append(graphs_case(graph_from_desc(e["G"]), graph_from_desc(e["H"]), ["corpus"],
                                         {"corpus": e["file"], "note": e.get("note")}, rng=rng, variant_kinds=(kind,)))
        if c is not None:
            cases.append(c)
    mismatches = 0
    for k in range(n_cases):
        c = rng.random()
        if c < 0.12:
            G, H, tags = gen_valid_reaction(rng, nmax=12, full=rng.random() < 0.6)
            smi = call_impl(reaction_smiles, G, H, rng)
            if isinstance(smi, ImplError):
                r.count("smiles_writer_failed")
                continue
            case = smiles_case(smi, tags)
            if case is None:
                r.count("smiles_reader_failed")
                continue
        else:
            ood = None
            if c < 0.24:
                ood = rng.choice(["zero", "zero", "neg", "dup", "bond0"])
            G, H, tags = gen_reaction(rng, big=(k % 25 == 0), ood=ood)
            if ood is None and k % 11 == 3:
                # history on the same graph objects: superimpose once, renumber the atom map of the
                # SAME objects in place (an injective renaming applied to both sides, plus a swap of
                # two numbers on one side), superimpose again - the answer must be the one for the
                # graphs as they are at call time
                call_impl(impl_get_its, G, H)
                nums = sorted({d["aam"] for g_ in (G, H) for _, d in g_.nodes(data=True) if d.get("aam") is not None})
                if len(nums) >= 2:
                    shift = rng.randint(1, 5)
                    ren = {a_: a_ + shift for a_ in nums}
                    x, y = rng.sample(nums, 2)
                    for g_ in (G, H):
                        for _, d in g_.nodes(data=True):
                            if d.get("aam") is not None:
                                d["aam"] = ren[d["aam"]]
                    for _, d in G.nodes(data=True):
                        if d.get("aam") == ren[x]:
                            d["aam"] = ren[y]
                        elif d.get("aam") == ren[y]:
                            d["aam"] = ren[x]
                    tags = list(tags) + ["after_in_place_renumbering"]
            if ood is None and rng.random() < 0.15:
                # the FORM of the input: same reaction handed over with numpy map numbers / ids, extra attributes,
                # frozen or as a sub-graph view of a larger graph - the ITS must be the plain form's
                case = graphs_case(G, H, tags, rng=rng, variant_kinds=VARIANT_KINDS)
            else:
                case = graphs_case(G, H, tags)
        cases.append(case)
        if len(cases) >= 4000:
            mismatches += check_domain_flags(r, r.evaluate(cases), 0)
            cases = []
    mismatches += check_domain_flags(r, r.evaluate(cases), 0)
    r.assumptions = [
        "a networkx Graph enters get_its only through G.nodes(data=True) (order, symbol, aam), G.edges(data=True) (order, orientation, bond), has_edge and G[u][v]; these are modelled as lists",
        "dict / defaultdict(lambda: None) semantics modelled as association lists (latest assignment wins)",
        "map number 0 (RDKit: unmapped), negative or duplicated map numbers and bond order 0 are outside the statement (counted, never decide the verdict)",
        "through ITS.from_smiles the reference graphs are the two molecules RDKit builds from the sides of the string, read with RDKit ALONE "
        "(harness/c09.py rdkit_alone_graph: no library code; RDKit parsing itself is not modelled); the strings are written by RDKit alone too; "
        "strings that write hydrogen ATOMS are left to C10 (reader settings)",
        "the second loop of _add_its_nodes never adds a node: proved for the model on the whole domain (C09.nodeStepH_eq, used by getIts_closed); "
        "outside the domain (non-injective maps, generated as ood_dup) the same argument applies (a number that reaches its condition is carried by "
        "a reactant node, whose own turn in the first loop added it) and model == implementation is still compared",
    ]
    if mismatches:
        print("ERROR property=C09 harness oracle and Lean domOk disagree on %d case(s)" % mismatches)
        r.finish(level="proof", rule="", checker_cmd="", explanation="domain flag mismatch")
        return 2
    return r.finish(
        level="proof",
        rule="random reactant graphs (0-11 atoms, every 25th up to 40) + random bond changes; shuffled/sparse/ascending maps, partial maps, "
             "map numbers up to 10^6 (18% of the graph cases, 15% of the SMILES cases: around 999/1000/2^15/2^16/10^5/10^6 and arbitrary), one-sided mapped and unmapped atoms, independent node ids / insertion orders / edge orientations per side; 12% valence-correct mapped "
             "reaction SMILES through ITS.from_smiles; 12% out-of-domain (map number 0, negative, duplicate, bond order 0); "
             "15% of the in-domain graph cases (and every corpus reaction) hand G and H over in another FORM (numpy.int64 map numbers and ids / "
             "extra attributes / nx.freeze / sub-graph view of a larger graph; tags G_variant=*, H_variant=*), judged against the plain form. "
             "non-trivial = in-domain case with at least one bond, distinct by (G, H) wire form",
        checker_cmd="cd lean && lake build FGVerif.Proofs.C09 && lake env lean FGVerif/Audit/C09.lean",
        explanation="theorems in lean/FGVerif/Proofs/C09.lean about Model/C09.lean (its_exact, renumbering_invariant, no_ghost_nodes, "
                    "one_sided_atoms_contribute_nothing); model tied to fgutils.its.get_its by differential testing; executable spec "
                    "C09.specCheck (proved sound) applied to every implementation output")
