"""C06 — functional-group queries are deterministic and pure.

The runtime part of the property is exercised, not modelled: harness/worker_seed.py is started as
fresh interpreters with different PYTHONHASHSEED values; every process answers the same molecules
(in a different order, so the histories of the long-lived FGQuery object differ), asks every query
twice on the same object and once on a fresh object, and snapshots the caller's graph (node order,
attributes, adjacency order, edge attributes) around every call.  The specification
(`C06 det` in the Lean driver): all answers of all processes/objects/repetitions are identical and
every snapshot equals the one taken before the call.

The logic part (cache, set-iteration order, sort keys) is modelled (Model/C06.lean, Model/C07.lean)
and proved (Proofs/C06.lean); the model's ORDERED tree (roots list, children lists) is compared with
the trees the processes build (`C06 tree`).
"""
import hashlib
import json
import os
import time

import common
from common import Atom, Case, Run, ImplError, prepare
import c07
import worker_seed

PROOFS = ["FGVerif.Proofs.C06", "FGVerif.Proofs.C06Full", "FGVerif.Proofs.C06Relabel", "FGVerif.Proofs.C06Default",
          "FGVerif.Proofs.C06Total"]

def load_corpus():
    """fixed regression inputs: corpus/C06/molecules.json (witnesses of F4 and K3, sibling-tie molecules)"""
    return [e["smiles"] for e in json.load(open(os.path.join(common.CORPUS_DIR, "C06", "molecules.json")))]


CARBONYL_SUBST = ["", "Cl", "O", "OC", "N", "NC", "N(C)C", "S", "SC", "OO", "OOC", "C", "CC", "c1ccccc1", "OC(C)=O"]
GROUPS = ["C(=O)O", "C(=O)OC", "C(=O)Cl", "C=O", "C(=O)N", "C(=O)NC", "OC", "O", "N", "NC", "N(C)C", "S", "SC",
          "C#N", "N=O", "OO", "OOC", "C(=O)OO", "C(=O)SC", "C(=O)OC(=O)C", "C1OC1", "C(O)OC", "C(OC)OC", "Cl",
          "c1ccccc1", "c1ccccc1O", "c1ccccc1N", "C=CO", "C=C=O", "OC(=O)N", "C(C)(C)O", "C(=O)C", "C(O)(OC)C",
          "OC(=O)Cl", "SC(=O)OC", "C(=O)SC(=O)OC"]


def gen_smiles(rng):
    x = rng.random()
    if x < 0.3:
        # O=C(X)Y family: several carbonyl children compete at the same atoms (sibling ties)
        a, b = rng.choice(CARBONYL_SUBST), rng.choice(CARBONYL_SUBST)
        s = "O=C" + ("(" + a + ")" if a else "") + b
        if rng.random() < 0.3:
            s = rng.choice(["C", "CC", "OC", "ClC"]) + s if not s.startswith("O=C(") else s
        return s, "carbonyl-family"
    parts = []
    n = rng.randint(1, 5)
    for _ in range(n):
        atom = rng.choice(["C", "C", "C", "C", "N", "O"]) if parts else "C"
        g = rng.choice(GROUPS) if rng.random() < 0.6 else None
        parts.append(atom + ("(" + g + ")" if g and atom == "C" else ""))
    s = "".join(parts) + (rng.choice(GROUPS) if rng.random() < 0.7 else "")
    return s, "chain-with-groups"


def gen_mol(rng):
    """-> (mol spec for the worker, id string, tags) or None"""
    from rdkit import Chem
    from rdkit import RDLogger
    RDLogger.DisableLog("rdApp.*")
    s, fam = gen_smiles(rng)
    m = Chem.MolFromSmiles(s)
    if m is None:
        return None
    return spec_for(rng, s, fam)


def spec_for(rng, s, fam):
    x = rng.random()
    if x < 0.65:
        return {"kind": "smiles", "s": s}, s, [fam, "input:smiles"]
    if x < 0.8 and not any(ch in s for ch in "[]@/\\%+"):
        off = rng.choice([0, 0, 1, 3, 7])
        return {"kind": "pattern", "s": s, "offset": off}, "%s@parser+%d" % (s, off), [fam, "input:parser", "offset=%d" % off]
    # explicit graph with sparse, shuffled node ids and shuffled insertion order
    g = worker_seed.mk_graph({"kind": "smiles", "s": s})
    ids = list(g.nodes)
    new = rng.sample(range(0, 3 * len(ids) + 2), len(ids))
    ren = dict(zip(ids, new))
    nodes = [[ren[n], g.nodes[n]["symbol"]] for n in ids]
    rng.shuffle(nodes)
    edges = [[ren[u], ren[v], d["bond"]] for u, v, d in g.edges(data=True)]
    rng.shuffle(edges)
    return {"kind": "graph", "nodes": nodes, "edges": edges}, "%s@ids%s" % (s, new), [fam, "input:graph-sparse-ids"]


def digest(snap):
    return hashlib.sha1(json.dumps(snap).encode()).hexdigest()[:20]


def enc_answer(a):
    if isinstance(a, dict):
        return [Atom("raised"), Atom(a.get("raised", "Other"))]
    return [[name, [int(i) for i in ids]] for name, ids in a]


def det_case(mol, mol_id, tags, per_seed):
    """per_seed: [(hashseed, worker answer)]"""
    before = digest(worker_seed.snapshot(worker_seed.mk_graph(mol)))
    impl = []
    any_answer = False
    raised = False
    for seed, res in per_seed:
        if "same1" not in res:
            return None
        answers = [enc_answer(res[k]) for k in ("same1", "same2", "fresh")]
        any_answer = any_answer or any(isinstance(res[k], list) and res[k] for k in ("same1", "same2", "fresh"))
        raised = raised or any(isinstance(res[k], dict) for k in ("same1", "same2", "fresh"))
        snaps = [digest(res[k]) for k in ("before", "after1", "after2", "fresh_before", "fresh_after")]
        impl.append([seed, answers, snaps])
    req = [Atom("C06"), Atom("det"), mol_id, before]
    meta = {"mol": mol, "id": mol_id, "hashseeds": [s for s, _ in per_seed],
            "answers_by_seed": {str(s): [r.get("same1"), r.get("same2"), r.get("fresh")] for s, r in per_seed}}
    t = list(tags) + (["answer:nonempty"] if any_answer else ["answer:empty"]) + (["answer:raised"] if raised else [])
    return Case(req, impl, meta=meta, nontrivial_key=mol_id if any_answer else None, compare_model=False, tags=t)


def tree_view(res, inv):
    if "raised" in res:
        return ("raised", res["raised"])
    if "children" not in res or any(c is None for c in res["children"]):
        return ("raised", "Harness")
    n = res["n"]
    roots = tuple(inv[i] for i in res["roots"])
    children = [None] * n
    for i in range(n):
        children[inv[i]] = tuple(inv[j] for j in res["children"][i])
    return (roots, tuple(children))


def tree_cases(info, order, results_by_seed, envseed, tags):
    """one case per tree job: the implementation output is the list of DISTINCT ordered trees the
    processes produced (exactly one when the build is deterministic)"""
    inv = {b: p for p, b in enumerate(order)}
    groups = {}
    for seed, res in results_by_seed:
        groups.setdefault(tree_view(res, inv), []).append(seed)
    cfgs_perm = [info.enc[b] for b in order]
    impl = []
    seeds_of = []
    for out, seeds in sorted(groups.items(), key=lambda kv: str(kv[0])):
        if out[0] == "raised":
            impl.append([Atom("raised"), Atom(out[1])])
        else:
            impl.append([list(out[0]), [list(c) for c in out[1]]])
        seeds_of.append(seeds)
    req = [Atom("C06"), Atom("tree"), c07.MAPPER, cfgs_perm, envseed]
    meta = {"cfgs": None if info.is_default else info.dicts, "patterns": [d["pattern"] for d in info.dicts],
            "order": list(order), "hashseeds": sorted(s for ss in seeds_of for s in ss),
            "hashseeds_per_distinct_tree": seeds_of, "distinct_trees_among_seeds": len(groups)}
    t = set(tags) | {"tree"}
    if len(groups) > 1:
        t.add("trees-differ-between-seeds")
    return [Case(req, impl, in_domain=info.in_domain, meta=meta,
                 nontrivial_key=("tree", tuple(meta["patterns"]), tuple(order)), tags=sorted(t))]


def e2e_cfg_wire(d):
    """one config dict -> the arguments of FGConfig.__init__ on the wire (graphs parsed by the real parser,
    anti-patterns in the order given)"""
    from fgutils.parse import Parser
    anti = d.get("anti_pattern", [])
    anti = anti if isinstance(anti, list) else [anti]
    ga = d.get("group_atoms")
    return [d["name"], d["pattern"], common.enc_graph(Parser().parse(d["pattern"])),
            None if ga is None else [int(x) for x in ga], [common.enc_graph(Parser()(p)) for p in anti],
            None if d.get("depth") is None else int(d["depth"])]


def e2e_case(dicts, order, mol, mol_id, rh, envseed, tags):
    """END-TO-END correspondence: `FGQuery(config=[…], require_implicit_hydrogen=rh).get(mol)` of the code
    against the composed model `C06.fgQueryGetM` (tree builder + adapter + query) — exact output"""
    from fgutils.fgconfig import FGConfig
    from fgutils.query import FGQuery
    ordered = [dicts[i] for i in order]
    g = worker_seed.mk_graph(mol)

    def real():
        q = FGQuery(config=[FGConfig(**dict(d)) for d in ordered], require_implicit_hydrogen=rh)
        return [[name, [int(i) for i in ids]] for name, ids in q.get(g)]

    out = common.call_impl(real)
    req = [Atom("C06"), Atom("e2e"), c07.MAPPER, [e2e_cfg_wire(d) for d in ordered], envseed, common.enc_graph(g), bool(rh)]
    nonempty = isinstance(out, list) and len(out) > 0
    meta = {"e2e": {"cfgs": dicts, "order": list(order), "mol": mol, "id": mol_id, "require_h": bool(rh), "envseed": envseed}}
    t = list(tags) + ["e2e", "e2e:answer-nonempty" if nonempty else ("e2e:raised" if isinstance(out, ImplError) else "e2e:answer-empty"),
                      "e2e:requireH=%d" % int(bool(rh))]
    return Case(req, out, meta=meta, tags=t,
                nontrivial_key=("e2e", tuple(d["pattern"] for d in ordered), mol_id, bool(rh)) if nonempty else None)


def e2e_with_group_atoms(rng, dicts):
    """a copy of the list in which some entries get an explicit `group_atoms` subset"""
    from fgutils.parse import Parser
    out = []
    for d in dicts:
        d = dict(d)
        if "group_atoms" not in d and rng.random() < 0.35:
            nodes = list(Parser().parse(d["pattern"]).nodes)
            k = rng.randint(1, len(nodes))
            d["group_atoms"] = sorted(rng.sample(nodes, k))
        out.append(d)
    return out


def plan_seeds(rng, tier):
    if tier == "quick":
        return [0, 1, 2, 3, 4, rng.randrange(5, 2 ** 32 - 1)]
    return [0, 1, 2, 3, 4] + [rng.randrange(5, 2 ** 32 - 1) for _ in range(27)]


def run(tier, seed):
    r = Run("C06", tier, seed)
    if not prepare(r, PROOFS, "C06"):
        return 2
    rng = r.rng
    seeds = plan_seeds(rng, tier)
    n_mols = 150 if tier == "quick" else 3000
    per_mol_seeds = len(seeds) if tier == "quick" else 5
    # ---- molecules ---------------------------------------------------------------------------------
    mols = []
    corpus = load_corpus()
    for s in corpus:
        mols.append(({"kind": "smiles", "s": s}, s, ["corpus", "input:smiles"]))
    for s in corpus[:6]:
        mols.append(spec_for(rng, s, "corpus"))
    # explicit hydrogen atoms in the input (the query must not treat such a graph differently:
    # it still has to work on a copy) — written in the pattern syntax, where H is an atom
    for s in ["OCC(=O)H", "C(H)(H)(H)OCCO", "NC(H)=O", "C(H)(H)(H)O", "C(H)(H)(H)C(=O)OC(H)(H)H", "OC(H)(C)C",
              "N(H)(H)CC(=O)O(H)", "C(H)(=O)Cl", "O(H)CC(H)(H)N(H)C", "C(H)(H)=C(H)O(H)"]:
        mols.append(({"kind": "pattern", "s": s, "offset": rng.choice([0, 0, 2])}, s + "@explicitH", ["explicit-H", "input:parser"]))
    # element symbols whose concatenation is ambiguous ('Si' vs 'S','I'; 'Sn' vs 'S','N'): answers must
    # not depend on which of two such neighbourhoods the same query object has seen before
    for X, x1, x2 in (("Si", "S", "I"), ("Sn", "S", "N")):
        for Z in ("N", "O", "C", "P"):
            for rest in ([], ["C"], ["C", "C"], ["O"]):
                for nb in ([X] + rest, [x1, x2] + rest):
                    nodes = [[0, Z]] + [[i + 1, sym] for i, sym in enumerate(nb)]
                    edges = [[0, i + 1, 1] for i in range(len(nb))]
                    mols.append(({"kind": "graph", "nodes": nodes, "edges": edges}, "%s(%s)" % (Z, ",".join(nb)),
                                 ["ambiguous-symbol-concatenation", "input:graph"]))
    refused = 0
    seen = set()
    uniq = []
    for m in mols:
        if m[1] not in seen:
            seen.add(m[1])
            uniq.append(m)
    mols = uniq
    tries = 0
    n_mols += len(mols)
    while len(mols) < n_mols and tries < 50 * n_mols:
        tries += 1
        m = gen_mol(rng)
        if m is None:
            refused += 1
            continue
        if m[1] in seen:
            continue
        seen.add(m[1])
        mols.append(m)
    # ---- trees (ordered structure) -----------------------------------------------------------------
    infos = []
    from fgutils.fgconfig import _default_fg_config
    nd = len(_default_fg_config)
    o1 = list(range(nd))
    rng.shuffle(o1)
    tree_plans = [(None, [list(range(nd)), list(reversed(range(nd))), o1], {"default-list"})]
    for _ in range(20 if tier == "quick" else 200):
        pats, tags = c07.gen_list(rng)
        dicts = [{"name": "g%d" % i, "pattern": p} for i, p in enumerate(pats)]
        o = list(range(len(pats)))
        rng.shuffle(o)
        tree_plans.append((dicts, [list(range(len(pats))), o], set(tags) | {"generated"}))
    for dicts, orders, tags in tree_plans:
        try:
            infos.append((c07.ListInfo(dicts), orders, tags))
        except Exception:
            continue
    tree_jobs = []
    tree_index = []
    for li, (info, orders, tags) in enumerate(infos):
        for oi, order in enumerate(orders):
            tree_jobs.append({"op": "tree", "cfgs": None if info.is_default else info.dicts, "order": order,
                              "direct": False})
            tree_index.append((li, oi))
    # ---- batches: (hashseed, jobs); every process sees its molecules in its own order ---------------
    batches = []
    keys = []
    t0 = time.time()
    shards_per_seed = 2 if tier == "quick" else 1
    for si, s in enumerate(seeds):
        mine = [mi for mi in range(len(mols)) if tier == "quick" or (mi - si) % len(seeds) < per_mol_seeds]
        order = list(mine)
        rng.shuffle(order)
        for sh in range(shards_per_seed):
            part = [mi for k, mi in enumerate(order) if k % shards_per_seed == sh]
            jobs = [{"op": "query", "mol": mols[mi][0], "obj": "default"} for mi in part]
            ks = [("mol", mi) for mi in part]
            if sh == 0:
                tj = [ji for ji in range(len(tree_jobs)) if tier == "quick" or (ji + si) % 4 == 0]
                jobs = [tree_jobs[ji] for ji in tj] + jobs
                ks = [("tree", ji) for ji in tj] + ks
            batches.append((s, jobs))
            keys.append(ks)
    results = c07.run_workers(batches)
    r.notes["worker_wall_s"] = round(time.time() - t0, 1)
    by_mol = {}
    by_tree = {}
    for (s, _), ks, res in zip(batches, keys, results):
        for (kind, i), one in zip(ks, res):
            (by_mol if kind == "mol" else by_tree).setdefault(i, []).append((s, one))
    # ---- cases -------------------------------------------------------------------------------------
    cases = []
    setup_failed = 0
    for mi, (mol, mol_id, tags) in enumerate(mols):
        c = det_case(mol, mol_id, tags, by_mol.get(mi, []))
        if c is None:
            setup_failed += 1
            continue
        cases.append(c)
    for ji, (li, oi) in enumerate(tree_index):
        info, orders, tags = infos[li]
        if ji in by_tree:
            cases += tree_cases(info, orders[oi], by_tree[ji], envseed=ji % 7, tags=tags)
    # ---- end to end: real FGQuery(config=…).get against the composed model (sample per run) ----------
    from fgutils.fgconfig import _default_fg_config
    n_lists, n_per = (8, 4) if tier == "quick" else (60, 8)
    e2e_plans = [(list(_default_fg_config), {"default-list"}, 2 * n_per)]
    gen_infos = [(info, tags) for info, _, tags in infos if not info.is_default]
    for info, tags in rng.sample(gen_infos, min(n_lists, len(gen_infos))):
        e2e_plans.append((e2e_with_group_atoms(rng, info.dicts), set(tags) | {"generated"}, n_per))
    e2e_built = 0
    n_corpus = len(corpus) if tier != "quick" else 12
    for dicts, tags, k in e2e_plans:
        # the default list is asked the corpus molecules first (sibling ties: the witnesses of F4), then random ones
        picks = list(range(min(n_corpus, len(mols)))) if "default-list" in tags else []
        picks += [rng.randrange(len(mols)) for _ in range(k)]
        for mi in picks:
            mol, mol_id, _t = mols[mi]
            order = list(range(len(dicts)))
            if rng.random() < 0.5:
                rng.shuffle(order)
            try:
                cases.append(e2e_case(dicts, order, mol, mol_id, rng.random() < 0.7, rng.randrange(0, 7), sorted(tags)))
                e2e_built += 1
            except Exception:
                setup_failed += 1
    outs = r.evaluate(cases)
    e2e_outs = [o for o in outs if o.ok_reply and o.case.req[1] == "e2e"]
    # C06.query_end_to_end_total: distinct pattern strings alone make the outcome (answer or AssertionError) independent
    e2e_dep = sum(1 for o in e2e_outs if len(o.extra) >= 3 and o.extra[1] == "1" and o.extra[0] != "1")
    r.extra_cov.update({"end_to_end_cases": e2e_built,
                        "end_to_end_cases_within_the_hypotheses_of_query_end_to_end":
                            sum(1 for o in e2e_outs if len(o.extra) >= 3 and o.extra[1] == "1" and o.extra[2] == "1"),
                        "end_to_end_cases_with_distinct_pattern_strings_(query_end_to_end_total)":
                            sum(1 for o in e2e_outs if len(o.extra) >= 3 and o.extra[1] == "1"),
                        "end_to_end_model_answers_depending_on_set_order_or_list_order": e2e_dep})
    if e2e_dep:
        r.violation_lines.append("VIOLATION property=C06 replay=%s no-failing-input-found" % r.write_replay(
            "proof-obligation", "e2e_env_dependent_model",
            {"theorem_or_correspondence": ["C06.query_end_to_end_total: the composed model's outcome depends on the set-iteration order / list order on %d case(s) with pairwise distinct pattern strings" % e2e_dep]}))
    env_dep = sum(1 for o in outs if o.ok_reply and o.case.req[1] == "tree" and o.case.in_domain and o.extra and o.extra[0] != "1")
    order_contract = sum(1 for o in outs if o.ok_reply and o.case.req[1] == "tree" and o.case.in_domain
                         and len(o.extra) > 1 and o.extra[1] != "1")
    r.extra_cov.update({
        "ordered_trees_not_sorted_by_the_models_key": order_contract,
        "hash_seeds": seeds, "molecules": len(mols), "molecule_runs": sum(len(v) for v in by_mol.values()),
        "queries_asked": 3 * sum(len(v) for v in by_mol.values()), "smiles_refused_by_rdkit": refused,
        "molecules_whose_graph_could_not_be_built": setup_failed, "tree_jobs": len(tree_jobs),
        "model_trees_depending_on_the_set_order_parameter": env_dep, "worker_wall_s": r.notes["worker_wall_s"],
    })
    if env_dep:
        r.violation_lines.append("VIOLATION property=C06 replay=%s no-failing-input-found" % r.write_replay(
            "proof-obligation", "env_dependent_model",
            {"theorem_or_correspondence": ["C06.env_independent: the model's ordered tree depends on the set-iteration order parameter on %d generated list(s)" % env_dep]}))
    r.assumptions = [
        "Proofs/C06.lean: the query algorithm (C05) enters as a parameter q that reads the tree only through its items, roots list and children lists; "
        "Proofs/C06Full.lean composes tree builder (C07), cache and query (C05) and proves the statement for the composed model "
        "(hypothesis: pairwise distinct pattern strings; with 'the both-directions assertion cannot fire' the outcome is an answer); the composed model is compared exactly with FGQuery(config=…).get on a sample per run",
        "CPython hash randomisation and object addresses are not modelled: they are exercised by fresh interpreter processes under PYTHONHASHSEED " + str(seeds[:6]) + ("…" if len(seeds) > 6 else ""),
        "input_untouched is true of the model by construction; for the code it is checked by snapshots of the caller's graph (node order, attributes, adjacency order, edge attributes, graph attributes) around every call",
    ]
    return r.finish(
        level="proof",
        rule="molecules: corpus (incl. every witness of F4/K3) + generated SMILES (O=C(X)Y family on which sibling groups tie; chains with functional groups), "
             "given as RDKit graphs, parser graphs with id offsets, or graphs with sparse shuffled ids; every molecule asked twice on a long-lived object and once on a fresh object in each "
             "of several fresh interpreters with different PYTHONHASHSEED and different molecule orders; ordered trees of the default list and generated lists compared with the model; "
             "end-to-end answers of FGQuery(config=list).get on the default list (corpus + random molecules) and on a sample of generated lists (some with explicit group_atoms) compared exactly with the composed model; "
             "non-trivial = molecule with a non-empty answer / one tree job",
        checker_cmd="cd lean && lake build " + " ".join(PROOFS) + " && lake env lean FGVerif/Audit/C06.lean",
        explanation="theorems in lean/FGVerif/Proofs/C06.lean (history independence via the cache invariant; independence of the ordered tree from the set-iteration order and the list order for pairwise "
                    "distinct keys; decided witness that the unrepaired hash key is order-dependent); Proofs/C06Full.lean, C06Total.lean, C06Relabel.lean, C06Default.lean: the same for the COMPOSED model "
                    "(tree builder + cache + C05's query; hypothesis: pairwise distinct pattern strings), the default list kernel-checked against the tree extracted from the real get_tree(), "
                    "and exact comparison of the composed model with FGQuery(config=…).get on a sample of lists and molecules (`C06 e2e`); runtime determinism and purity checked by the executable spec `C06 det` on the answers of fresh interpreters")


def replay(path):
    payload = json.load(open(path))
    meta = payload.get("meta") or {}
    r = Run("C06", "replay", payload.get("seed", 0))
    if not prepare(r, PROOFS, "C06"):
        return 2
    seeds = meta.get("hashseeds") or [0, 1, 2, 3, 4]
    if "mol" in meta:
        job = {"op": "query", "mol": meta["mol"], "obj": "default"}
        res = c07.run_workers([(s, [job]) for s in seeds])
        per = [(s, x[0]) for s, x in zip(seeds, res)]
        for s, x in per:
            print("replay: PYTHONHASHSEED=%s same1=%s same2=%s fresh=%s untouched=%s" % (
                s, x.get("same1"), x.get("same2"), x.get("fresh"),
                x.get("before") == x.get("after1") == x.get("after2") and x.get("fresh_before") == x.get("fresh_after")))
        c = det_case(meta["mol"], meta["id"], ["replay"], per)
        r.evaluate([c] if c else [])
    elif "e2e" in meta:
        e = meta["e2e"]
        c = e2e_case(e["cfgs"], e["order"], e["mol"], e["id"], e["require_h"], e["envseed"], ["replay"])
        for o in r.evaluate([c]):
            print("replay: end-to-end order=%s mol=%s requireH=%s\n  impl=%s\n  model=%s extras=%s" % (
                e["order"], e["id"], e["require_h"], common.sx_of(o.impl_c), common.sx_of(o.model), common.sx_of(o.extra)))
    elif "order" in meta:
        info = c07.ListInfo(meta.get("cfgs"))
        job = {"op": "tree", "cfgs": meta.get("cfgs"), "order": meta["order"], "direct": False}
        runs = [(s, [job]) for s in seeds for _ in range(2)]
        res = c07.run_workers(runs)
        cases = tree_cases(info, meta["order"], [(s, x[0]) for (s, _), x in zip(runs, res)], 0, {"replay"})
        for o in r.evaluate(cases):
            print("replay: order=%s hashseeds=%s\n  impl=%s\n  model=%s spec_impl=%s" % (
                meta["order"], o.case.meta["hashseeds_per_distinct_tree"], common.sx_of(o.impl_c), common.sx_of(o.model), o.spec_impl))
    else:
        print("replay file names a proof obligation: rebuilding the proofs is the replay; proofs_ok=%s" % r.build.proofs_ok)
        return 0 if r.build.proofs_ok and not r.audit_bad else 1
    return r.finish(level="proof", rule="replay", checker_cmd="", explanation="replay of " + path)
