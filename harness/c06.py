"""C06 — functional-group queries are deterministic and pure.

The runtime part of the property is exercised, not modelled: harness/worker_seed.py is started as
fresh interpreters with different PYTHONHASHSEED values.  A query object has a KIND = its construction
parameters (mapper: default / no-wildcard / case-sensitive; configuration: default collection / user
lists incl. lists with effective anti-patterns and explicit group_atoms; require_implicit_hydrogen
True / False — False being the only path on which query.py works on the caller's graph without a
deepcopy).  PURE processes only ever build one kind of object; MIXED processes interleave queries on
objects of all kinds, built at first use in a seed-dependent order (state shared between objects —
module globals, shared providers — shows up as a difference between the two).  Every process sees its
molecules in its own order (different histories of the long-lived objects), asks every query twice on
the long-lived object and (seed-chosen part, at least once per molecule; always for user lists) once on
a freshly built object, and snapshots the caller's graph (node order, attributes, adjacency order, edge
attributes, graph attributes) around every call.  The specification (`C06 det` in the Lean driver):
all answers of one (kind, molecule) from all processes/objects/repetitions are identical and every
snapshot equals the one taken before the call.  A worker whose set-up fails (FGQuery construction,
molecule graph) fails its case; a job without an answer is a machinery failure.

INPUTS OF EVERY FORM the entry point accepts (tags input:*): graphs (RDKit / parser / sparse ids), the SMILES STRING itself
(`get(str)`), ITS graphs of reactions built by the library's own `get_its` with their (g, h) bond labels as tuples, as LISTS
and restored from JSON (node_link_data -> json -> node_link_graph), the reaction SMILES string (for which the library itself
calls `get_its`).  The snapshots are TYPE-SENSITIVE (list vs tuple vs numpy scalar).  ODD INPUTS (tags odd-input:*) — values
on which `get` raises or takes an unusual path: reaction SMILES on a query that needs hydrogens, invalid / empty SMILES, an
empty graph, non-graph values, graphs without symbol / bond labels, ITS graphs on a hydrogen-requiring query — are
interleaved with the normal molecules on the long-lived objects of the MIXED processes (and of half of the default
kind's processes); an exception IS that input's answer (compared across processes like any other), and the answers for
the normal molecules must equal those of the PURE processes, which never see an odd input.
CONFIGURATIONS IN EVERY FORM (tags cfg-form:*): a list of FGConfig objects, a list of dictionaries (anti-patterns written as
lists / one-element anti-patterns as plain strings), a ready FGConfigProvider, a single FGConfig, positional constructor
arguments, the default collection named explicitly.  An alternative form (of the input or of the configuration) must give
the answers of the canonical form (`C06 det … forms` cases: all answers of both forms identical).

The logic part (cache, set-iteration order, sort keys) is modelled (Model/C06.lean, Model/C07.lean)
and proved (Proofs/C06*.lean; `C06.input_untouched` is `rfl` and the functional reading of
`C06.deterministic` is typing — neither is evidence about the code); the model's ORDERED tree (roots
list, children lists) is compared with the trees the processes build (`C06 tree`), and the composed
model with `FGQuery(config=…).get` (`C06 e2e`).
"""
import json
import os
import time

import common
from common import Atom, Case, Run, ImplError, prepare
import c07
import worker_seed

PROOFS = ["FGVerif.Proofs.C06", "FGVerif.Proofs.C06Full", "FGVerif.Proofs.C06Relabel", "FGVerif.Proofs.C06Default",
          "FGVerif.Proofs.C06Total"]

def load_corpus():
    """fixed regression inputs: corpus/C06/molecules.json (witnesses of F4 and K3, sibling-tie molecules)"""
    return [e["smiles"] for e in json.load(open(os.path.join(common.CORPUS_DIR, "C06", "molecules.json")))]


CARBONYL_SUBST = ["", "Cl", "O", "OC", "N", "NC", "N(C)C", "S", "SC", "OO", "OOC", "C", "CC", "c1ccccc1", "OC(C)=O"]
GROUPS = ["C(=O)O", "C(=O)OC", "C(=O)Cl", "C=O", "C(=O)N", "C(=O)NC", "OC", "O", "N", "NC", "N(C)C", "S", "SC",
          "C#N", "N=O", "OO", "OOC", "C(=O)OO", "C(=O)SC", "C(=O)OC(=O)C", "C1OC1", "C(O)OC", "C(OC)OC", "Cl",
          "c1ccccc1", "c1ccccc1O", "c1ccccc1N", "C=CO", "C=C=O", "OC(=O)N", "C(C)(C)O", "C(=O)C", "C(O)(OC)C",
          "OC(=O)Cl", "SC(=O)OC", "C(=O)SC(=O)OC"]


def gen_smiles(rng):
    x = rng.random()
    if x < 0.3:
        # O=C(X)Y family: several carbonyl children compete at the same atoms (sibling ties)
        a, b = rng.choice(CARBONYL_SUBST), rng.choice(CARBONYL_SUBST)
        s = "O=C" + ("(" + a + ")" if a else "") + b
        if rng.random() < 0.3:
            s = rng.choice(["C", "CC", "OC", "ClC"]) + s if not s.startswith("O=C(") else s
        return s, "carbonyl-family"
    parts = []
    n = rng.randint(1, 5)
    for _ in range(n):
        atom = rng.choice(["C", "C", "C", "C", "N", "O"]) if parts else "C"
        g = rng.choice(GROUPS) if rng.random() < 0.6 else None
        parts.append(atom + ("(" + g + ")" if g and atom == "C" else ""))
    s = "".join(parts) + (rng.choice(GROUPS) if rng.random() < 0.7 else "")
    return s, "chain-with-groups"


def gen_mol(rng):
    """-> (mol spec for the worker, id string, tags) or None"""
    from rdkit import Chem
    from rdkit import RDLogger
    RDLogger.DisableLog("rdApp.*")
    s, fam = gen_smiles(rng)
    m = Chem.MolFromSmiles(s)
    if m is None:
        return None
    return spec_for(rng, s, fam)


def spec_for(rng, s, fam):
    x = rng.random()
    if x < 0.65:
        return {"kind": "smiles", "s": s}, s, [fam, "input:smiles"]
    if x < 0.8 and not any(ch in s for ch in "[]@/\\%+"):
        off = rng.choice([0, 0, 1, 3, 7])
        return {"kind": "pattern", "s": s, "offset": off}, "%s@parser+%d" % (s, off), [fam, "input:parser", "offset=%d" % off]
    # explicit graph with sparse, shuffled node ids and shuffled insertion order
    g = worker_seed.mk_graph({"kind": "smiles", "s": s})
    ids = list(g.nodes)
    new = rng.sample(range(0, 3 * len(ids) + 2), len(ids))
    ren = dict(zip(ids, new))
    nodes = [[ren[n], g.nodes[n]["symbol"]] for n in ids]
    rng.shuffle(nodes)
    edges = [[ren[u], ren[v], d["bond"]] for u, v, d in g.edges(data=True)]
    rng.shuffle(edges)
    return {"kind": "graph", "nodes": nodes, "edges": edges}, "%s@ids%s" % (s, new), [fam, "input:graph-sparse-ids"]


def digest(snap):
    return worker_seed.digest(snap)


# share of the cases that goes through each ALTERNATIVE form of an input / a configuration (see the module docstring)
ALT_SHARE = 0.15

# mapped reaction SMILES (the first one is the documentation's example); their ITS graphs are query inputs
RXNS = ["[C:1][C:2](=[O:3])[O:4][C:5].[O:6]>>[C:1][C:2](=[O:3])[O:6].[O:4][C:5]",
        "[CH3:1][Cl:2].[OH2:3]>>[CH3:1][OH:3].[ClH:2]",
        "[CH3:1][C:2](=[O:3])[Cl:4].[NH2:5][CH3:6]>>[CH3:1][C:2](=[O:3])[NH:5][CH3:6].[ClH:4]",
        "[CH3:1][CH:2]=[O:3].[OH2:4]>>[CH3:1][CH:2]([OH:3])[OH:4]",
        "[CH3:1][C:2](=[O:3])[OH:4].[CH3:5][OH:6]>>[CH3:1][C:2](=[O:3])[O:6][CH3:5].[OH2:4]",
        "CC(=O)[OH:1].[CH3:2]O>>CC(=O)[O:1][CH3:2]",
        "[CH3:1][CH2:2][Br:3]>>[CH2:1]=[CH2:2].[BrH:3]",
        "[CH2:1]=[CH2:2].[CH2:3]=[CH:4][CH:5]=[CH2:6]>>[CH2:1]1[CH2:2][CH2:3][CH:4]=[CH:5][CH2:6]1"]
# a configuration whose patterns describe bond CHANGES (queried without hydrogens, as the documentation does)
ITS_CFGS = [{"name": "carbonyl-AE", "pattern": "C(=O)(<0,1>R)<1,0>R"}, {"name": "formed", "pattern": "R<0,1>R"},
            {"name": "broken", "pattern": "R<1,0>R"}, {"name": "co-order-up", "pattern": "C<1,2>O"},
            {"name": "co-order-down", "pattern": "C<2,1>O"}]
# inputs on which `get` raises or takes an unusual path
ODD = [({"kind": "string", "s": "CC>>CC"}, "'CC>>CC'@get(str)", "reaction-smiles-unmapped"),
       ({"kind": "string", "s": "CCO>>CC=O"}, "'CCO>>CC=O'@get(str)", "reaction-smiles-unmapped"),
       ({"kind": "string", "s": "C(C"}, "'C(C'@get(str)", "invalid-smiles"),
       ({"kind": "string", "s": ""}, "''@get(str)", "empty-string"),
       ({"kind": "empty"}, "nx.Graph()", "empty-graph"),
       ({"kind": "value", "v": 42}, "42@get(value)", "non-graph-value"),
       ({"kind": "value", "v": None}, "None@get(value)", "non-graph-value"),
       ({"kind": "value", "v": ["C", "O"]}, "['C','O']@get(value)", "non-graph-value"),
       ({"kind": "graph", "nodes": [[0, "C"], [1, None], [2, "O"]], "edges": [[0, 1, 1], [1, 2, 1]]}, "C-?-O(symbol=None)", "graph-without-symbol"),
       ({"kind": "graph", "nodes": [[0, "C"], [1, None], [2, "O"]], "edges": [[0, 1, 1], [1, 2, 1]], "no_symbol_attr": True},
        "C-?-O(no symbol attribute)", "graph-without-symbol"),
       ({"kind": "graph", "nodes": [[0, "C"], [1, "O"]], "edges": [[0, 1, None]], "no_bond_attr": True}, "C?O(no bond attribute)", "graph-without-bond"),
       ({"kind": "graph", "nodes": [[0, "C"], [1, "O"]], "edges": [[0, 1, None]]}, "C?O(bond=None)", "graph-without-bond")]


def gen_rxn(rng, s):
    """a fully mapped reaction SMILES made from a molecule: one bond is broken (or, reversed, formed)"""
    from rdkit import Chem
    m = Chem.MolFromSmiles(s)
    if m is None or m.GetNumBonds() == 0:
        return None
    for a in m.GetAtoms():
        a.SetAtomMapNum(a.GetIdx() + 1)
    rw = Chem.RWMol(m)
    b = rng.choice(list(m.GetBonds()))
    rw.RemoveBond(b.GetBeginAtomIdx(), b.GetEndAtomIdx())
    try:
        prod = rw.GetMol()
        Chem.SanitizeMol(prod)
        a, b_ = Chem.MolToSmiles(m), Chem.MolToSmiles(prod)
    except Exception:
        return None
    return (a + ">>" + b_) if rng.random() < 0.5 else (b_ + ">>" + a)


def its_mols(rsmi, origin):
    """one reaction in all the forms in which its ITS graph reaches `get` -> [(spec, id, tags, form)]"""
    base = [origin, "its"]
    return [({"kind": "its", "s": rsmi, "labels": "tuple"}, rsmi + "@its", base + ["input:its-graph", "its-labels:tuple"], "its-tuple"),
            ({"kind": "its", "s": rsmi, "labels": "list"}, rsmi + "@its[list labels]", base + ["input:its-graph", "its-labels:list"], "its-list"),
            ({"kind": "its", "s": rsmi, "labels": "json"}, rsmi + "@its[json round trip]", base + ["input:its-graph-from-json", "its-labels:list"], "its-json"),
            ({"kind": "string", "s": rsmi}, "'%s'@get(str)" % rsmi, base + ["input:reaction-smiles-string"], "its-string")]


def enc_answer(a):
    if isinstance(a, dict):
        return [Atom("raised"), Atom(a.get("raised", "Other"))]
    return [[name, [int(i) for i in ids]] for name, ids in a]


# ---------------------------------------------------------------------------
# kinds of query objects: the construction parameters of FGQuery
# ---------------------------------------------------------------------------
MAPPERS = {"default": None,                 # FGQuery's own default: PermutationMapper(wildcard="R", ignore_case=True)
           "strict": [None, True],          # PermutationMapper(wildcard=None, ignore_case=True): 'R' is an ordinary symbol
           "R-case": ["R", False]}          # PermutationMapper(wildcard="R", ignore_case=False)


def mk_kind(kid, mapper="default", cfgs=None, rh=True, tags=(), cfg_form=None, anti_as=None, ctor=None, canon=None):
    """cfg_form / anti_as / ctor: the FORM in which the same construction parameters are handed to FGQuery
    (worker_seed.mk_query); canon = id of the kind that is the canonical form of this one (same answers expected)"""
    form_tags = ["cfg-form:" + (cfg_form or ("list-of-FGConfig" if cfgs is not None else "config=None"))] + \
        (["cfg-form:anti-pattern-written-as-" + anti_as] if anti_as else []) + (["cfg-form:positional-arguments"] if ctor else []) + \
        (["alternative-form-of-a-configuration"] if canon else [])
    return {"id": kid, "mapper_name": mapper, "mapper": MAPPERS[mapper], "cfgs": cfgs, "require_h": bool(rh),
            "cfg_form": cfg_form, "anti_as": anti_as, "ctor": ctor, "canon": canon,
            "tags": ["kind:" + ("default-config" if cfgs is None else "user-config"), "mapper:" + mapper,
                     "requireH=%d" % int(bool(rh))] + form_tags + list(tags)}


KIND_KEYS = ("id", "mapper_name", "mapper", "cfgs", "require_h", "cfg_form", "anti_as", "ctor", "canon")


def kind_from_meta(k):
    k = k or {}
    return mk_kind(k.get("id", "default"), k.get("mapper_name", "default"), k.get("cfgs"), k.get("require_h", True),
                   cfg_form=k.get("cfg_form"), anti_as=k.get("anti_as"), ctor=k.get("ctor"), canon=k.get("canon"))


def query_job(kind, mol, fresh=True):
    return {"op": "query", "mol": mol, "obj": kind["id"], "mapper": kind["mapper"], "cfgs": kind["cfgs"],
            "require_h": kind["require_h"], "cfg_form": kind.get("cfg_form"), "anti_as": kind.get("anti_as"),
            "ctor": kind.get("ctor"), "fresh": bool(fresh)}


def alt_form_kind(rng, kd, k):
    """the same construction parameters as kind kd, handed over in another documented form"""
    cfgs = kd["cfgs"]
    if cfgs is None:
        form, anti, ctor = [("provider", None, None), ("default-dicts", "str", None), ("default-objs", None, "positional"),
                            ("default-dicts", "list", None), (None, None, "positional")][k % 5]
    else:
        opts = [("dicts", "str", None), ("dicts", "list", None), ("provider", "str", None), ("objs", None, "positional")]
        if len(cfgs) == 1 and kd.get("cfg_form") != "single":
            opts = [("single", None, None)] + opts
        form, anti, ctor = opts[k % len(opts)]
    name = "%s~%s%s%s" % (kd["id"], form or "objs", "/anti-" + anti if anti else "", "/positional" if ctor else "")
    return mk_kind(name, kd["mapper_name"], cfgs, kd["require_h"], tags=[t for t in kd["tags"] if t.startswith("user:")],
                   cfg_form=form, anti_as=anti, ctor=ctor, canon=kd["id"])


DEFAULT_KIND = mk_kind("default")


def run_of(seed, res):
    """one worker answer -> [seed, answers, snapshot digests] as `C06 det` reads it.  A failure in the set-up
    (building the FGQuery object or the molecule graph in the worker, on an input the harness itself could build)
    is NOT dropped: it is an answer `(raised Setup…)` with a snapshot digest that can never equal the one taken
    before the call, so the case fails."""
    if "same1" not in res:
        why = res.get("raised_in_setup") or ("WorkerError" if "worker_error" in res else "NoAnswer")
        return [seed, [[Atom("raised"), Atom("Setup" + str(why))]], ["setup-failed"]], False, True, True
    keys = ("same1", "same2") + (("fresh",) if res.get("fresh") is not None else ())
    snaps_k = ("before", "after1", "after2") + (("fresh_before", "fresh_after") if res.get("fresh") is not None else ())
    answers = [enc_answer(res[k]) for k in keys]
    nonempty = any(isinstance(res[k], list) and res[k] for k in keys)
    raised = any(isinstance(res[k], dict) for k in keys)
    return [seed, answers, [str(res[k]) for k in snaps_k]], nonempty, raised, False


def det_case(mol, mol_id, tags, per_run, before, kind=None):
    """per_run: [(hashseed, worker answer, process label)]; one case per (kind of query object, molecule)"""
    kind = kind or DEFAULT_KIND
    if not per_run:
        raise RuntimeError("no worker answered (%s, %s): the harness lost a job" % (kind["id"], mol_id))
    impl = []
    any_answer = raised = setup_failed = False
    sigs = []
    for seed, res, label in per_run:
        one, ne, ra, sf = run_of(seed, res)
        impl.append(one)
        sigs.append(json.dumps(one[1:], sort_keys=True, default=str))
        any_answer, raised, setup_failed = any_answer or ne, raised or ra, setup_failed or sf
    cid = mol_id if kind["id"] == "default" else "%s | kind=%s" % (mol_id, kind["id"])
    req = [Atom("C06"), Atom("det"), cid, before]
    meta = {"mol": mol, "id": mol_id, "hashseeds": [s for s, _, _ in per_run],
            "kind": {k: kind.get(k) for k in KIND_KEYS},
            "processes": [l for _, _, l in per_run],
            "graph_changed": sorted({str(r.get("changed")) for _, r, _ in per_run if r.get("changed")})[:3],
            "answers_by_process": {l: [r.get("same1"), r.get("same2"), r.get("fresh")] if "same1" in r else r
                                   for _, r, l in per_run}}
    t = list(tags) + list(kind["tags"]) + (["answer:nonempty"] if any_answer else ["answer:empty"]) + \
        (["answer:raised"] if raised else []) + (["worker-setup-failed"] if setup_failed else [])
    c = Case(req, impl, meta=meta, nontrivial_key=(kind["id"], mol_id) if any_answer else None, compare_model=False, tags=t)
    return c, sigs


def forms_case(what, a_id, b_id, runs_a, runs_b, tags, meta):
    """an ALTERNATIVE form (b) of an input or of a configuration must give the answers of the CANONICAL form (a): one
    `C06 det` case over the answers of both (no snapshots: purity is judged in the cases of the two forms themselves)"""
    impl = []
    nonempty = False
    sigs = []
    for seed, res, label in list(runs_a) + list(runs_b):
        one, ne, _ra, _sf = run_of(seed, res)
        impl.append([one[0], one[1], []])
        sigs.append(json.dumps(one[1], sort_keys=True, default=str))
        nonempty = nonempty or ne
    cid = "%s == %s" % (b_id, a_id)
    req = [Atom("C06"), Atom("det"), cid, "-"]
    m = dict(meta)
    m.update({"forms": what, "id": cid, "canonical": a_id, "alternative": b_id,
              "answers_canonical": {l: r.get("same1") for _, r, l in runs_a}, "answers_alternative": {l: r.get("same1") for _, r, l in runs_b}})
    t = list(tags) + ["forms:" + what, "answer:nonempty" if nonempty else "answer:empty"]
    return Case(req, impl, meta=m, nontrivial_key=("forms", a_id, b_id) if nonempty else None, compare_model=False, tags=t), sigs


def tree_view(res, inv):
    if "raised" in res:
        return ("raised", res["raised"])
    if "children" not in res or any(c is None for c in res["children"]):
        return ("raised", "Harness")
    n = res["n"]
    roots = tuple(inv[i] for i in res["roots"])
    children = [None] * n
    for i in range(n):
        children[inv[i]] = tuple(inv[j] for j in res["children"][i])
    return (roots, tuple(children))


def tree_cases(info, order, results_by_seed, envseed, tags):
    """one case per tree job: the implementation output is the list of DISTINCT ordered trees the
    processes produced (exactly one when the build is deterministic)"""
    inv = {b: p for p, b in enumerate(order)}
    groups = {}
    for seed, res in results_by_seed:
        groups.setdefault(tree_view(res, inv), []).append(seed)
    cfgs_perm = [info.enc[b] for b in order]
    impl = []
    seeds_of = []
    for out, seeds in sorted(groups.items(), key=lambda kv: str(kv[0])):
        if out[0] == "raised":
            impl.append([Atom("raised"), Atom(out[1])])
        else:
            impl.append([list(out[0]), [list(c) for c in out[1]]])
        seeds_of.append(seeds)
    req = [Atom("C06"), Atom("tree"), c07.MAPPER, cfgs_perm, envseed]
    meta = {"cfgs": None if info.is_default else info.dicts, "patterns": [d["pattern"] for d in info.dicts],
            "order": list(order), "hashseeds": sorted(s for ss in seeds_of for s in ss),
            "hashseeds_per_distinct_tree": seeds_of, "distinct_trees_among_seeds": len(groups)}
    t = set(tags) | {"tree"}
    if len(groups) > 1:
        t.add("trees-differ-between-seeds")
    return [Case(req, impl, in_domain=info.in_domain, meta=meta,
                 nontrivial_key=("tree", tuple(meta["patterns"]), tuple(order)), tags=sorted(t))]


def e2e_cfg_wire(d):
    """one config dict -> the arguments of FGConfig.__init__ on the wire (graphs parsed by the real parser,
    anti-patterns in the order given)"""
    from fgutils.parse import Parser
    anti = d.get("anti_pattern", [])
    anti = anti if isinstance(anti, list) else [anti]
    ga = d.get("group_atoms")
    return [d["name"], d["pattern"], common.enc_graph(Parser().parse(d["pattern"])),
            None if ga is None else [int(x) for x in ga], [common.enc_graph(Parser()(p)) for p in anti],
            None if d.get("depth") is None else int(d["depth"])]


E2E_FORMS = ["objs", "dicts-str", "dicts-list", "provider"]


def e2e_case(dicts, order, mol, mol_id, rh, envseed, tags, form="objs"):
    """END-TO-END correspondence: `FGQuery(config=…, require_implicit_hydrogen=rh).get(mol)` of the code against the
    composed model `C06.fgQueryGetM` (tree builder + adapter + query) — exact output.  form = how the configuration is
    handed over: list of FGConfig objects (canonical) | list of dictionaries with one-element anti-patterns as plain
    strings / all anti-patterns as lists | a ready FGConfigProvider — the model always gets the documented meaning"""
    from fgutils.fgconfig import FGConfig, FGConfigProvider
    from fgutils.permutation import PermutationMapper
    from fgutils.query import FGQuery
    ordered = [dicts[i] for i in order]
    g = worker_seed.mk_graph(mol)

    def real():
        if form == "dicts-str":
            cfg = worker_seed.anti_as(ordered, "str")
        elif form == "dicts-list":
            cfg = worker_seed.anti_as(ordered, "list")
        elif form == "provider":
            cfg = FGConfigProvider(worker_seed.anti_as(ordered, "str"), mapper=PermutationMapper(wildcard="R", ignore_case=True))
        else:
            cfg = [FGConfig(**dict(d)) for d in ordered]
        q = FGQuery(config=cfg, require_implicit_hydrogen=rh)
        return [[name, [int(i) for i in ids]] for name, ids in q.get(g)]

    out = common.call_impl(real)
    req = [Atom("C06"), Atom("e2e"), c07.MAPPER, [e2e_cfg_wire(d) for d in ordered], envseed, common.enc_graph(g), bool(rh)]
    nonempty = isinstance(out, list) and len(out) > 0
    meta = {"e2e": {"cfgs": dicts, "order": list(order), "mol": mol, "id": mol_id, "require_h": bool(rh), "envseed": envseed, "form": form}}
    t = list(tags) + ["e2e", "e2e:answer-nonempty" if nonempty else ("e2e:raised" if isinstance(out, ImplError) else "e2e:answer-empty"),
                      "e2e:requireH=%d" % int(bool(rh)), "e2e:cfg-form:" + form]
    return Case(req, out, meta=meta, tags=t,
                nontrivial_key=("e2e", tuple(d["pattern"] for d in ordered), mol_id, bool(rh)) if nonempty else None)


def e2e_with_group_atoms(rng, dicts):
    """a copy of the list in which some entries get an explicit `group_atoms` subset"""
    from fgutils.parse import Parser
    out = []
    for d in dicts:
        d = dict(d)
        if "group_atoms" not in d and rng.random() < 0.35:
            nodes = list(Parser().parse(d["pattern"]).nodes)
            k = rng.randint(1, len(nodes))
            d["group_atoms"] = sorted(rng.sample(nodes, k))
        out.append(d)
    return out


def histories_for(runs, procs):
    """runs: [(process label, hashseed, process index, position, answer signature)] of one failing (kind, molecule)
    case -> for one process per DISTINCT answer (at most four; a pure process first): everything that process was
    asked up to and including the failing query, so that the replay can rebuild the same history"""
    out = []
    seen = set()
    for label, s, pi, pos, sig in sorted(runs, key=lambda x: (not x[0].startswith("pure"), x[0])):
        if sig in seen or len(out) >= 4:
            continue
        seen.add(sig)
        out.append({"process": label, "hashseed": s, "jobs": procs[pi][2][:pos + 1]})
    return out


def plan_seeds(rng, tier):
    if tier == "quick":
        return [0, 1, 2, 3, 4, rng.randrange(5, 2 ** 32 - 1)]
    return [0, 1, 2, 3, 4] + [rng.randrange(5, 2 ** 32 - 1) for _ in range(27)]


def default_subset_cfgs(rng):
    """a user configuration that yields non-empty answers on ordinary molecules: a random part of the default
    collection (with its group_atoms and anti-patterns), renamed and shuffled"""
    from fgutils.fgconfig import _default_fg_config
    k = rng.randint(6, 14)
    part = [dict(d) for d in rng.sample(list(_default_fg_config), k)]
    for d in part:
        d["name"] = "u_" + d["name"]
    return part


def build_molecules(rng, r, n_gen, n_rxn=4):
    """-> [(mol spec, id, tags, digest of the snapshot before any call)], …, {"canon_of": {alternative form -> canonical form},
    "its": indices of ITS inputs, "odd": indices of odd inputs}; a molecule the HARNESS cannot build is a
    generator refusal (counted); every molecule returned here can be built, so a worker that cannot is a failure"""
    mols = []
    corpus = load_corpus()
    for s in corpus:
        mols.append(({"kind": "smiles", "s": s}, s, ["corpus", "input:smiles"]))
    for s in corpus[:6]:
        mols.append(spec_for(rng, s, "corpus"))
    # explicit hydrogen atoms in the input (the query must not treat such a graph differently:
    # it still has to work on a copy) — written in the pattern syntax, where H is an atom
    for s in ["OCC(=O)H", "C(H)(H)(H)OCCO", "NC(H)=O", "C(H)(H)(H)O", "C(H)(H)(H)C(=O)OC(H)(H)H", "OC(H)(C)C",
              "N(H)(H)CC(=O)O(H)", "C(H)(=O)Cl", "O(H)CC(H)(H)N(H)C", "C(H)(H)=C(H)O(H)"]:
        mols.append(({"kind": "pattern", "s": s, "offset": rng.choice([0, 0, 2])}, s + "@explicitH", ["explicit-H", "input:parser"]))
    # element symbols whose concatenation is ambiguous ('Si' vs 'S','I'; 'Sn' vs 'S','N'): answers must
    # not depend on which of two such neighbourhoods the same query object has seen before
    for X, x1, x2 in (("Si", "S", "I"), ("Sn", "S", "N")):
        for Z in ("N", "O", "C", "P"):
            for rest in ([], ["C"], ["C", "C"], ["O"]):
                for nb in ([X] + rest, [x1, x2] + rest):
                    nodes = [[0, Z]] + [[i + 1, sym] for i, sym in enumerate(nb)]
                    edges = [[0, i + 1, 1] for i in range(len(nb))]
                    mols.append(({"kind": "graph", "nodes": nodes, "edges": edges}, "%s(%s)" % (Z, ",".join(nb)),
                                 ["ambiguous-symbol-concatenation", "input:graph"]))
    refused = 0
    seen = set()
    out = []
    fixed_tags = ("corpus", "explicit-H", "ambiguous-symbol-concatenation", "odd-input", "its-corpus")

    def admit(m):
        if m[1] in seen:
            return None
        seen.add(m[1])
        try:
            before = digest(worker_seed.snapshot(worker_seed.mk_graph(m[0])))
        except Exception as e:
            if any(t in m[2] for t in fixed_tags):
                raise RuntimeError("fixed molecule %r cannot be built: %r" % (m[1], e))
            r.count("generator:molecule-refused:" + type(e).__name__)
            return None
        out.append((m[0], m[1], m[2], before))
        return len(out) - 1

    for m in mols:
        admit(m)
    n_fixed = len(out)
    tries = 0
    while len(out) < n_fixed + n_gen and tries < 50 * n_gen:
        tries += 1
        m = gen_mol(rng)
        if m is None:
            refused += 1
            continue
        admit(m)
    # ---- alternative FORM of the input: the SMILES string itself is handed to get (entry point get(str)) -----------
    canon_of = {}
    smiles_idx = [i for i, m in enumerate(out) if m[0]["kind"] == "smiles"]
    for i in [i for i in smiles_idx if "corpus" in out[i][2]][:4] + [i for i in smiles_idx if rng.random() < ALT_SHARE]:
        spec, mid, tags, _ = out[i]
        j = admit(({"kind": "string", "s": spec["s"]}, "'%s'@get(str)" % spec["s"],
                   [t for t in tags if not t.startswith("input:")] + ["input:smiles-string", "alternative-form-of-an-input"]))
        if j is not None:
            canon_of[j] = i
    # ---- the graph as callers really hold it: restored from a JSON document / carrying attributes of their own (lists,
    #      tuples, dicts on nodes, edges and the graph): same answers, and nothing of it may change
    for i in [i for i in smiles_idx if rng.random() < ALT_SHARE]:
        spec, mid, tags, _ = out[i]
        via = rng.choice(["json", "decorated"])
        j = admit((dict(spec, via=via), "%s@%s" % (spec["s"], via),
                   [t for t in tags if not t.startswith("input:")] + ["input:graph-" + ("restored-from-json" if via == "json" else "with-callers-own-attributes"),
                                                                      "alternative-form-of-an-input"]))
        if j is not None:
            canon_of[j] = i
    # ---- ITS graphs of reactions, in every form in which they reach get --------------------------------------------
    its_idx = []
    rxns = [(x, "its-corpus") for x in RXNS]
    plain_smiles = [out[i][0]["s"] for i in smiles_idx]
    tries = 0
    while len(rxns) < len(RXNS) + n_rxn and tries < 20 * n_rxn:
        tries += 1
        x = gen_rxn(rng, rng.choice(plain_smiles))
        if x is not None and x not in [y for y, _ in rxns]:
            rxns.append((x, "its-generated"))
    for rsmi, origin in rxns:
        idx = {}
        try:
            worker_seed.mk_graph({"kind": "its", "s": rsmi})
        except Exception as e:
            if origin == "its-corpus":
                raise RuntimeError("fixed reaction %r cannot be built: %r" % (rsmi, e))
            r.count("generator:reaction-refused:" + type(e).__name__)
            continue
        for spec, mid, tags, form in its_mols(rsmi, origin):
            j = admit((spec, mid, tags))
            if j is not None:
                idx[form] = j
                its_idx.append(j)
        # same answers expected: the reaction SMILES string and the ITS graph the library builds from it; the list-labelled
        # graph and the graph restored from JSON
        if "its-string" in idx and "its-tuple" in idx:
            canon_of[idx["its-string"]] = idx["its-tuple"]
        if "its-json" in idx and "its-list" in idx:
            canon_of[idx["its-json"]] = idx["its-list"]
    # ---- odd inputs ------------------------------------------------------------------------------------------------
    odd_idx = []
    for spec, mid, what in ODD:
        j = admit((spec, mid, ["odd-input", "odd-input:" + what, "input:" + spec["kind"]]))
        odd_idx.append(j)
    return out, refused, len(corpus), {"canon_of": canon_of, "its": its_idx, "odd": odd_idx}


def run(tier, seed):
    r = Run("C06", tier, seed)
    if not prepare(r, PROOFS, "C06"):
        return 2
    rng = r.rng
    seeds = plan_seeds(rng, tier)
    quick = tier == "quick"
    n_mols = 150 if quick else 3000
    per_mol_seeds = len(seeds) if quick else 5
    # ---- molecules ---------------------------------------------------------------------------------
    mols, refused, n_corpus_mols, minfo = build_molecules(rng, r, n_mols, n_rxn=4 if quick else 40)
    canon_of = minfo["canon_of"]
    its_set, odd_set = set(minfo["its"]), set(minfo["odd"])
    # ---- trees (ordered structure) -----------------------------------------------------------------
    infos = []
    from fgutils.fgconfig import _default_fg_config
    nd = len(_default_fg_config)
    o1 = list(range(nd))
    rng.shuffle(o1)
    tree_plans = [(None, [list(range(nd)), list(reversed(range(nd))), o1], {"default-list"})]
    for _ in range(20 if quick else 200):
        pats, tags = c07.gen_list(rng)
        dicts = [{"name": "g%d" % i, "pattern": p} for i, p in enumerate(pats)]
        o = list(range(len(pats)))
        rng.shuffle(o)
        tree_plans.append((dicts, [list(range(len(pats))), o], set(tags) | {"generated"}))
    # lists whose anti-patterns exclude would-be descendants (C07's corpus + generator): the ORDERED tree and the
    # end-to-end answers must follow the veto as well
    anti_lists = [(d, {"corpus"}) for d in c07.load_corpus() if any("anti_pattern" in c for c in d)]
    for _ in range(8 if quick else 80):
        d, tags = c07.gen_anti_list(rng)
        anti_lists.append((d, set(tags) | {"generated"}))
    for dicts, tags in anti_lists:
        o = list(range(len(dicts)))
        rng.shuffle(o)
        tree_plans.append((dicts, [list(range(len(dicts))), o], set(tags) | {"has-anti-pattern"}))
    for dicts, orders, tags in tree_plans:
        try:
            infos.append((c07.ListInfo(dicts), orders, tags))
        except Exception as e:
            r.count("generator:list-refused-by-parser:" + type(e).__name__)
            continue
    tree_jobs = []
    tree_index = []
    tree_subs = []
    for li, (info, orders, tags) in enumerate(infos):
        # the list is submitted in its documented forms, one per order (c07.forms_for); the ORDERED tree must be the model's
        subs = [f if f["form"] != "direct" else c07.submission("objs") for f in c07.forms_for(info, len(orders), li, rng)]
        for oi, order in enumerate(orders):
            tree_jobs.append(c07.tree_job(info, order, subs[oi]))
            tree_index.append((li, oi))
            tree_subs.append(subs[oi])
    # ---- kinds of query objects --------------------------------------------------------------------
    # default configuration under the three mappers and both values of require_implicit_hydrogen
    # (require_implicit_hydrogen=False is the only path on which query.py works on the CALLER's graph: no deepcopy)
    kinds = [DEFAULT_KIND, mk_kind("strict", "strict"), mk_kind("R-case", "R-case"),
             mk_kind("default-noH", rh=False), mk_kind("strict-noH", "strict", rh=False)]
    # user configurations: parts of the default collection, anti-pattern families, generated lists (with group_atoms)
    gen_infos = [(info, tags) for info, _, tags in infos if not info.is_default]
    n_user = 6 if quick else 30
    user_lists = []
    for k in range(n_user):
        x = k % 3
        if x == 0:
            user_lists.append((default_subset_cfgs(rng), "default-subset"))
        elif x == 1:
            cand = [i for i, t in gen_infos if i.has_anti and i.in_domain]
            user_lists.append((e2e_with_group_atoms(rng, rng.choice(cand).dicts), "anti-list") if cand
                              else (default_subset_cfgs(rng), "default-subset"))
        else:
            cand = [i for i, t in gen_infos if i.in_domain] or [i for i, t in gen_infos]
            user_lists.append((e2e_with_group_atoms(rng, rng.choice(cand).dicts), "generated-list"))
    for k, (cfgs, what) in enumerate(user_lists):
        mp = rng.choice(["default", "default", "strict", "R-case"])
        for rh in (True, False):
            kinds.append(mk_kind("user%d-%s-%s-H%d" % (k, what, mp, int(rh)), mp, cfgs, rh, tags=["user:" + what]))
    # configurations that describe bond CHANGES (ITS graphs are their inputs), as a list and as the documentation's single FGConfig
    kinds.append(mk_kind("its-config-H0", "default", ITS_CFGS, False, tags=["user:its-patterns"]))
    kinds.append(mk_kind("its-config-H1", "default", ITS_CFGS, True, tags=["user:its-patterns"]))
    kinds.append(mk_kind("its-single-H0", "default", ITS_CFGS[:1], False, tags=["user:its-patterns"], cfg_form="single"))
    # ALTERNATIVE FORMS of the same configuration (must give the answers of the canonical kind): every default-config kind
    # and every user list in one seed-chosen other form
    n_canon = len(kinds)
    alt_src = [ki for ki in range(n_canon) if kinds[ki]["cfgs"] is None]
    by_list = {}
    for ki in range(n_canon):
        if kinds[ki]["cfgs"] is not None:
            by_list.setdefault(json.dumps(kinds[ki]["cfgs"], sort_keys=True), []).append(ki)
    alt_src += [rng.choice(v) for v in by_list.values()]
    rot = rng.randrange(20)
    canon_kind = {}
    for k, ki in enumerate(alt_src):
        kinds.append(alt_form_kind(rng, kinds[ki], k + rot))
        canon_kind[len(kinds) - 1] = ki
    # ---- which molecules each kind is asked ----------------------------------------------------------
    n_sub = 36 if quick else 300
    n_user_mols = 14 if quick else 40
    special = its_set | odd_set
    fixed = [mi for mi, m in enumerate(mols) if mi not in special and ("corpus" in m[2] or "explicit-H" in m[2])]
    rest = [mi for mi in range(len(mols)) if mi not in special and mi not in set(fixed)]
    expl = [mi for mi, m in enumerate(mols) if "explicit-H" in m[2]]
    its_list, odd_list = sorted(its_set), sorted(odd_set)
    rxn_strings = [mi for mi in its_list if mols[mi][0]["kind"] == "string"] + [mi for mi in odd_list if "odd-input:reaction-smiles-unmapped" in mols[mi][2]]
    its_tuple = [mi for mi in its_list if "its-labels:tuple" in mols[mi][2]]

    def is_odd(ki, mi):
        """an input on which THIS kind of object raises or leaves its usual path: asked only in the processes that are
        allowed to see odd inputs (the PURE reference processes never do)"""
        return mi in odd_set or (mi in its_set and kinds[ki]["require_h"])

    def sample(pop, k):
        return rng.sample(pop, min(len(pop), k))

    def with_canon(ms):
        return sorted(set(ms) | {canon_of[mi] for mi in ms if mi in canon_of})

    mols_of = {}
    for ki, kd in enumerate(kinds):
        if ki in canon_kind:
            continue
        its_cfg = "user:its-patterns" in kd["tags"]
        if ki == 0:
            base = [mi for mi in range(len(mols)) if mi not in special]
        elif kd["cfgs"] is None:
            pick = sample(fixed, n_sub // 2)
            base = pick + expl[:4] + sample(rest, n_sub - len(pick))
        elif its_cfg:
            base = sample(fixed, 3) + sample(rest, 3)
        else:
            pick = sample(fixed, n_user_mols // 2)
            base = pick + sample(expl, 2) + sample(rest, n_user_mols - len(pick))
        # ITS graphs (all forms of a reaction together): normal inputs for a query without hydrogens, odd ones otherwise
        n_its = len(its_tuple) if kd["id"] == "its-config-H0" else 6 if kd["id"] == "default-noH" else 4 if its_cfg and not kd["require_h"] \
            else 2 if not kd["require_h"] else 1
        its_pick = []
        for t in sample(its_tuple, n_its):
            rs = mols[t][0]["s"]
            its_pick += [mi for mi in its_list if mols[mi][0]["s"] == rs]
        # odd inputs: always one reaction SMILES string, plus a sample of the others
        odd_pick = [rng.choice(rxn_strings)] + sample(odd_list, len(odd_list) if ki == 0 else 3)
        mols_of[ki] = with_canon(base + its_pick + odd_pick)
    for ka, kc in canon_kind.items():
        normal = [mi for mi in mols_of[kc] if not is_odd(kc, mi)]
        mols_of[ka] = with_canon(sample(normal, 10 if kinds[kc]["cfgs"] is None else 7) + sample([mi for mi in mols_of[kc] if is_odd(kc, mi)], 1))
    mixed_default = sorted(set(sample(fixed, n_sub // 2) + sample(rest, n_sub // 2) + [mi for mi in mols_of[0] if is_odd(0, mi)]))
    # ---- processes: (label, hashseed, [job], [key]) ----------------------------------------------------
    # PURE processes only ever build one kind of query object and NEVER see an odd input (the reference); PURE+ODD processes
    # (default kind, every other hash seed) and MIXED processes get the odd inputs interleaved with the normal molecules on
    # the same long-lived objects; MIXED processes interleave queries on objects of ALL kinds (incl. the alternative forms),
    # the objects being built at their first use, in a seed-dependent order; TREE processes build the hierarchies.
    # Every (kind, molecule) must receive the same answers everywhere.
    procs = []
    t0 = time.time()
    shards_per_seed = 3 if quick else 1
    default_normal = [mi for mi in mols_of[0] if not is_odd(0, mi)]
    default_odd = [mi for mi in mols_of[0] if is_odd(0, mi)]
    fresh_home = {mi: rng.randrange(len(seeds)) if quick else (mi - rng.randrange(per_mol_seeds)) % len(seeds)
                  for mi in range(len(mols))}

    def early_trigger(keys, start=0):
        """move one reaction-SMILES query per kind into the first fifth of the job list (after `start`): the normal
        molecules that follow it on the same object are the ones a history effect would show on"""
        seen_k = set()
        for ki_ in sorted({k[1] for k in keys}):
            cand = [i for i, k in enumerate(keys) if k[1] == ki_ and k[2] in rxn_strings and i >= start]
            if not cand or ki_ in seen_k:
                continue
            seen_k.add(ki_)
            i = rng.choice(cand)
            k = keys.pop(i)
            keys.insert(rng.randint(start, start + max(1, (len(keys) - start) // 5)), k)
        return keys

    for si, s in enumerate(seeds):
        mine = [mi for mi in default_normal if quick or (mi - si) % len(seeds) < per_mol_seeds]
        order = list(mine)
        rng.shuffle(order)
        with_odd = si % 2 == 1
        for sh in range(shards_per_seed):
            part = [mi for k, mi in enumerate(order) if k % shards_per_seed == sh]
            if with_odd:
                part += [mi for k, mi in enumerate(default_odd) if k % shards_per_seed == sh]
                rng.shuffle(part)
                part = [k[2] for k in early_trigger([("q", 0, mi) for mi in part])]
            # a fresh default object costs a full tree build (~0.3 s): asked for every molecule in one of its processes
            # (its "home" seed) and for a twentieth of the molecules in each of the others
            jobs = [query_job(kinds[0], mols[mi][0], fresh=(fresh_home[mi] == si or rng.random() < 0.05)) for mi in part]
            procs.append(("%s:default/seed%d/%d" % ("pure+odd" if with_odd else "pure", s, sh), s, jobs, [("q", 0, mi) for mi in part]))
        tj = [ji for ji in range(len(tree_jobs)) if quick or (ji + si) % 4 == 0]
        procs.append(("trees/seed%d" % s, s, [tree_jobs[ji] for ji in tj], [("tree", ji, None) for ji in tj]))
    for ki, kd in enumerate(kinds):
        if ki == 0 or ki in canon_kind:
            continue        # (the alternative forms live in the mixed processes; their reference is the canonical kind)
        cheap = kd["cfgs"] is not None
        for rep in range(1 if quick else 2):
            s = seeds[(ki + 3 * rep) % len(seeds)]
            part = [mi for mi in mols_of[ki] if not is_odd(ki, mi)]
            rng.shuffle(part)
            jobs = [query_job(kd, mols[mi][0], fresh=cheap or rng.random() < 0.5) for mi in part]
            procs.append(("pure:%s/seed%d" % (kd["id"], s), s, jobs, [("q", ki, mi) for mi in part]))
    n_mixed = len(seeds) if quick else 16
    mixed_half = {(ki, mi): rng.randrange(2) for ki in range(len(kinds)) for mi in mols_of[ki]}
    for j in range(n_mixed):
        s = seeds[j % len(seeds)]
        # every (kind, input) pair is asked in every other mixed process (its own half of them), the odd inputs in all of them
        pairs = [(ki, mi) for ki in range(1, len(kinds)) for mi in mols_of[ki] if is_odd(ki, mi) or mixed_half[(ki, mi)] == j % 2] + \
                [(0, mi) for mi in mixed_default if is_odd(0, mi) or mixed_half[(0, mi)] == j % 2]
        rng.shuffle(pairs)
        # the first queries: one per kind, in a random order of the kinds -> the long-lived objects are BUILT in that order
        first = list(range(len(kinds)))
        rng.shuffle(first)
        head = []
        for ki in first:
            k = next((i for i, p_ in enumerate(pairs) if p_[0] == ki), None)
            if k is not None:
                head.append(pairs.pop(k))
        keys = early_trigger([("q", ki, mi) for ki, mi in head + pairs], start=len(head))
        pairs = [(k[1], k[2]) for k in keys]
        jobs = [query_job(kinds[ki], mols[mi][0], fresh=(kinds[ki]["cfgs"] is not None or rng.random() < 0.05)) for ki, mi in pairs]
        procs.append(("mixed%d/seed%d" % (j, s), s, jobs, [("q", ki, mi) for ki, mi in pairs]))
    order_p = sorted(range(len(procs)), key=lambda i: -sum(3 if (j.get("fresh") and j.get("cfgs") is None) else 1 for j in procs[i][2]))
    results = c07.run_workers([(procs[i][1], procs[i][2]) for i in order_p])
    r.notes["worker_wall_s"] = round(time.time() - t0, 1)
    r.extra_cov["slowest_worker_processes_(s, hashseed, jobs)"] = sorted(c07.LAST_TIMES, reverse=True)[:8]
    by_q = {}
    by_tree = {}
    for i, res in zip(order_p, results):
        label, s, jobs, keys = procs[i]
        for pos, ((kind_, a, b_), one) in enumerate(zip(keys, res)):
            if kind_ == "q":
                by_q.setdefault((a, b_), []).append((s, one, label, i, pos))
            else:
                by_tree.setdefault(a, []).append((s, one))
    # ---- cases -------------------------------------------------------------------------------------
    cases = []
    where = {}
    setup_failed = 0
    runs_of = {}
    for ki, kd in enumerate(kinds):
        for mi in mols_of[ki]:
            mol, mol_id, tags, before = mols[mi]
            runs = sorted(by_q.get((ki, mi), []), key=lambda x: x[2])
            runs_of[(ki, mi)] = runs
            t = list(tags) + (["odd-for-this-kind-of-object"] if is_odd(ki, mi) else [])
            c, sigs = det_case(mol, mol_id, t, [(s_, one, label) for s_, one, label, _, _ in runs], before, kd)
            setup_failed += sum(1 for x in runs if "same1" not in x[1])
            where[id(c)] = [(label, s_, pi, pos, sig) for (s_, _, label, pi, pos), sig in zip(runs, sigs)]
            cases.append(c)
    # an alternative FORM of an input / of a configuration must give the answers of the canonical form
    n_forms = {"input": 0, "configuration": 0}

    def add_forms(what, key_a, key_b, tags):
        ra, rb = runs_of.get(key_a), runs_of.get(key_b)
        if not ra or not rb:
            return
        kd_a, kd_b = kinds[key_a[0]], kinds[key_b[0]]
        a_id = "%s | kind=%s" % (mols[key_a[1]][1], kd_a["id"])
        b_id = "%s | kind=%s" % (mols[key_b[1]][1], kd_b["id"])
        c, sigs = forms_case(what, a_id, b_id, [(s_, one, l) for s_, one, l, _, _ in ra], [(s_, one, l) for s_, one, l, _, _ in rb], tags,
                             {"canonical_query": {"kind": {k: kd_a.get(k) for k in KIND_KEYS}, "mol": mols[key_a[1]][0]},
                              "alternative_query": {"kind": {k: kd_b.get(k) for k in KIND_KEYS}, "mol": mols[key_b[1]][0]}})
        where[id(c)] = [(label, s_, pi, pos, sig) for (s_, _, label, pi, pos), sig in zip(list(ra) + list(rb), sigs)]
        cases.append(c)
        n_forms[what] += 1

    for ki in range(len(kinds)):
        for mi in mols_of[ki]:
            if mi in canon_of and canon_of[mi] in mols_of[ki]:
                add_forms("input", (ki, canon_of[mi]), (ki, mi), [t for t in mols[mi][2] if t.startswith("input:") or t == "its"] + kinds[ki]["tags"])
    for ka, kc in canon_kind.items():
        for mi in mols_of[ka]:
            if mi in mols_of[kc]:
                add_forms("configuration", (kc, mi), (ka, mi), [t for t in mols[mi][2] if t.startswith("input:")] + kinds[ka]["tags"])
    for ji, (li, oi) in enumerate(tree_index):
        info, orders, tags = infos[li]
        if ji in by_tree:
            tcs = tree_cases(info, orders[oi], by_tree[ji], envseed=ji % 7, tags=set(tags) | c07.form_tags(info, tree_subs[ji]))
            for c in tcs:
                c.meta["submitted_as"] = tree_subs[ji]
            cases += tcs
    # ---- end to end: real FGQuery(config=…).get against the composed model (sample per run) ----------
    n_lists, n_per = (8, 4) if quick else (60, 8)
    e2e_plans = [(list(_default_fg_config), {"default-list"}, 2 * n_per)]
    plain = [(info, tags) for info, tags in gen_infos if not info.has_anti]
    anti = [(info, tags) for info, tags in gen_infos if info.has_anti]
    for info, tags in rng.sample(plain, min(n_lists, len(plain))) + rng.sample(anti, min(n_lists // 2, len(anti))):
        e2e_plans.append((e2e_with_group_atoms(rng, info.dicts), set(tags) | {"generated"}, n_per))
    for cfgs, what in user_lists[:3 if quick else 12]:
        e2e_plans.append((cfgs, {"user:" + what}, n_per))
    e2e_built = 0
    graph_inputs = [mi for mi, m in enumerate(mols) if mi not in special and m[0]["kind"] in ("smiles", "pattern", "graph") and not m[0].get("via")]
    n_corpus = n_corpus_mols if not quick else 12
    for dicts, tags, k in e2e_plans:
        # the default list is asked the corpus molecules first (sibling ties: the witnesses of F4), then random ones
        picks = list(range(min(n_corpus, len(mols)))) if "default-list" in tags else []
        picks += [rng.choice(graph_inputs) for _ in range(k)]
        for mi in picks:
            mol, mol_id, _t, _b = mols[mi]
            order = list(range(len(dicts)))
            if rng.random() < 0.5:
                rng.shuffle(order)
            # the configuration in one of its alternative forms for about a third of the cases (each ~ ALT_SHARE)
            form = rng.choice(E2E_FORMS[1:]) if rng.random() < 3 * ALT_SHARE * 0.8 else "objs"
            # (an exception here is the harness' own: it propagates and the run exits 2 — never a silently missing case)
            cases.append(e2e_case(dicts, order, mol, mol_id, rng.random() < 0.7, rng.randrange(0, 7), sorted(tags), form))
            e2e_built += 1
    outs = r.evaluate(cases)
    for o in r.spec_failures:
        if id(o.case) in where:
            o.case.meta["histories"] = histories_for(where[id(o.case)], procs)
    e2e_outs = [o for o in outs if o.ok_reply and o.case.req[1] == "e2e"]
    # C06.query_end_to_end_total: distinct pattern strings alone make the outcome (answer or AssertionError) independent
    e2e_dep = sum(1 for o in e2e_outs if len(o.extra) >= 3 and o.extra[1] == "1" and o.extra[0] != "1")
    r.extra_cov.update({"end_to_end_cases": e2e_built,
                        "end_to_end_cases_within_the_hypotheses_of_query_end_to_end":
                            sum(1 for o in e2e_outs if len(o.extra) >= 3 and o.extra[1] == "1" and o.extra[2] == "1"),
                        "end_to_end_cases_with_distinct_pattern_strings_(query_end_to_end_total)":
                            sum(1 for o in e2e_outs if len(o.extra) >= 3 and o.extra[1] == "1"),
                        "end_to_end_model_answers_depending_on_set_order_or_list_order": e2e_dep})
    if e2e_dep:
        r.violation_lines.append("VIOLATION property=C06 replay=%s no-failing-input-found" % r.write_replay(
            "proof-obligation", "e2e_env_dependent_model",
            {"theorem_or_correspondence": ["C06.query_end_to_end_total: the composed model's outcome depends on the set-iteration order / list order on %d case(s) with pairwise distinct pattern strings" % e2e_dep]}))
    env_dep = sum(1 for o in outs if o.ok_reply and o.case.req[1] == "tree" and o.case.in_domain and o.extra and o.extra[0] != "1")
    order_contract = sum(1 for o in outs if o.ok_reply and o.case.req[1] == "tree" and o.case.in_domain
                         and len(o.extra) > 1 and o.extra[1] != "1")
    q_runs = [x for v in by_q.values() for x in v]
    r.extra_cov.update({
        "ordered_trees_not_sorted_by_the_models_key": order_contract,
        "hash_seeds": seeds, "molecules": len(mols), "kinds_of_query_objects": [k["id"] for k in kinds],
        "worker_processes": {"pure (one kind of object only, never an odd input: the reference)": sum(1 for p_ in procs if p_[0].startswith("pure:")),
                             "pure+odd (default kind, odd inputs interleaved)": sum(1 for p_ in procs if p_[0].startswith("pure+odd")),
                             "mixed (all kinds interleaved, seed-dependent construction order)": sum(1 for p_ in procs if p_[0].startswith("mixed")),
                             "trees": sum(1 for p_ in procs if p_[0].startswith("trees"))},
        "(kind, molecule)_cases": sum(len(v) for v in mols_of.values()),
        "molecule_runs": len(q_runs),
        "queries_asked": sum(2 + (1 if x[1].get("fresh") is not None else 0) for x in q_runs if "same1" in x[1]),
        "runs_with_require_implicit_hydrogen=False": sum(1 for (ki, _), v in by_q.items() if not kinds[ki]["require_h"] for _ in v),
        "runs_with_a_user_configuration": sum(1 for (ki, _), v in by_q.items() if kinds[ki]["cfgs"] is not None for _ in v),
        "runs_with_a_non_default_mapper": sum(1 for (ki, _), v in by_q.items() if kinds[ki]["mapper"] is not None for _ in v),
        "smiles_refused_by_rdkit": refused,
        "inputs_by_form": {k: sum(1 for m in mols if k in m[2]) for k in sorted({t for m in mols for t in m[2] if t.startswith("input:") or t.startswith("its-labels:") or t.startswith("odd-input:")})},
        "(kind, input)_runs_on_odd_inputs": sum(len(v) for (ki, mi), v in by_q.items() if is_odd(ki, mi)),
        "(kind, input)_runs_on_ITS_graphs_without_hydrogens": sum(len(v) for (ki, mi), v in by_q.items() if mi in its_set and not kinds[ki]["require_h"]),
        "cases_alternative_form_of_the_input_vs_canonical_form": n_forms["input"],
        "cases_alternative_form_of_the_configuration_vs_canonical_form": n_forms["configuration"],
        "kinds_that_are_alternative_forms": {kinds[ka]["id"]: kinds[kc]["id"] for ka, kc in canon_kind.items()},
        "worker_setup_failures_(each_fails_its_case)": setup_failed, "tree_jobs": len(tree_jobs),
        "model_trees_depending_on_the_set_order_parameter": env_dep, "worker_wall_s": r.notes["worker_wall_s"],
    })
    if env_dep:
        r.violation_lines.append("VIOLATION property=C06 replay=%s no-failing-input-found" % r.write_replay(
            "proof-obligation", "env_dependent_model",
            {"theorem_or_correspondence": ["C06.env_independent: the model's ordered tree depends on the set-iteration order parameter on %d generated list(s)" % env_dep]}))
    r.assumptions = [
        "Proofs/C06.lean: the query algorithm (C05) enters as a parameter q that reads the tree only through its items, roots list and children lists; "
        "Proofs/C06Full.lean composes tree builder (C07), cache and query (C05) and proves the statement for the composed model "
        "(hypothesis: pairwise distinct pattern strings; with 'the both-directions assertion cannot fire' the outcome is an answer); the composed model is compared exactly with FGQuery(config=…).get on a sample per run",
        "CPython hash randomisation and object addresses are not modelled: they are exercised by fresh interpreter processes under PYTHONHASHSEED " + str(seeds[:6]) + ("…" if len(seeds) > 6 else ""),
        "C06.input_untouched is `rfl` (the model's `get` hands the caller's graph back as a record field: true by construction, it says nothing about the code) and in C06.deterministic "
        "'equal arguments give equal answers' is Lean's typing (model functions are pure); neither carries evidence about fgutils. Purity of the CODE is checked only by the runtime "
        "snapshots of the caller's graph (node order, attributes, adjacency order, edge attributes, graph attributes) around every call — including require_implicit_hydrogen=False, "
        "the only path on which query.py does not deep-copy the graph; the theorems with content are env_independent*, view_env_independent*, query_end_to_end*, history_end_to_end, default_*",
        "state shared BETWEEN query objects (module globals, class attributes, caches keyed by configuration) is not modelled: it is exercised by worker processes that interleave queries on objects "
        "built with different mappers / configurations / require_implicit_hydrogen in seed-dependent construction orders, compared with processes that only ever built one kind of object",
        "a worker that fails while building the FGQuery object or the molecule graph (on an input the harness itself could build) fails its case; a query job that gets no answer is a machinery failure (exit 2)",
    ]
    return r.finish(
        level="proof",
        rule="molecules: corpus (incl. every witness of F4/K3) + explicit-H graphs + ambiguous symbol concatenations + generated SMILES (O=C(X)Y family on which sibling groups tie; chains with functional groups), "
             "given as RDKit graphs, parser graphs with id offsets, graphs with sparse shuffled ids, or — alternative forms, ~15% of the SMILES inputs each — as the SMILES STRING itself (input:smiles-string) and as graphs restored from a JSON document / carrying attributes of the caller's own (lists, tuples, dicts on nodes, edges, graph); "
             "ITS graphs of mapped reactions (fixed + generated by breaking/forming one bond) built by the library's get_its, with (g,h) bond labels as tuples, as lists, restored from JSON, and as the reaction SMILES string; "
             "ODD inputs (reaction SMILES on hydrogen-requiring queries, invalid/empty SMILES, empty graph, non-graph values, graphs without symbol/bond labels, ITS graphs on hydrogen-requiring queries) interleaved with the normal "
             "molecules on the long-lived objects of the MIXED and PURE+ODD processes only — an exception is that input's answer, and the normal molecules must be answered as in the PURE processes that never saw an odd input. "
             "TYPE-SENSITIVE snapshots (list vs tuple vs numpy scalar; graph class, node order, node attributes, adjacency order, edge attributes, graph attributes) around every call. "
             "Configurations in every documented FORM (list of FGConfig | list of dicts with anti-patterns as lists / one-element ones as plain strings | ready FGConfigProvider | single FGConfig | positional arguments | the default "
             "collection named explicitly): every default-config kind and every user list additionally as a kind in a seed-chosen other form; `forms` cases demand the answers of the canonical form for alternative forms of inputs and configurations. Query objects of several KINDS = construction parameters of FGQuery: default collection under the mappers "
             "default / PermutationMapper(wildcard=None, ignore_case=True) / PermutationMapper(wildcard='R', ignore_case=False), each with require_implicit_hydrogen True and (default, strict) False; "
             "user configurations (parts of the default collection, lists with effective anti-patterns, generated lists; explicit group_atoms) under a seed-chosen mapper with require_implicit_hydrogen True and False. "
             "Every (kind, molecule) is asked twice on a long-lived object and (always for user configurations, for a seed-chosen part otherwise, at least once per molecule) on a freshly built object, "
             "in PURE fresh interpreters that only ever build that kind and in MIXED fresh interpreters that interleave all kinds (objects built at first use, in a seed-dependent order), under different PYTHONHASHSEED and molecule orders; "
             "all answers of one (kind, molecule) must be identical and the caller's graph untouched. Ordered trees of the default list, generated lists and lists with effective anti-patterns compared with the model; "
             "end-to-end answers of FGQuery(config=list).get on the default list (corpus + random molecules) and on a sample of generated / anti-pattern / user lists (some with explicit group_atoms) compared exactly with the composed model; "
             "non-trivial = (kind, molecule) with a non-empty answer / one tree job / one end-to-end case with a non-empty answer",
        checker_cmd="cd lean && lake build " + " ".join(PROOFS) + " && lake env lean FGVerif/Audit/C06.lean",
        explanation="what is PROVED (Lean, about the model): history independence via the cache invariant (history_independent, history_end_to_end); independence of the ordered tree from the set-iteration order and the list order "
                    "for pairwise distinct keys (env_independent*, view_env_independent*); the same for the COMPOSED model tree builder + cache + C05's query under 'pattern strings pairwise distinct' "
                    "(query_end_to_end, query_end_to_end_total, query_end_to_end_checked; Proofs/C06Full.lean, C06Total.lean, C06Relabel.lean), the default list kernel-checked against the tree extracted from the real get_tree() "
                    "(C06Default.lean); a decided witness that the unrepaired hash key is order-dependent. NOT evidence: C06.input_untouched is `rfl` and the functional part of C06.deterministic is typing — both hold by construction of the model. "
                    "What is CHECKED AT RUNTIME (code): exact comparison of the composed model with FGQuery(config=…).get on a sample of lists and molecules (`C06 e2e`); determinism across processes / hash seeds / histories / "
                    "kinds of query objects built earlier in the process, and purity (snapshots), by the executable spec `C06 det` on the answers of fresh interpreters")


def replay(path):
    payload = json.load(open(path))
    meta = payload.get("meta") or {}
    r = Run("C06", "replay", payload.get("seed", 0))
    if not prepare(r, PROOFS, "C06"):
        return 2
    seeds = meta.get("hashseeds") or [0, 1, 2, 3, 4]

    def show(kind_id, per):
        for s, x, label in per:
            print("replay: kind=%s %s PYTHONHASHSEED=%s same1=%s same2=%s fresh=%s untouched=%s%s%s" % (
                kind_id, label, s, x.get("same1"), x.get("same2"), x.get("fresh"),
                "same1" in x and x.get("before") == x.get("after1") == x.get("after2") and x.get("fresh_before") == x.get("fresh_after"),
                "" if not x.get("changed") else " CHANGED: %s" % x.get("changed"),
                "" if "same1" in x else " SETUP FAILED: %s" % x))

    def rerun_histories(hs):
        # re-run, in fresh interpreters under the recorded hash seeds, everything the recorded processes were asked
        # up to the failing query (one process per distinct answer); the last answer of each is the one compared
        res = c07.run_workers([(h["hashseed"], h["jobs"]) for h in hs])
        for h, x in zip(hs, res):
            odd_before = [j["mol"] for j in h["jobs"][:-1] if j.get("op") == "query" and j.get("obj") == h["jobs"][-1].get("obj")
                          and j["mol"].get("kind") in ("string", "value", "empty", "its")]
            print("replay: process %s (PYTHONHASHSEED=%s, %d earlier jobs, objects built before: %s; unusual inputs asked of the same object before: %s)" % (
                h["process"], h["hashseed"], len(h["jobs"]) - 1, x[-1].get("objects_built_before"), odd_before[:6]))
        return [(h["hashseed"], x[-1], h["process"], h["jobs"][-1]) for h, x in zip(hs, res)]

    if "forms" in meta:
        qa, qb = meta["canonical_query"], meta["alternative_query"]
        ka, kb = kind_from_meta(qa["kind"]), kind_from_meta(qb["kind"])
        same = lambda job, q: job.get("obj") == q["kind"]["id"] and job.get("mol") == q["mol"]
        if meta.get("histories"):
            rr = rerun_histories(meta["histories"])
            runs_a = [(s, x, l) for s, x, l, job in rr if same(job, qa)]
            runs_b = [(s, x, l) for s, x, l, job in rr if not same(job, qa)]
        else:
            runs_a = runs_b = []
        ss = sorted(set(seeds))[:3]
        if not runs_a:
            res = c07.run_workers([(s, [query_job(ka, qa["mol"], True)]) for s in ss])
            runs_a = [(s, x[0], "canonical/single-job/seed%s" % s) for s, x in zip(ss, res)]
        if not runs_b:
            res = c07.run_workers([(s, [query_job(kb, qb["mol"], True)]) for s in ss])
            runs_b = [(s, x[0], "alternative/single-job/seed%s" % s) for s, x in zip(ss, res)]
        print("replay: canonical form   : %s" % meta.get("canonical"))
        show(ka["id"], runs_a)
        print("replay: alternative form : %s" % meta.get("alternative"))
        show(kb["id"], runs_b)
        c, _ = forms_case(meta["forms"], meta.get("canonical"), meta.get("alternative"), runs_a, runs_b, ["replay"],
                          {"canonical_query": qa, "alternative_query": qb})
        r.evaluate([c])
    elif "mol" in meta:
        kind = kind_from_meta(meta.get("kind"))
        before = digest(worker_seed.snapshot(worker_seed.mk_graph(meta["mol"])))
        if meta.get("histories"):
            per = [(s, x, l) for s, x, l, _ in rerun_histories(meta["histories"])]
        else:
            job = query_job(kind, meta["mol"], True)
            res = c07.run_workers([(s, [job]) for s in sorted(set(seeds))])
            per = [(s, x[0], "single-job/seed%s" % s) for s, x in zip(sorted(set(seeds)), res)]
        show(kind["id"], per)
        c, _ = det_case(meta["mol"], meta["id"], ["replay"], per, before, kind)
        r.evaluate([c])
    elif "e2e" in meta:
        e = meta["e2e"]
        c = e2e_case(e["cfgs"], e["order"], e["mol"], e["id"], e["require_h"], e["envseed"], ["replay"], e.get("form", "objs"))
        for o in r.evaluate([c]):
            print("replay: end-to-end order=%s mol=%s requireH=%s configuration given as %s\n  impl=%s\n  model=%s extras=%s" % (
                e["order"], e["id"], e["require_h"], e.get("form", "objs"), common.sx_of(o.impl_c), common.sx_of(o.model), common.sx_of(o.extra)))
    elif "order" in meta:
        info = c07.ListInfo(meta.get("cfgs"))
        job = c07.tree_job(info, meta["order"], meta.get("submitted_as") or c07.submission("objs"))
        print("replay: list submitted as %s" % (meta.get("submitted_as"),))
        runs = [(s, [job]) for s in seeds for _ in range(2)]
        res = c07.run_workers(runs)
        cases = tree_cases(info, meta["order"], [(s, x[0]) for (s, _), x in zip(runs, res)], 0, {"replay"})
        for o in r.evaluate(cases):
            print("replay: order=%s hashseeds=%s\n  impl=%s\n  model=%s spec_impl=%s" % (
                meta["order"], o.case.meta["hashseeds_per_distinct_tree"], common.sx_of(o.impl_c), common.sx_of(o.model), o.spec_impl))
    else:
        print("replay file names a proof obligation: rebuilding the proofs is the replay; proofs_ok=%s" % r.build.proofs_ok)
        return 0 if r.build.proofs_ok and not r.audit_bad else 1
    return r.finish(level="proof", rule="replay", checker_cmd="", explanation="replay of " + path)
