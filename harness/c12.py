"""C12 — hydrogen completion: exact-graph correspondence (modulo the ids of the new hydrogens where the exact one
fails and the spec holds, see `canonical_completion`) + executable spec on implementation outputs.

Every case sends the input graph (wire form keeps node order, adjacency order) and the graph the
real `fgutils.utils.add_implicit_hydrogens` returned for a copy of it.  The driver answers with
the model's output (compared for wire equality: the model is order-faithful) and with the
verdict of the proved-sound executable specification `C12.specCheck` on the implementation's
output.  The specification carries its own hand-written main-group valence table, so a corrupted
`valence_dict` in the source is reported with a concrete failing input (the cell grid below
contains one atom of every tabulated element with 0..4 single bonds and an aromatic/double/triple
bond), not only by the `decide` obligation that no longer closes.
"""
import hashlib
import json

import networkx as nx

from common import (Atom, Case, Run, call_impl, prepare, enc_graph, sx, parse_sx, dec_label, build,
                    input_variant, variant_extras_intact)

PROOFS = ["FGVerif.Proofs.C12", "FGVerif.Proofs.GraphWF", "FGVerif.Proofs.C12Forest"]

# hand-written (the harness must not read the table it is checking)
TABULATED = ["Be", "Mg", "Ca", "Sr", "Ba", "B", "Al", "Ga", "In", "Tl", "C", "Si", "Sn", "Pb",
             "N", "P", "As", "Sb", "Bi", "O", "S", "Se", "Te", "Po", "F", "Cl", "Br", "I", "At"]
COMMON = ["C", "C", "C", "C", "N", "O", "O", "S", "P", "Cl", "F", "B", "Si", "Br", "I", "Se", "Sn", "Mg"]
SPECIAL = ["R", "H", "H", "Fe", "Na", "Ge", "Li", "c", "n", "o", "s", "p", "b"]
ORDERS = [1, 1, 1, 1, 1.5, 2, 2, 3]


def impl_addh(h):
    """`h` is a private copy (already encoded for the request); the function works in place and returns it"""
    from fgutils.utils import add_implicit_hydrogens
    return add_implicit_hydrogens(h)


# add_implicit_hydrogens works IN PLACE: only forms that stay modifiable (not frozen, not a view)
VARIANT_KINDS = ("extra_attrs", "numpy")


def impl_addh_form(h, form, nodes, edges):
    """completion of a graph handed over in another FORM (common.input_variant): with extra attributes the nodes
    and bonds of the variant as it was made (`nodes`, `edges`) must still carry them untouched afterwards
    (VariantDamaged otherwise; hydrogens added by an earlier completion never had them)"""
    out = impl_addh(h)
    if form == "variant=extra_attrs":
        variant_extras_intact(out, nodes, edges)
    return out


def star(center, k_single, extra=None, ids=None, nbr="R"):
    """one atom `center` with k single bonds (+ one bond of order `extra`) to wildcard atoms"""
    n = k_single + (1 if extra is not None else 0)
    ids = ids or list(range(n + 1))
    g = nx.Graph()
    g.add_node(ids[0], symbol=center)
    for i in range(n):
        g.add_node(ids[i + 1], symbol=nbr)
        g.add_edge(ids[0], ids[i + 1], bond=1 if i < k_single else extra)
    return g


def corpus_graphs():
    from fgutils.parse import parse
    out = []
    # F9 witness (fix c1f2ce1): ids from 1, len(graph) is an id in use
    out.append(("F9:parse(CO,idx_offset=1)", parse("CO", idx_offset=1)))
    out.append(("F9:parse(CCO,idx_offset=5)", parse("CCO", idx_offset=5)))
    g = nx.Graph()
    for n, s in ((7, "C"), (2, "O"), (3, "N")):     # sparse, shuffled ids; 3 = len(graph) in use
        g.add_node(n, symbol=s)
    g.add_edge(7, 2, bond=1)
    g.add_edge(2, 3, bond=1)
    out.append(("sparse-shuffled", g))
    for smi in ["C", "CC=O", "c1ccccc1", "C#N", "CS(=O)(=O)C", "RC(=O)OH", "[H]", "O=P(O)(O)O", "c1ccncc1", "RC(=O)N(R)R"]:
        try:
            out.append(("parse:" + smi, parse(smi)))
        except Exception:
            pass
    out.append(("empty", nx.Graph()))
    g = nx.Graph()
    g.add_node(0, symbol="Fe")
    out.append(("untabulated-only", g))
    return out


def corpus_files(prop, graph_pos):
    """fixed regression inputs kept as replay files under corpus/<prop>/ (the input graph of the request)"""
    import glob
    import os
    from common import CORPUS_DIR
    out = []
    for path in sorted(glob.glob(os.path.join(CORPUS_DIR, prop, "*.json"))):
        d = json.load(open(path))
        if d.get("request_line"):
            out.append(("corpus-file:" + os.path.basename(path), dec_graph(parse_sx(d["request_line"])[graph_pos])))
    return out


def cell_grid():
    """one atom of every tabulated element, 0..4 single bonds, optionally one more bond of order 1.5/2/3"""
    out = []
    for e in TABULATED:
        for k in range(5):
            for extra in (None, 1.5, 2, 3):
                if extra is not None and k > 3:
                    continue
                out.append(("cell:%s:%d:%s" % (e, k, extra), star(e, k, extra)))
    return out


def gen_ids(rng, n):
    style = rng.choice(["contiguous", "offset", "sparse", "shuffled", "negative"])
    if style == "contiguous":
        ids = list(range(n))
    elif style == "offset":
        o = rng.randint(1, 7)
        ids = list(range(o, o + n))
    elif style == "sparse":
        ids = sorted(rng.sample(range(0, 4 * n + 4), n))
    elif style == "shuffled":
        ids = rng.sample(range(0, 2 * n + 2), n)
    else:
        ids = rng.sample(range(-n - 2, n + 2), n)
    return style, ids


def gen_graph(rng, big=False):
    n = rng.randint(1, 30 if big else 10)
    style, ids = gen_ids(rng, n)
    g = nx.Graph()
    p_special = rng.choice([0.0, 0.15, 0.4])
    for i in ids:
        sym = rng.choice(SPECIAL) if rng.random() < p_special else rng.choice(COMMON + TABULATED)
        g.add_node(i, symbol=sym)
    # a random forest plus a few ring closures; the insertion order of edges is random
    edges = []
    p_edge = rng.choice([0.6, 0.9, 1.0])
    for k in range(1, n):
        if rng.random() < p_edge:
            edges.append((ids[k], ids[rng.randrange(k)]))
    for _ in range(rng.randint(0, 2)):
        if n >= 3:
            a, b = rng.sample(ids, 2)
            edges.append((a, b))
    rng.shuffle(edges)
    for a, b in edges:
        if rng.random() < 0.5:
            a, b = b, a
        g.add_edge(a, b, bond=rng.choice(ORDERS))
    return style, g


def stats(g, out):
    over = 0
    for n, d in g.nodes(data=True):
        s = sum(b for _, _, b in g.edges(n, data="bond"))
        if d["symbol"] in TABULATED and s > 4:
            over += 1
    added = (out.number_of_nodes() - g.number_of_nodes()) if isinstance(out, nx.Graph) else -1
    return over, added


def key_of(line):
    return hashlib.blake2b(line.encode(), digest_size=8).hexdigest()


def _h(name):
    import zlib
    return zlib.crc32(str(name).encode())


def make_cases(name, g, tags, rng=None, variant_kinds=None):
    """the first completion and the second one (idempotence on the implementation).
    `variant_kinds` (with `rng`): the graph is handed over in another FORM (extra attributes / numpy ids, map
    numbers and half orders); all completions of this scenario run on that object, the wire form is the plain one's"""
    cases = []
    form = None
    addh = impl_addh
    if variant_kinds:
        v, form = input_variant(g, rng, variant_kinds)
        if sx(enc_graph(v)) != sx(enc_graph(g)):
            raise AssertionError("input_variant changed the wire form (harness defect)")
        g = v
        tags = list(tags) + ["input_form", form]
        name = "%s [%s]" % (name, form)

        nodes0, edges0 = list(v.nodes), list(v.edges)

        def addh(h):
            return impl_addh_form(h, form, nodes0, edges0)
    # the graph object that is encoded is the one that is completed in place (copy() would re-add the
    # edges in g.edges order and change the adjacency order); a copy is kept for the statistics only
    req = [Atom("C12"), Atom("addh"), enc_graph(g)]
    g_in = g.copy()
    out = call_impl(addh, g)
    g = g_in
    ok = isinstance(out, nx.Graph)
    over, added = stats(g, out)
    t = list(tags) + ["added=%s" % ("0" if added == 0 else "1-3" if added <= 3 else "4+") if ok else "raised",
                      "overvalent" if over else "no-overvalent"]
    if any(isinstance(b, float) for _, _, b in g.edges(data="bond")):
        t.append("has-aromatic")
    cases.append(Case(req, enc_graph(out) if ok else out, meta={"name": name, "nodes": g.number_of_nodes()},
                      nontrivial_key=key_of(sx(req)) if added > 0 or over else None, tags=t))
    if ok:
        enc_out = enc_graph(out)
        req2 = [Atom("C12"), Atom("idem"), enc_out]
        out2 = call_impl(addh, out)
        cases.append(Case(req2, enc_graph(out2) if isinstance(out2, nx.Graph) else out2,
                          meta={"name": name + " (second completion)"},
                          nontrivial_key=key_of(sx(req2)) if added > 0 else None, tags=["second-completion"]))
        # and the spec of the first completion applied to the second one (nothing may be added)
        cases.append(Case([Atom("C12"), Atom("addh"), enc_out],
                          enc_graph(out2) if isinstance(out2, nx.Graph) else out2,
                          meta={"name": name + " (second completion, full spec)"}, tags=["second-completion-spec"]))
        # history on the same object: after the completion the SAME graph object is edited in place
        # (a hydrogen is removed, or a heavy atom is attached / added) and completed again: the
        # third completion must satisfy the full spec for the graph as it is then
        if isinstance(out2, nx.Graph) and out2.number_of_nodes() > 0 and (_h(name) % 3 == 0 or "corpus" in tags):
            g3 = out2
            hs = [n for n, d in g3.nodes(data=True) if d.get("symbol") == "H" and g3.degree(n) == 1]
            if hs and _h(name) % 2 == 0:
                g3.remove_node(hs[-1])
                edit = "removed-one-H"
            else:
                new = max(g3.nodes) + 1
                g3.add_node(new, symbol="C")
                heavy = [n for n, d in g3.nodes(data=True) if d.get("symbol") not in ("H", None) and n != new]
                if heavy and _h(name) % 5 != 0:
                    g3.add_edge(heavy[0], new, bond=1)
                edit = "added-carbon"
            if form:
                # what the harness's own edit removed is no longer "there before": its id may be handed out again
                nodes0[:] = [n for n in nodes0 if n in g3]
                edges0[:] = [e for e in edges0 if g3.has_edge(e[0], e[1])]
            req3 = [Atom("C12"), Atom("addh"), enc_graph(g3)]
            out3 = call_impl(addh, g3)
            cases.append(Case(req3, enc_graph(out3) if isinstance(out3, nx.Graph) else out3,
                              meta={"name": name + " (completion after an in-place edit: %s)" % edit},
                              nontrivial_key=key_of(sx(req3)), tags=["completion-after-in-place-edit", edit]))
    return cases


# ---------------------------------------------------------------------------------------------------------------
# correspondence modulo the ids of the NEW hydrogens (review 3, M6).  The statement fixes which atoms get how many
# hydrogens and that their ids were not in use; it does not fix WHICH unused id a hydrogen gets nor the order in
# which the new atoms are created (that depends on the order the loop visits the heavy atoms).  When the exact
# wire-level comparison with the model fails, both outputs are brought to a canonical form in which every new
# hydrogen is renamed (parent id, k) = the k-th new hydrogen in its parent's adjacency row, the new atoms and their
# rows are sorted, and everything about the old atoms (node order, attributes, the old part of every row) stays as
# it is.  Equal canonical forms + the proved-sound executable specification holding on the implementation's output
# = agreement (tag `fresh_ids_differ`, counted in the evidence).  An output that violates the specification never
# gets here: it is a VIOLATION with replay.
def canonical_completion(n_old, graph):
    """wire form (parsed: [multi, nodes, adj]) of a completion of a graph with n_old nodes -> canonical form,
    or None when a new atom has not exactly one bond to an old atom (no canonical form: stays a disagreement)"""
    multi, nodes, adj = graph
    old_nodes, new_nodes = nodes[:n_old], nodes[n_old:]
    old_ids = [x[0] for x in old_nodes]
    new_ids = {x[0] for x in new_nodes}
    if len(new_ids) != len(new_nodes) or new_ids & set(old_ids) or [r[0] for r in adj] != [x[0] for x in nodes]:
        return None
    rows = {r[0]: r[1] for r in adj}
    name = {}
    for a in old_ids:
        k = 0
        for e in rows[a]:
            if e[0] in new_ids:
                if e[0] in name:
                    return None
                name[e[0]] = ["new", a, str(k)]
                k += 1
    if set(name) != new_ids:
        return None

    def ren(i):
        return name.get(i, i)

    c_old_rows = [[a, [[ren(e[0]), e[1]] for e in rows[a]]] for a in old_ids]
    c_new_nodes = sorted(([ren(x[0])] + x[1:] for x in new_nodes), key=repr)
    c_new_rows = sorted(([ren(h), [[ren(e[0]), e[1]] for e in rows[h]]] for h in new_ids), key=repr)
    return [multi, old_nodes, c_new_nodes, c_old_rows, c_new_rows]


def agrees_modulo_fresh_ids(o):
    """the exact comparison failed: do model and implementation agree up to the ids / creation order of the new H?"""
    if not o.ok_reply or o.spec_impl != "1" or o.case.req[1] != "addh" or o.impl_c[:1] == ["raised"]:
        return False
    try:
        n_old = len(o.case.req[2][1])
        cm, ci = canonical_completion(n_old, o.model), canonical_completion(n_old, o.impl_c)
    except Exception:
        return False
    return cm is not None and cm == ci


def forgive_fresh_ids(r, outs):
    """take the cases that agree modulo the new hydrogens' ids out of the correspondence failures (counted, tagged)"""
    mine = {id(o) for o in outs}
    keep = []
    for o in r.corr_failures:
        if id(o) in mine and not o.spec_fail and agrees_modulo_fresh_ids(o):
            r.count("tag:fresh_ids_differ")
            r.notes.setdefault("fresh_ids_differ", [])
            if len(r.notes["fresh_ids_differ"]) < 3:
                r.notes["fresh_ids_differ"].append({"request": o.case.line()[:400], "model": sx(o.model)[:300]})
        else:
            keep.append(o)
    r.corr_failures[:] = keep


def tally(r, outs):
    """hypothesis coverage: every input must satisfy the theorems' well-formedness hypothesis C12.WF, and the
    model's own output must pass the executable spec (spec_model)"""
    forgive_fresh_ids(r, outs)
    for o in outs:
        if not o.ok_reply:
            continue
        if "wf=0" in o.extra:
            r.count("inputs-outside-WF-hypothesis")
            r.notes.setdefault("outside_wf", []).append(o.case.line()[:300])
        elif "wf=1" in o.extra:
            r.count("inputs-satisfying-WF-hypothesis")
        if o.spec_model == "0":
            r.count("spec_model=0")
            if o.case.in_domain:
                r.corr_failures.append(o)      # the model contradicts its own proved spec: machinery-level alarm


def run(tier, seed):
    r = Run("C12", tier, seed)
    if not prepare(r, PROOFS, "C12"):
        return 2
    rng = r.rng
    cases = []
    for name, g in corpus_graphs() + corpus_files("C12", 2):
        cases += make_cases(name, g, ["corpus"])
    for kind in VARIANT_KINDS:      # every corpus graph also in every other (modifiable) input form
        for name, g in corpus_graphs() + corpus_files("C12", 2):
            cases += make_cases(name, g, ["corpus"], rng=rng, variant_kinds=(kind,))
    for name, g in cell_grid():
        cases += make_cases(name, g, ["cell-grid"])
    # cells on shifted ids (fresh ids must not depend on 0..n-1)
    for e in TABULATED:
        k = rng.randint(0, 3)
        n = k + 1
        ids = rng.sample(range(1, 3 * n + 3), n)
        cases += make_cases("cell-shifted:%s:%d" % (e, k), star(e, k, None, ids=ids, nbr=rng.choice(["R", "C", "H", "O"])),
                            ["cell-grid-shifted"])
    proofs_broken = not r.build.proofs_ok
    n_random = 700 if tier == "quick" else 30000
    if proofs_broken:
        # a proof obligation no longer checks: the model no longer speaks for the code, widen the search
        n_random *= 3
        r.notes["escalated"] = "proof obligations did not build: sample widened, cell grid evaluated"
    for k in range(n_random):
        style, g = gen_graph(rng, big=(k % 8 == 0))
        if rng.random() < 0.12:
            # the FORM of the input: irrelevant extra attributes (must survive the in-place completion) / numpy ids and orders
            cases += make_cases("random#%d" % k, g, ["ids=" + style, "random"], rng=rng, variant_kinds=VARIANT_KINDS)
        else:
            cases += make_cases("random#%d" % k, g, ["ids=" + style, "random"])
        if len(cases) > 4000:
            tally(r, r.evaluate(cases))
            cases = []
    tally(r, r.evaluate(cases))
    r.assumptions = [
        "networkx Graph container semantics (add_node/add_edge, node and adjacency iteration order) are modelled by Model/Graph.lean (validated by the exact wire-level comparison of every case, not verified)",
        "bond orders are multiples of 0.5 and travel doubled; Python float arithmetic on such values is exact; numpy int() truncation = Int.tdiv",
        "the reference valences of the specification (C12.refRows) are hand-written: main groups 2, 13-17 carry 2,3,4,5,6,7 valence electrons",
        "well-formedness hypothesis of the theorems (C12.WF: node ids distinct, one adjacency row per node in node order, neighbours are nodes) holds for every networkx graph",
    ]
    r.extra_cov["escalated"] = bool(proofs_broken)
    return r.finish(
        level="proof",
        rule="corpus (F9 witnesses, parsed molecules) + cell grid (every tabulated element x 0..4 single bonds x {none,1.5,2,3}) + random graphs "
             "(1-30 atoms; elements incl. R, H, Fe, Na, Ge, Li, lower-case aromatic; ids contiguous/offset/sparse/shuffled/negative; random node and edge "
             "insertion order; orders 1,1.5,2,3; over-valent atoms), each followed by a second completion; 12% of the random graphs and every corpus "
             "graph also in another FORM (extra node/edge attributes that must survive the in-place completion; numpy.int64 ids / numpy.float64 orders; "
             "tags variant=*); non-trivial = hydrogens were added or an "
             "over-valent atom is present, distinct by request line",
        checker_cmd="cd lean && lake build FGVerif.Proofs.C12 && lake env lean FGVerif/Audit/C12.lean",
        explanation="theorems in lean/FGVerif/Proofs/C12.lean about Model/C12.lean (spec_holds, only_adds_hydrogens, fresh_ids, count, idempotent, "
                    "specCheck_sound, valence_table_main_group on the regenerated table); model tied to fgutils.utils.add_implicit_hydrogens by exact "
                    "wire-level differential testing; where the exact comparison fails but the implementation's output meets the executable "
                    "spec, the two outputs are compared modulo a renaming of the NEW hydrogens (each renamed (parent id, k-th new hydrogen of "
                    "that parent); new atoms and their rows sorted; everything about the old atoms exact) and an equal canonical form counts as "
                    "agreement (tag fresh_ids_differ in the input distribution: the statement does not fix which unused ids are taken nor the "
                    "order in which atoms are visited); executable spec C12.specCheck (own reference valences) applied to every implementation output")


# ---------------------------------------------------------------------------
# replay
# ---------------------------------------------------------------------------
def _dec_str(a):
    if a == "_":
        return None
    if a.startswith("s:"):
        return a[2:]
    if a.startswith("h:"):
        return bytes.fromhex(a[2:]).decode("utf-8")
    raise ValueError(a)


def dec_graph(x):
    """wire form -> networkx graph with the same node order and the same adjacency order"""
    multi, nodes, adj = x
    g = nx.MultiGraph() if multi == "1" else nx.Graph()
    for i, sym, labels, il, aam in nodes:
        d = {}
        if sym != "_":
            d["symbol"] = _dec_str(sym)
        if labels != "_":
            d["labels"] = [_dec_str(t) for t in labels]
        if il != "_":
            d["is_labeled"] = il == "1"
        if aam != "_":
            d["aam"] = int(aam)
        g.add_node(int(i), **d)
    shared = {}
    for u, row in adj:
        for v, data in row:
            u_, v_ = int(u), int(v)
            lab = dec_label(data[0][1])
            if isinstance(lab, float) and lab == int(lab):
                lab = int(lab)
            d = shared.setdefault(frozenset((u_, v_)), {"bond": lab})
            g._adj[u_][v_] = d          # keeps the adjacency order of the wire form
    return g


def replay(path):
    """re-run the recorded request against the current tree and the current driver"""
    d = json.load(open(path))
    line = d.get("request_line")
    r = Run("C12", "replay", d.get("seed", 0))
    if not prepare(r, PROOFS, "C12"):
        return 2
    if not r.build.proofs_ok:
        print("REPLAY property=C12 proof obligations do not build: %s" % ", ".join(r.build.failed_modules))
    if not line:
        print("REPLAY property=C12 kind=%s has no request line; proofs_ok=%s" % (d.get("kind"), r.build.proofs_ok))
        return 0 if r.build.proofs_ok and not r.audit_bad else 1
    req = parse_sx(line)
    op, g = req[1], dec_graph(req[2])
    enc_in = enc_graph(g)
    import re
    m = re.search(r"\[(variant=(extra_attrs|numpy))\]", str((d.get("meta") or {}).get("name", "")))
    if m:
        # the recorded case ran on another FORM of the graph: re-apply it (extras of the nodes / bonds of the request
        # graph are checked; hydrogens an earlier completion of the scenario added are treated as original here)
        import random
        g, form = input_variant(g, random.Random(d.get("seed", 0)), (m.group(2),))
        print("REPLAY property=C12 re-applied the recorded input form: %s" % form)
        nodes0 = [n for n, s_ in g.nodes(data="symbol") if "note" in g.nodes[n]]
        out = call_impl(impl_addh_form, g, form, nodes0, list(g.edges))
    else:
        out = call_impl(impl_addh, g)
    case = Case([Atom("C12"), Atom(op), enc_in], enc_graph(out) if isinstance(out, nx.Graph) else out, meta={"replay": path})
    o = r.evaluate([case])[0]
    r.driver.close()
    modulo = (not o.corr) and op == "addh" and agrees_modulo_fresh_ids(o)
    print("REPLAY property=C12 op=%s spec_impl=%s model==impl:%s%s failing_clauses=%s" % (
        op, o.spec_impl, o.corr, " (equal modulo the ids of the new hydrogens: fresh_ids_differ)" if modulo else "",
        o.extra[0] if o.extra else "-"))
    print("  input : %s" % sx(enc_in))
    print("  impl  : %s" % (o.impl_c,))
    return 1 if (o.spec_fail or not (o.corr or modulo) or o.driver_error) else 0
