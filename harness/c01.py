"""C01 — the pattern parser is faithful.

Three-way comparison on generated writings of generated (multi)graphs:
    real `fgutils.parse.Parser`  vs  Lean model parser (`C01.parse`)  vs  Lean `denote` (the spec,
    applied to the implementation's output).
The generator produces a syntax tree (`Chain`, see lean/FGVerif/Model/C01Spec.lean) and its string;
the Lean driver re-renders the tree and refuses to answer when the two strings differ.

chain (python form)  := (atom, [item, …])
atom                 := ('e', 'Cl') | ('w',) | ('l', ['a', 'b'])
item                 := ('r', bond, '12') | ('b', bond, chain) | ('n', bond, chain)     ('n' last)
bond                 := None | ('s', '=') | ('c', '1', '')
"""
import json
import os
import re

from common import Atom, Case, Run, call_impl, prepare, ImplError, sx, enc_graph, enc_label, canon, CORPUS_DIR

_SAFE_FULL = re.compile(r"[A-Za-z0-9_#+.*-]*")


def S(s):
    """wire form of a string (common.sx lets a trailing newline through: `$` matches before it)"""
    if _SAFE_FULL.fullmatch(s):
        return Atom("s:" + s)
    return Atom("h:" + s.encode("utf-8").hex())


PROOFS = ["FGVerif.Proofs.C01", "FGVerif.Proofs.C01Shift"]

ELEMS_UP = ['C', 'C', 'C', 'N', 'O', 'S', 'P', 'F', 'Cl', 'Br', 'I', 'H', 'B', 'Si', 'Se', 'Sn', 'Mg', 'Li']
ELEMS_LOW = ['c', 'c', 'c', 'n', 'o', 's', 'p', 'b']
LABELS = ['g', 'a_1', 'x-2', 'Q9', 'alkyl', '0', '-', 'aryl_2']
SYMS = ['-', '=', '#', '$', ':', '.']
RING_IDS = ['1', '2', '3', '4', '5', '7', '9', '0', '10', '12', '07', '123', '21']


# ---------------------------------------------------------------------------
# chains: rendering, wire form, statistics
# ---------------------------------------------------------------------------
def bond_text(b):
    if b is None:
        return ''
    if b[0] == 's':
        return b[1]
    return '<%s,%s>' % (b[1], b[2])


def atom_text(a):
    if a[0] == 'e':
        return a[1]
    if a[0] == 'w':
        return 'R'
    return '{' + ','.join(a[1]) + '}'


def render(chain):
    a, items = chain
    out = [atom_text(a)]
    for it in items:
        if it[0] == 'r':
            out.append(bond_text(it[1]) + it[2])
        elif it[0] == 'b':
            out.append('(' + bond_text(it[1]) + render(it[2]) + ')')
        else:
            out.append(bond_text(it[1]) + render(it[2]))
    return ''.join(out)


def enc_bond(b):
    if b is None:
        return None
    if b[0] == 's':
        return [Atom('s'), b[1]]
    return [Atom('c'), b[1], b[2]]


def enc_atom(a):
    if a[0] == 'e':
        return [Atom('e'), a[1]]
    if a[0] == 'w':
        return Atom('w')
    return [Atom('l')] + list(a[1])


def enc_chain(chain):
    a, items = chain
    out = [enc_atom(a)]
    for it in items:
        if it[0] == 'r':
            out.append([Atom('r'), enc_bond(it[1]), it[2]])
        else:
            out.append([Atom(it[0]), enc_bond(it[1]), enc_chain(it[2])])
    return out


def chain_stats(chain, st=None):
    st = st if st is not None else {'atoms': 0, 'rings': 0, 'dots': 0, 'labels': 0, 'lower': 0, 'rc': 0, 'branches': 0,
                                    'quad': 0, 'wild': 0, 'depth': 0, 'multidigit': 0, 'ring_bond': 0, 'ring_dot': 0}
    a, items = chain
    st['atoms'] += 1
    st['labels'] += a[0] == 'l'
    st['wild'] += a[0] == 'w'
    st['lower'] += a[0] == 'e' and a[1].islower()
    for it in items:
        b = it[1]
        if b is not None:
            st['dots'] += b == ('s', '.')
            st['quad'] += b == ('s', '$')
            st['rc'] += b[0] == 'c'
        if it[0] == 'r':
            st['rings'] += 1
            st['multidigit'] += len(it[2]) > 1
            st['ring_bond'] += b is not None
            st['ring_dot'] += b == ('s', '.')
        else:
            st['branches'] += it[0] == 'b'
            chain_stats(it[2], st)
    return st


# ---------------------------------------------------------------------------
# string -> chain (reader of the documented grammar; used for corpus strings and by C02)
# ---------------------------------------------------------------------------
_TOK = re.compile(r"(?P<A>Cl|Br|Se|Sn|Si|Mg|Li|[HCNOPSFBIbcnops])|(?P<B>[-=#$:.])|(?P<O>\()|(?P<C>\))|(?P<D>\d+)|(?P<W>R)"
                  r"|(?P<RC><(?P<g>\d*),(?P<h>\d*)>)|(?P<L>\{(?P<lb>[a-zA-Z0-9_,-]+)\})")


def read_chain(s, single_digit_rings=False, atom_re=None):
    """recursive-descent reader; returns None when `s` is not of the grammar"""
    toks = []
    pos = 0
    rx = atom_re or _TOK
    while pos < len(s):
        m = rx.match(s, pos)
        if not m:
            return None
        k = m.lastgroup
        if k == 'D' and single_digit_rings:
            for ch in m.group():
                toks.append(('D', ch))
        elif k == 'RC':
            toks.append(('B', ('c', m.group('g'), m.group('h'))))
        elif k == 'B':
            toks.append(('B', ('s', m.group())))
        elif k == 'L':
            toks.append(('A', ('l', m.group('lb').split(','))))
        elif k == 'W':
            toks.append(('A', ('w',)))
        elif k == 'A':
            toks.append(('A', ('e', m.group())))
        else:
            toks.append((k, m.group()))
        pos = m.end()
    i = [0]

    def peek():
        return toks[i[0]] if i[0] < len(toks) else (None, None)

    def top():
        k, v = peek()
        if k != 'A':
            return None
        a = v
        i[0] += 1
        r = rest()
        if r is None:
            return None
        return (a, r)

    def rest():
        items = []
        while True:
            k, v = peek()
            bond = None
            if k == 'B':
                bond = v
                i[0] += 1
                k, v = peek()
            if k == 'D':
                i[0] += 1
                items.append(('r', bond, v))
            elif k == 'O' and bond is None:
                i[0] += 1
                b2 = None
                if peek()[0] == 'B':
                    b2 = peek()[1]
                    i[0] += 1
                c = top()
                if c is None or peek()[0] != 'C':
                    return None
                i[0] += 1
                items.append(('b', b2, c))
            elif k == 'A':
                c = top()
                if c is None:
                    return None
                items.append(('n', bond, c))
                return items
            elif bond is None:
                return items
            else:
                return None

    c = top()
    if c is None or i[0] != len(toks):
        return None
    return c


# ---------------------------------------------------------------------------
# generator: graph -> spanning forest -> traversal -> ring numbering -> bonds -> chain
# ---------------------------------------------------------------------------
def gen_atom(rng, p_low):
    r = rng.random()
    if r < 0.07:
        return ('w',)
    if r < 0.17:
        return ('l', rng.sample(LABELS, rng.randint(1, 3)))
    if rng.random() < p_low:
        return ('e', rng.choice(ELEMS_LOW))
    return ('e', rng.choice(ELEMS_UP))


def gen_bond(rng, its, allow_none=True, p_none=0.45, p_dot=0.1):
    r = rng.random()
    if allow_none and r < p_none:
        return None
    if its and rng.random() < 0.45:
        return ('c', rng.choice(['', '0', '1', '2', '3', '01']), rng.choice(['', '0', '1', '2', '3']))
    if rng.random() < p_dot:
        return ('s', '.')
    return ('s', rng.choice(['-', '-', '=', '=', '#', '$', ':', ':']))


class _Node:
    __slots__ = ("atom", "items", "idx")

    def __init__(self, atom):
        self.atom = atom
        self.items = []     # ['b'|'n', bond, _Node] or ['r', bond, id, ring_no]


def gen_tree(rng, budget, its, p_low, depth=0):
    nd = _Node(gen_atom(rng, p_low))
    if depth < 4:
        for _ in range(rng.choice([0, 0, 0, 1, 1, 2, 3])):
            if budget[0] > 0:
                budget[0] -= 1
                nd.items.append(['b', gen_bond(rng, its), gen_tree(rng, budget, its, p_low, depth + 1)])
    if budget[0] > 0 and rng.random() < 0.85:
        budget[0] -= 1
        nd.items.append(['n', gen_bond(rng, its), gen_tree(rng, budget, its, p_low, depth)])
    return nd


def textual_atoms(nd, out):
    nd.idx = len(out)
    out.append(nd)
    for it in nd.items:
        if it[0] != 'r':
            textual_atoms(it[2], out)
    return out


def walk_marks(nd, fn):
    """textual walk over ring marks: fn(node, position in node.items)"""
    k = 0
    while k < len(nd.items):
        it = nd.items[k]
        if it[0] == 'r':
            fn(nd, k)
        else:
            walk_marks(it[2], fn)
        k += 1


def gen_chain(rng, n_atoms, its, multi, p_low):
    """returns (chain, info)"""
    root = gen_tree(rng, [n_atoms - 1], its, p_low)
    atoms = textual_atoms(root, [])
    n = len(atoms)
    # tree-bonded pairs (parent/child), to avoid double bonds in simple graphs
    bonded = set()
    for nd in atoms:
        for it in nd.items:
            if it[0] != 'r':
                bonded.add(frozenset((nd.idx, it[2].idx)))
    # ring edges = the non-tree edges of the graph
    n_rings = 0 if n < 2 else rng.choice([0, 0, 1, 1, 2, 3, 4])
    rings = []
    for _ in range(n_rings):
        u, v = rng.sample(range(n), 2)
        pair = frozenset((u, v))
        if pair in bonded and not multi:
            continue
        if not multi:
            bonded.add(pair)
        rings.append((u, v))
    for no, (u, v) in enumerate(rings):
        for w in (u, v):
            nd = atoms[w]
            hi = len(nd.items) - (1 if nd.items and nd.items[-1][0] == 'n' else 0)
            nd.items.insert(rng.randint(0, hi), ['r', None, None, no])
    # drop rings whose opening mark would directly follow another mark (the digits would fuse)
    while True:
        seen = set()
        bad = []

        def chk(nd, k):
            no = nd.items[k][3]
            opening = no not in seen
            seen.add(no)
            if opening and k > 0 and nd.items[k - 1][0] == 'r':
                bad.append(no)
        walk_marks(root, chk)
        if not bad:
            break
        for nd in atoms:
            nd.items = [it for it in nd.items if not (it[0] == 'r' and it[3] == bad[0])]
    # ring numbering in textual order: an opening mark takes any id that is not open
    open_ids = {}
    free_pref = rng.random()

    def number(nd, k):
        it = nd.items[k]
        no = it[3]
        if no in open_ids:
            it[2] = open_ids.pop(no)
            after_mark = k > 0 and nd.items[k - 1][0] == 'r'
            it[1] = gen_bond(rng, its, allow_none=not after_mark, p_none=0.55, p_dot=0.12)
        else:
            used = set(open_ids.values())
            if free_pref < 0.5:
                cands = [i for i in RING_IDS if i not in used]
                rid = cands[0] if rng.random() < 0.6 else rng.choice(cands)
            else:
                rid = rng.choice([i for i in RING_IDS if i not in used])
            open_ids[no] = rid
            it[2] = rid
    walk_marks(root, number)

    def freeze(nd):
        items = []
        for it in nd.items:
            if it[0] == 'r':
                items.append(('r', it[1], it[2]))
            else:
                items.append((it[0], it[1], freeze(it[2])))
        return (nd.atom, items)
    return freeze(root)


# ---------------------------------------------------------------------------
# implementation side
# ---------------------------------------------------------------------------
def canon_graph(g):
    """order-insensitive view: [multi, nodes sorted by id, edges sorted (min, max, label)]"""
    import networkx as nx
    multi = isinstance(g, nx.MultiGraph)
    nodes = []
    for n, d in g.nodes(data=True):
        labels = d.get("labels")
        nodes.append([int(n), d.get("symbol"), None if labels is None else list(labels), d.get("is_labeled"), d.get("aam")])
    nodes.sort(key=lambda x: x[0])
    edges = []
    for u, v, d in g.edges(data=True):
        edges.append([min(u, v), max(u, v), enc_label(d.get("bond"))])

    def lkey(l):
        if l is None:
            return (2, 0, 0)
        if isinstance(l, list):
            return (1, l[0], l[1])
        return (0, l, 0)
    edges.sort(key=lambda e: (e[0], e[1]) + lkey(e[2]))
    return [multi, nodes, edges]


def impl_parse(s, multi, aam, off, via_function=False):
    import fgutils.parse as P
    if via_function:
        return P.parse(s, idx_offset=off, init_aam=aam)
    return P.Parser(use_multigraph=multi, init_aam=aam).parse(s, idx_offset=off)


def impl_tokens(s):
    import fgutils.parse as P
    return [[Atom(k), S(v)] for k, v, _ in P.tokenize(s)]


def check_case(chain, s, multi, aam, off, rng=None, tags=(), in_domain=True, meta=None):
    via_function = (not multi) and rng is not None and rng.random() < 0.3
    g = call_impl(impl_parse, s, multi, aam, off, via_function)
    if isinstance(g, ImplError):
        exact, can = [Atom("raised"), Atom(g.kind)], g
    else:
        exact, can = enc_graph(g), canon_graph(g)
    req = [Atom("C01"), Atom("check"), multi, aam, off, enc_chain(chain), S(s), exact]
    st = chain_stats(chain)
    key = (s, multi, aam, off) if (st['atoms'] >= 3 and (st['rings'] or st['branches'])) else None
    m = {"pattern": s, "multi": multi, "aam": aam, "off": off, "via_function": via_function}
    m.update(meta or {})
    return Case(req, can, in_domain=in_domain, meta=m, nontrivial_key=key, tags=tags)


def lex_case(chain, s, in_domain=True, tags=()):
    toks = call_impl(impl_tokens, s)
    req = [Atom("C01"), Atom("lex"), S(s), None if chain is None else enc_chain(chain)]
    return Case(req, toks, in_domain=in_domain, meta={"pattern": s}, tags=tags,
                nontrivial_key=("lex", s) if len(s) > 4 else None)


def soup_case(rng):
    pieces = (ELEMS_UP + ELEMS_LOW + SYMS + ['/', '\\', '(', ')', '(', ')', '1', '2', '12', 'R', '<1,2>', '<,>', '<1,>', '<1>',
              '<a,b>', '<1,2', '{a}', '{a,b}', '{}', '{a b}', '{a,,b}', '{,}', '{a', 'x', '!', ' ', '\n', '%', '@', '[', ']', 'l', 'r', 'e',
              '<', '>', '{', '}', ','])
    kind = rng.random()
    if kind < 0.15:
        s = rng.choice(['1', '2', '12']) + ''.join(rng.choice(['C', 'C', 'c', 'N', '1', '(', ')']) for _ in range(rng.randint(1, 6)))
        tag = "leading_ring_digit"
    elif kind < 0.35:
        s = ''.join(rng.choice(['C', 'C', 'O', '(', ')', '=', '1']) for _ in range(rng.randint(1, 8)))
        tag = "unbalanced_parens"
    else:
        s = ''.join(rng.choice(pieces) for _ in range(rng.randint(1, 9)))
        tag = "token_soup"
    multi = rng.random() < 0.3
    aam = rng.random() < 0.3
    off = rng.choice([0, 0, 1, 4])
    g = call_impl(impl_parse, s, multi, aam, off)
    can = g if isinstance(g, ImplError) else canon_graph(g)
    req = [Atom("C01"), Atom("parse"), multi, aam, off, S(s)]
    kind_tag = "soup_error:" + g.kind if isinstance(g, ImplError) else "soup_parses"
    return [Case(req, can, in_domain=False, meta={"pattern": s}, tags=("malformed", tag, kind_tag)),
            lex_case(None, s, in_domain=False, tags=("malformed_lex",))]


CORPUS = [
    # DESIGN §7 witnesses F1–F3 and their siblings (all repaired; re-introduction must be caught)
    ("C$C", False, False, 0), ("C<1,2>C.C", False, False, 0), ("C1CCCc2c1cccc2", False, False, 0),
    ("C1ccccc=1", False, False, 0), ("c-c", False, False, 0), ("c1ccccc1<1,2>C", False, False, 0),
    ("c1ccccc1<1,2>C", True, True, 5), ("cc<2,1>C", False, False, 0), ("C<1,2>C.C(.C)C", False, True, 1),
    # from the test-suite / documentation
    ("CC(O)=O", False, False, 0), ("RC(=O)OR", False, True, 1), ("C{a,b}C", False, False, 3), ("{g}C(=O)R", True, False, 0),
    ("C1CC1.C2CC2", False, False, 0), ("C1(C)2CC1=2", True, False, 0), ("C1C1", True, False, 2),
    ("C10CCCC10", False, False, 0), ("C1CC1C1CC1", False, False, 0), ("C(C1)1", True, False, 0),
    ("c1ccccc1-c1ccccc1", False, False, 0), ("C$C#C:C", False, True, 7), ("C1CCC.1", False, False, 0),
    ("C1CC<0,1>1", False, False, 0), ("SiCSnC", False, False, 0), ("Cn1cccc1", False, False, 0),
    # the 12-atom ITS pattern of the non-vacuity examples in Proofs/C01.lean
    ("C1(=O)c2ccccc2<1,2>N(.{g,a_1})<2,1>C$1.R", False, True, 3),
    ("C1(=O)c2ccccc2<1,2>N(.{g,a_1})<2,1>C$1.R", True, False, 0),
]


def ask_wf(r, chains, multis):
    lines = [sx([Atom("C01"), Atom("wf"), m, enc_chain(c)]) for c, m in zip(chains, multis)]
    out = []
    for rep in r.get_driver().batch(lines):
        if not (isinstance(rep, list) and rep and rep[0] == "ok"):
            raise RuntimeError("driver could not decode a chain: %r" % (rep,))
        out.append((rep[1] == "1", rep[2] == "1"))
    return out


def run(tier, seed):
    r = Run("C01", tier, seed)
    if not prepare(r, PROOFS, "C01"):
        return 2
    rng = r.rng
    n_strings = 2000 if tier == "quick" else 200000
    chunk = 5000
    todo = []
    corpus = list(CORPUS)
    cfile = os.path.join(CORPUS_DIR, "C01", "witnesses.json")
    if os.path.exists(cfile):
        for e in json.load(open(cfile))["cases"]:
            t = (e["pattern"], bool(e["multi"]), bool(e["aam"]), int(e["off"]))
            if t not in corpus:
                corpus.append(t)
    for s, multi, aam, off in corpus:
        c = read_chain(s)
        if c is None or render(c) != s:
            raise RuntimeError("corpus string not readable: %r" % s)
        todo.append((c, s, multi, aam, off, ("corpus",)))
    produced = 0
    exact_dis = 0
    thm_dis = 0
    spec_model_fail = 0
    ood_samples = []
    first = True
    while produced < n_strings or first:
        first = False
        batch = todo
        todo = []
        while len(batch) < chunk and produced < n_strings:
            produced += 1
            its = rng.random() < 0.4
            multi = rng.random() < 0.35
            aam = rng.random() < 0.4
            off = rng.choice([0, 0, 1, 5, 17, -3])
            p_low = rng.choice([0.0, 0.0, 0.3, 0.8])
            n = rng.choice([1, 2, 3, 4, 5, 6, 7, 8, 9, 10, 11, 12, 13, 14, 14, 20 if produced % 50 == 0 else 12])
            c = gen_chain(rng, n, its, multi, p_low)
            batch.append((c, render(c), multi, aam, off, ()))
        wfs = ask_wf(r, [b[0] for b in batch], [b[2] for b in batch])
        cases = []
        for (c, s, multi, aam, off, t0), (wf, wfcore) in zip(batch, wfs):
            st = chain_stats(c)
            tags = list(t0) + ["valid_writing" if wf else "not_WF"]
            tags += [k for k in ("rings", "dots", "labels", "lower", "rc", "branches", "quad", "wild", "multidigit", "ring_bond", "ring_dot") if st[k]]
            tags += ["multigraph" if multi else "simple", "aam" if aam else "no_aam", "off=%d" % off,
                     "atoms>=12" if st['atoms'] >= 12 else "atoms<12"]
            cases.append(check_case(c, s, multi, aam, off, rng, tags=tags, in_domain=wf, meta={"wf": wf, "wfcore": wfcore}))
            if wf and rng.random() < 0.5:
                cases.append(lex_case(c, s, tags=("lex",)))
        outs = r.evaluate(cases)
        for o in outs:
            if o.ok_reply and o.case.in_domain and o.case.req[1] == "check":
                exact_dis += o.extra[0] == "0"
                thm_dis += o.extra[1] == "0"
                spec_model_fail += o.spec_model == "0"
        # malformed stream (never decides the verdict)
        soups = []
        for _ in range(max(1, len(batch) // 8)):
            soups += soup_case(rng)
        for o in r.evaluate(soups) + [o for o in outs if not o.case.in_domain]:
            if o.ok_reply and (not o.corr or o.spec_fail) and len(ood_samples) < 10:
                ood_samples.append({"request": o.case.line()[:300], "pattern": o.case.meta.get("pattern"),
                                    "model": str(o.model)[:300], "impl": str(o.impl_c)[:300]})
    r.extra_cov["adjacency_order_disagreements_impl_vs_model"] = exact_dis
    r.extra_cov["model_graph_differs_from_denote_graph"] = thm_dis
    r.extra_cov["spec_fails_on_model_output"] = spec_model_fail
    r.extra_cov["out_of_domain_disagreement_samples"] = ood_samples
    if thm_dis and not r.corr_failures and not r.spec_failures:
        # the model parser and `denote` are proved equal (C01.parse_faithful): a difference means the
        # driver or the build is inconsistent -> machinery failure, never a pass
        print("ERROR property=C01 model parser and denote differ on %d valid writings" % thm_dis)
        r.finish(level="proof")
        return 2
    r.assumptions = [
        "Python `re` ordered alternation over the nine token shapes is modelled by C01.lex (validated on every run, not verified)",
        "networkx add_node/add_edge container semantics are modelled by Model/Graph.lean",
        "input strings are ASCII (`\\d`, `str.islower` and `.` are modelled on ASCII)",
        "adjacency order of the parser's graph is compared and reported (adjacency_order_disagreements_impl_vs_model) but does not decide the verdict: the property does not speak about it",
    ]
    return r.finish(
        level="proof",
        rule="random syntax trees (1-20 atoms; elements incl. lower-case, R, {labels}; branches to depth 4; 0-4 ring closures with re-used and "
             "multi-digit ids placed before/between/after branches; explicit vs implied bonds over - = # $ : . and <g,h>; dots in branches and before "
             "ring closures) x idx_offset x init_aam x use_multigraph; in-domain = Lean WF (valid writing); non-trivial = >=3 atoms with a ring or branch, "
             "distinct by (string, options); malformed stream out of domain",
        checker_cmd="cd lean && lake build FGVerif.Proofs.C01 && lake env lean FGVerif/Audit/C01.lean",
        explanation="theorems in lean/FGVerif/Proofs/C01*.lean about Model/C01.lean (lexer + parser machine) and Model/C01Spec.lean (Chain, render, denote, WF); "
                    "model tied to fgutils.parse by differential testing (tokens and graphs); the executable spec `denote` is compared with every implementation output")


def replay(path):
    """re-run the request of a replay file against the current tree and the driver"""
    from common import Driver, parse_sx, sx_of
    d = json.load(open(path))
    m = d.get("meta") or {}
    line = d.get("request_line")
    if not line:
        print("replay file has no request (proof obligation / correspondence record): %s" % d.get("theorem_or_correspondence"))
        return 1
    req = parse_sx(line)
    print("pattern: %r options: multi=%s aam=%s off=%s" % (m.get("pattern"), m.get("multi"), m.get("aam"), m.get("off")))
    if req[1] == "check" and "pattern" in m:
        g = call_impl(impl_parse, m["pattern"], bool(m["multi"]), bool(m["aam"]), int(m["off"]))
        can = g if isinstance(g, ImplError) else canon_graph(g)
        now = sx([Atom("raised"), Atom(can.kind)]) if isinstance(can, ImplError) else sx(can)
        print("implementation now : %s" % now)
        # re-send with the current implementation output
        head = line[:line.rfind(d["impl_output"])] if d.get("impl_output") and d["impl_output"] in line else None
        if head is not None:
            line = head + now + ")"
    drv = Driver()
    rep = drv.ask(line)
    drv.close()
    print("driver reply       : %s" % sx_of(rep)[:2000])
    bad = isinstance(rep, list) and len(rep) >= 4 and rep[0] == "ok" and rep[3] == "0"
    print("spec on implementation output: %s" % ("FAILS" if bad else "holds"))
    return 1 if bad else 0
