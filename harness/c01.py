"""C01 — the pattern parser is faithful.

Four-way comparison on generated writings of generated (multi)graphs:
    real `fgutils.parse.Parser`  vs  Lean model parser (`C01.parse`, over the tables regenerated from the
    source)  vs  Lean `denoteRef` (the spec over HAND-WRITTEN reference tables, applied to the
    implementation's output)  vs  a Python oracle (`expected_canon` / `py_wf`, below) that is independent of
    Lean and of /repo: the generator records which atoms it wrote in which order and which pairs it bonded
    with which written order.
The generator produces a syntax tree (`Chain`, see lean/FGVerif/Model/C01Spec.lean) and its string;
the Lean driver re-renders the tree and refuses to answer when the two strings differ.

Domain: `in_domain` = valid writing of the DOCUMENTED syntax, decided by the Python oracle `py_wf` and by
Lean `WFRef` (Model/C01Ref.lean); the two must agree (else exit 2).  Neither reads anything from /repo, so
an edit of the token tables of the source cannot move a writing out of the domain.  Every writing of the
main generator is valid by construction: one that `py_wf`/`WFRef` rejects is a machinery error (exit 2); one
that `WF` over the regenerated tables rejects is a witness that the table obligations
(`tbl_atom_reachable`, `tbl_atom_alphabet_documented`, `tbl_bond_orders_documented`) fail — it stays in the
domain and is judged by the reference specification.

HISTORY scenarios (a fixed fifth of the valid generated writings): the writing is parsed on a long-lived
`Parser` object per configuration that has parsed other strings before (`<g,h>` patterns, strings it rejected,
unfinished patterns: `ReusedParsers`), and the specification is applied to THAT result; every call of the
module-level `parse()` is logged as well (`ml_parse`).  The replay file records the preceding calls and
`--replay` re-runs them on a new object.

chain (python form)  := (atom, [item, …])
atom                 := ('e', 'Cl') | ('w',) | ('l', ['a', 'b'])
item                 := ('r', bond, '12') | ('b', bond, chain) | ('n', bond, chain)     ('n' last)
bond                 := None | ('s', '=') | ('c', '1', '')
"""
import collections
import json
import os
import re
import sys

import common
from common import Atom, Case, Run, call_impl, prepare, ImplError, sx, sx_of, enc_graph, enc_label, canon, CORPUS_DIR

_SAFE_FULL = re.compile(r"[A-Za-z0-9_#+.*-]*")


def S(s):
    """wire form of a string (common.sx lets a trailing newline through: `$` matches before it)"""
    if _SAFE_FULL.fullmatch(s):
        return Atom("s:" + s)
    return Atom("h:" + s.encode("utf-8").hex())


PROOFS = ["FGVerif.Proofs.C01", "FGVerif.Proofs.C01Shift"]

# ---------------------------------------------------------------------------
# the documented syntax, written down by hand (doc/graph_syntax.rst, Parser docstring, SMILES bond symbols);
# NOT read from /repo and not from Lean.  Orders doubled (':' = 1.5 -> 3; '.' = no bond -> 0).
# ---------------------------------------------------------------------------
DOC_BOND = {'-': 2, '=': 4, '#': 6, '$': 8, ':': 3, '.': 0}
DOC_ATOMS = frozenset("H Br Cl Se Sn Si Mg Li C N O P S F B I b c n o p s".split())
_LABEL_TEXT = re.compile(r"[A-Za-z0-9_-]+")
_DIGITS = re.compile(r"[0-9]*")

ELEMS_UP = ['C', 'C', 'C', 'N', 'O', 'S', 'P', 'F', 'Cl', 'Br', 'I', 'H', 'B', 'Si', 'Se', 'Sn', 'Mg', 'Li']
ELEMS_LOW = ['c', 'c', 'c', 'n', 'o', 's', 'p', 'b']
LABELS = ['g', 'a_1', 'x-2', 'Q9', 'alkyl', '0', '-', 'aryl_2']
SYMS = ['-', '=', '#', '$', ':', '.']
RING_IDS = ['1', '2', '3', '4', '5', '7', '9', '0', '10', '12', '07', '123', '21', '6', '8', '00']
DIGITS = list("0123456789")


# ---------------------------------------------------------------------------
# chains: rendering, wire form, statistics
# ---------------------------------------------------------------------------
def bond_text(b):
    if b is None:
        return ''
    if b[0] == 's':
        return b[1]
    return '<%s,%s>' % (b[1], b[2])


def atom_text(a):
    if a[0] == 'e':
        return a[1]
    if a[0] == 'w':
        return 'R'
    return '{' + ','.join(a[1]) + '}'


def render(chain):
    a, items = chain
    out = [atom_text(a)]
    for it in items:
        if it[0] == 'r':
            out.append(bond_text(it[1]) + it[2])
        elif it[0] == 'b':
            out.append('(' + bond_text(it[1]) + render(it[2]) + ')')
        else:
            out.append(bond_text(it[1]) + render(it[2]))
    return ''.join(out)


def enc_bond(b):
    if b is None:
        return None
    if b[0] == 's':
        return [Atom('s'), b[1]]
    return [Atom('c'), b[1], b[2]]


def enc_atom(a):
    if a[0] == 'e':
        return [Atom('e'), a[1]]
    if a[0] == 'w':
        return Atom('w')
    return [Atom('l')] + list(a[1])


def enc_chain(chain):
    a, items = chain
    out = [enc_atom(a)]
    for it in items:
        if it[0] == 'r':
            out.append([Atom('r'), enc_bond(it[1]), it[2]])
        else:
            out.append([Atom(it[0]), enc_bond(it[1]), enc_chain(it[2])])
    return out


def chain_stats(chain, st=None):
    st = st if st is not None else {'atoms': 0, 'rings': 0, 'dots': 0, 'labels': 0, 'lower': 0, 'rc': 0, 'branches': 0,
                                    'quad': 0, 'wild': 0, 'depth': 0, 'multidigit': 0, 'ring_bond': 0, 'ring_dot': 0}
    a, items = chain
    st['atoms'] += 1
    st['labels'] += a[0] == 'l'
    st['wild'] += a[0] == 'w'
    st['lower'] += a[0] == 'e' and a[1].islower()
    for it in items:
        b = it[1]
        if b is not None:
            st['dots'] += b == ('s', '.')
            st['quad'] += b == ('s', '$')
            st['rc'] += b[0] == 'c'
        if it[0] == 'r':
            st['rings'] += 1
            st['multidigit'] += len(it[2]) > 1
            st['ring_bond'] += b is not None
            st['ring_dot'] += b == ('s', '.')
        else:
            st['branches'] += it[0] == 'b'
            chain_stats(it[2], st)
    return st


# ---------------------------------------------------------------------------
# Python oracle for domain and denotation (independent of Lean and of /repo)
# ---------------------------------------------------------------------------
def atom_symbol(a):
    return a[1] if a[0] == 'e' else 'R' if a[0] == 'w' else '#'


def py_events(chain):
    """textual walk: (atoms, bonds, marks, has_rc)
    atoms: the atom tokens in textual order (index = atom number)
    bonds: (u, v, written bond) — chain/branch bonds and ring closures (closing atom, opening atom,
           bond written at the closing digit), the 2m-1-th occurrence of a ring id paired with the 2m-th
    marks: (atom, written bond, ring id, closes?) in textual order"""
    atoms, bonds, marks = [], [], []
    open_ids = {}
    has_rc = [False]

    def walk(c, parent):
        a, items = c
        u = len(atoms)
        atoms.append(a)
        if parent is not None:
            bonds.append((parent[0], u, parent[1]))
        for it in items:
            if it[1] is not None and it[1][0] == 'c':
                has_rc[0] = True
            if it[0] == 'r':
                if it[2] in open_ids:
                    bonds.append((u, open_ids.pop(it[2]), it[1]))
                    marks.append((u, it[1], it[2], True))
                else:
                    open_ids[it[2]] = u
                    marks.append((u, it[1], it[2], False))
            else:
                walk(it[2], (u, it[1]))
    walk(chain, None)
    return atoms, bonds, marks, has_rc[0], sorted(open_ids)


def ring_form_tags(chain):
    """tags describing the FORM of the ring closures of a writing (oracle on the syntax tree, independent of who wrote
    it): label 0, a label taken again after its ring was closed, a ring bond between textually consecutive atoms (ring
    opened on the last atom of a branch and closed on the first atom after it, or across a dot), a ring bond that
    crosses a dot"""
    tags = set()
    frag = []                 # union-find over atoms: joined by tree bonds other than `.`
    ring_bonds = []           # (opening atom, closing atom, bond written at the closing digit)
    open_ids = {}
    n_opened = collections.Counter()

    def find(x):
        while frag[x] != x:
            frag[x] = frag[frag[x]]
            x = frag[x]
        return x

    def walk(c, parent):
        u = len(frag)
        frag.append(u)
        if parent is not None and parent[1] != ('s', '.'):
            frag[find(u)] = find(parent[0])
        for it in c[1]:
            if it[0] == 'r':
                if it[2] == '0':
                    tags.add("ring_label:0")
                if it[2] in open_ids:
                    ring_bonds.append((open_ids.pop(it[2]), u, it[1]))
                else:
                    open_ids[it[2]] = u
                    n_opened[it[2]] += 1
            else:
                walk(it[2], (u, it[1]))
    walk(chain, None)
    if any(k > 1 for k in n_opened.values()):
        tags.add("ring_label:reused_after_closing")
    for u, v, b in ring_bonds:
        if b == ('s', '.') or u == v:
            continue
        if abs(u - v) == 1:
            tags.add("ring_bond:consecutive_atoms")
        if find(u) != find(v):
            tags.add("ring_bond:across_dot")
    return sorted(tags)


def rc_val(t):
    return 2 if t == '' else 2 * int(t)


def py_label(b, low, its):
    """doubled label of a written bond (None = no edge): documented orders; no symbol = aromatic iff both atoms
    are written in lower case, else single; in an ITS pattern every scalar order o is the pair (o, o)"""
    if b is None:
        o = 3 if low else 2
    elif b[0] == 's':
        o = DOC_BOND[b[1]]
        if o == 0:
            return None
    else:
        return [rc_val(b[1]), rc_val(b[2])]
    return [o, o] if its else o


def _lkey(l):
    if l is None:
        return (2, 0, 0)
    if isinstance(l, list):
        return (1, l[0], l[1])
    return (0, l, 0)


def expected_canon(atoms, bonds, its, multi, aam, off):
    """the canonical view (same shape as canon_graph) of the graph a writing denotes, from the atoms written
    (in order) and the pairs bonded (with the written bond)"""
    nodes = []
    for i, a in enumerate(atoms):
        nodes.append([i + off, atom_symbol(a), list(a[1]) if a[0] == 'l' else [], a[0] == 'l', (i + off + 1) if aam else None])
    edges = []
    for u, v, b in bonds:
        low = atom_symbol(atoms[u]).islower() and atom_symbol(atoms[v]).islower()
        l = py_label(b, low, its)
        if l is not None:
            edges.append([min(u, v) + off, max(u, v) + off, l])
    edges.sort(key=lambda e: (e[0], e[1]) + _lkey(e[2]))
    return [multi, nodes, edges]


def chain_tokens(chain, out=None):
    """the writing as a list of (kind, text)"""
    out = [] if out is None else out
    a, items = chain
    out.append(('A' if a[0] == 'e' else 'W' if a[0] == 'w' else 'L', atom_text(a), a))
    for it in items:
        if it[0] == 'b':
            out.append(('O', '(', None))
        if it[1] is not None:
            out.append(('B', bond_text(it[1]), it[1]))
        if it[0] == 'r':
            out.append(('D', it[2], None))
        else:
            chain_tokens(it[2], out)
        if it[0] == 'b':
            out.append(('C', ')', None))
    return out


def py_wf(chain, multi):
    """(valid writing of the documented syntax?, reason)"""
    toks = chain_tokens(chain)
    for k, (kind, text, obj) in enumerate(toks):
        nxt = toks[k + 1][1][:1] if k + 1 < len(toks) and toks[k + 1][1] else ''
        if kind == 'A':
            if text not in DOC_ATOMS:
                return False, "unknown_element"
            if nxt and (text + nxt) in DOC_ATOMS:
                return False, "longer_symbol(%s)" % (text + nxt)        # the longest symbol wins: `S` + `n` is tin
        elif kind == 'L':
            if not obj[1] or not all(_LABEL_TEXT.fullmatch(l) for l in obj[1]):
                return False, "label_text"
        elif kind == 'B':
            if obj[0] == 's':
                if obj[1] not in DOC_BOND:
                    return False, "unknown_bond_symbol"
            elif not (_DIGITS.fullmatch(obj[1]) and _DIGITS.fullmatch(obj[2])):
                return False, "rc_bond_text"
        elif kind == 'D':
            if not text or not _DIGITS.fullmatch(text):
                return False, "ring_id_text"
            if nxt.isdigit():
                return False, "ring_digits_fuse"
    atoms, bonds, marks, its, still_open = py_events(chain)
    if any(b is not None and not closes for _, b, _, closes in marks):
        return False, "bond_before_opening_ring_digit"
    if still_open:
        return False, "unclosed_ring"
    seen = set()
    for u, v, b in bonds:
        if py_label(b, False, its) is None:
            continue
        if u == v:
            return False, "self_bond"
        if not multi:
            if frozenset((u, v)) in seen:
                return False, "pair_bonded_twice"
            seen.add(frozenset((u, v)))
    return True, ""


def bonds_key(bonds):
    return sorted((min(u, v), max(u, v), repr(b)) for u, v, b in bonds)


# ---------------------------------------------------------------------------
# string -> chain (reader of the documented grammar; used for corpus strings and by C02)
# ---------------------------------------------------------------------------
_TOK = re.compile(r"(?P<A>Cl|Br|Se|Sn|Si|Mg|Li|[HCNOPSFBIbcnops])|(?P<B>[-=#$:.])|(?P<O>\()|(?P<C>\))|(?P<D>\d+)|(?P<W>R)"
                  r"|(?P<RC><(?P<g>\d*),(?P<h>\d*)>)|(?P<L>\{(?P<lb>[a-zA-Z0-9_,-]+)\})")


def read_chain(s, single_digit_rings=False, atom_re=None):
    """recursive-descent reader; returns None when `s` is not of the grammar"""
    toks = []
    pos = 0
    rx = atom_re or _TOK
    while pos < len(s):
        m = rx.match(s, pos)
        if not m:
            return None
        k = m.lastgroup
        if k == 'D' and single_digit_rings:
            for ch in m.group():
                toks.append(('D', ch))
        elif k == 'RC':
            toks.append(('B', ('c', m.group('g'), m.group('h'))))
        elif k == 'B':
            toks.append(('B', ('s', m.group())))
        elif k == 'L':
            toks.append(('A', ('l', m.group('lb').split(','))))
        elif k == 'W':
            toks.append(('A', ('w',)))
        elif k == 'A':
            toks.append(('A', ('e', m.group())))
        else:
            toks.append((k, m.group()))
        pos = m.end()
    i = [0]

    def peek():
        return toks[i[0]] if i[0] < len(toks) else (None, None)

    def top():
        k, v = peek()
        if k != 'A':
            return None
        a = v
        i[0] += 1
        r = rest()
        if r is None:
            return None
        return (a, r)

    def rest():
        items = []
        while True:
            k, v = peek()
            bond = None
            if k == 'B':
                bond = v
                i[0] += 1
                k, v = peek()
            if k == 'D':
                i[0] += 1
                items.append(('r', bond, v))
            elif k == 'O' and bond is None:
                i[0] += 1
                b2 = None
                if peek()[0] == 'B':
                    b2 = peek()[1]
                    i[0] += 1
                c = top()
                if c is None or peek()[0] != 'C':
                    return None
                i[0] += 1
                items.append(('b', b2, c))
            elif k == 'A':
                c = top()
                if c is None:
                    return None
                items.append(('n', bond, c))
                return items
            elif bond is None:
                return items
            else:
                return None

    c = top()
    if c is None or i[0] != len(toks):
        return None
    return c


# ---------------------------------------------------------------------------
# generator: graph -> spanning forest -> traversal -> ring numbering -> bonds -> chain
# ---------------------------------------------------------------------------
def gen_atom(rng, p_low):
    r = rng.random()
    if r < 0.07:
        return ('w',)
    if r < 0.17:
        return ('l', rng.sample(LABELS, rng.randint(1, 3)))
    if rng.random() < p_low:
        return ('e', rng.choice(ELEMS_LOW))
    return ('e', rng.choice(ELEMS_UP))


def gen_bond(rng, its, allow_none=True, p_none=0.45, p_dot=0.1):
    r = rng.random()
    if allow_none and r < p_none:
        return None
    if its and rng.random() < 0.45:
        return ('c', rng.choice(['', '0', '1', '2', '3', '01']), rng.choice(['', '0', '1', '2', '3']))
    if rng.random() < p_dot:
        return ('s', '.')
    return ('s', rng.choice(['-', '-', '=', '=', '#', '$', ':', ':']))


class _Node:
    __slots__ = ("atom", "items", "idx")

    def __init__(self, atom):
        self.atom = atom
        self.items = []     # ['b'|'n', bond, _Node] or ['r', bond, id, ring_no]


def gen_tree(rng, budget, its, p_low, depth=0):
    nd = _Node(gen_atom(rng, p_low))
    if depth < 4:
        for _ in range(rng.choice([0, 0, 0, 1, 1, 2, 3])):
            if budget[0] > 0:
                budget[0] -= 1
                nd.items.append(['b', gen_bond(rng, its), gen_tree(rng, budget, its, p_low, depth + 1)])
    if budget[0] > 0 and rng.random() < 0.85:
        budget[0] -= 1
        nd.items.append(['n', gen_bond(rng, its), gen_tree(rng, budget, its, p_low, depth)])
    return nd


def textual_atoms(nd, out):
    nd.idx = len(out)
    out.append(nd)
    for it in nd.items:
        if it[0] != 'r':
            textual_atoms(it[2], out)
    return out


def walk_marks(nd, fn):
    """textual walk over ring marks: fn(node, position in node.items)"""
    k = 0
    while k < len(nd.items):
        it = nd.items[k]
        if it[0] == 'r':
            fn(nd, k)
        else:
            walk_marks(it[2], fn)
        k += 1


def gen_chain(rng, n_atoms, its, multi, p_low):
    """returns (chain, (atoms written in textual order, bonded pairs with the written bond)) — the second
    component is the generator's own record of what it wrote (the Python oracle's input), not a re-reading
    of the chain.  Every chain returned is a valid writing of the documented syntax by construction."""
    root = gen_tree(rng, [n_atoms - 1], its, p_low)
    atoms = textual_atoms(root, [])
    n = len(atoms)
    # tree-bonded pairs (parent/child), to avoid double bonds in simple graphs; a pair the tree joins with `.` is NOT
    # bonded: a ring closure across the dot (`C1.C1`) is a valid writing of a bond between the two atoms
    bonded = set()
    for nd in atoms:
        for it in nd.items:
            if it[0] != 'r' and it[1] != ('s', '.'):
                bonded.add(frozenset((nd.idx, it[2].idx)))
    # ring edges = the non-tree edges of the graph
    n_rings = 0 if n < 2 else rng.choice([0, 0, 1, 1, 2, 3, 4])
    rings = []
    wanted = [tuple(rng.sample(range(n), 2)) for _ in range(n_rings)]
    # a ring bond between TEXTUALLY CONSECUTIVE atoms that the text does not bond otherwise: the ring is opened on
    # the last atom of a branch and closed on the first atom after it (`CC(C1)C1`), or it crosses a dot (`C1.C1`);
    # no depth-first SMILES writer produces such a writing
    if n >= 2 and rng.random() < 0.2:
        cand = [(i, i + 1) for i in range(n - 1) if multi or frozenset((i, i + 1)) not in bonded]
        rng.shuffle(cand)
        wanted = cand[:rng.choice([1, 1, 2])] + wanted
    for u, v in wanted:
        pair = frozenset((u, v))
        if pair in bonded and not multi:
            continue
        if not multi:
            bonded.add(pair)
        rings.append((u, v))
    for no, (u, v) in enumerate(rings):
        for w in (u, v):
            nd = atoms[w]
            hi = len(nd.items) - (1 if nd.items and nd.items[-1][0] == 'n' else 0)
            nd.items.insert(rng.randint(0, hi), ['r', None, None, no])
    # drop rings whose opening mark would directly follow another mark (the digits would fuse)
    while True:
        seen = set()
        bad = []

        def chk(nd, k):
            no = nd.items[k][3]
            opening = no not in seen
            seen.add(no)
            if opening and k > 0 and nd.items[k - 1][0] == 'r':
                bad.append(no)
        walk_marks(root, chk)
        if not bad:
            break
        for nd in atoms:
            nd.items = [it for it in nd.items if not (it[0] == 'r' and it[3] == bad[0])]
    # the longest element symbol wins (`S` directly followed by `n` is tin): write the bond out
    for nd in atoms:
        if nd.atom[0] == 'e' and nd.items and nd.items[0][0] == 'n' and nd.items[0][1] is None:
            ch = nd.items[0][2].atom
            if ch[0] == 'e' and (nd.atom[1] + ch[1][:1]) in DOC_ATOMS:
                nd.items[0][1] = ('s', rng.choice(['-', '-', '=', ':']))
    # ring numbering in textual order: an opening mark takes any id that is not open
    open_ids = {}
    opener = {}
    ring_bonds = []
    free_pref = rng.random()
    digit_order = rng.sample(DIGITS, len(DIGITS))

    def number(nd, k):
        it = nd.items[k]
        no = it[3]
        if no in open_ids:
            it[2] = open_ids.pop(no)
            after_mark = k > 0 and nd.items[k - 1][0] == 'r'
            it[1] = gen_bond(rng, its, allow_none=not after_mark, p_none=0.55, p_dot=0.12)
            ring_bonds.append((nd.idx, opener.pop(no), it[1]))
        else:
            opener[no] = nd.idx
            used = set(open_ids.values())
            if free_pref < 0.4:
                cands = [i for i in RING_IDS if i not in used]
                rid = cands[0] if rng.random() < 0.6 else rng.choice(cands)
            elif free_pref < 0.7:
                rid = rng.choice([i for i in RING_IDS if i not in used])
            else:
                # single digits 0-9 (0 included), a label is taken again as soon as its ring is closed
                cands = [i for i in digit_order if i not in used] or [i for i in RING_IDS if i not in used]
                rid = cands[0] if rng.random() < 0.7 else rng.choice(cands)
            open_ids[no] = rid
            it[2] = rid
    walk_marks(root, number)

    def freeze(nd):
        items = []
        for it in nd.items:
            if it[0] == 'r':
                items.append(('r', it[1], it[2]))
            else:
                items.append((it[0], it[1], freeze(it[2])))
        return (nd.atom, items)
    tree_bonds = [(nd.idx, it[2].idx, it[1]) for nd in atoms for it in nd.items if it[0] != 'r']
    return freeze(root), ([nd.atom for nd in atoms], tree_bonds + ring_bonds)


# ---------------------------------------------------------------------------
# implementation side
# ---------------------------------------------------------------------------
def canon_graph(g):
    """order-insensitive view: [multi, nodes sorted by id, edges sorted (min, max, label)]"""
    import networkx as nx
    multi = isinstance(g, nx.MultiGraph)
    nodes = []
    for n, d in g.nodes(data=True):
        labels = d.get("labels")
        nodes.append([int(n), d.get("symbol"), None if labels is None else list(labels), d.get("is_labeled"), d.get("aam")])
    nodes.sort(key=lambda x: x[0])
    edges = []
    for u, v, d in g.edges(data=True):
        edges.append([min(u, v), max(u, v), enc_label(d.get("bond"))])

    def lkey(l):
        if l is None:
            return (2, 0, 0)
        if isinstance(l, list):
            return (1, l[0], l[1])
        return (0, l, 0)
    edges.sort(key=lambda e: (e[0], e[1]) + lkey(e[2]))
    return [multi, nodes, edges]


# the ways a caller reaches the parser (besides the module-level parse() and a reused Parser object): the method
# `Parser.parse` and CALLING the object, offset positional / by keyword / omitted (when it is 0), `verbose=True`
ENTRIES = ["Parser.parse(kw)"] * 9 + ["Parser.parse(pos)"] * 3 + ["Parser.__call__(pos)"] * 3 + ["Parser.__call__(kw)"] * 3 + \
          ["Parser.parse(offset_omitted)"] * 1 + ["Parser.__call__(offset_omitted)"] * 1 + ["Parser(verbose=True).parse"] * 1


def impl_parse(s, multi, aam, off, via_function=False, entry=None):
    import fgutils.parse as P
    if via_function:
        return P.parse(s, idx_offset=off, init_aam=aam)
    if entry == "Parser(verbose=True).parse":
        import contextlib
        import io
        with contextlib.redirect_stdout(io.StringIO()):
            return P.Parser(use_multigraph=multi, init_aam=aam, verbose=True).parse(s, idx_offset=off)
    p = P.Parser(use_multigraph=multi, init_aam=aam)
    if entry == "Parser.parse(pos)":
        return p.parse(s, off)
    if entry == "Parser.__call__(pos)":
        return p(s, off)
    if entry == "Parser.__call__(kw)":
        return p(s, idx_offset=off)
    if off == 0 and entry == "Parser.parse(offset_omitted)":
        return p.parse(s)
    if off == 0 and entry == "Parser.__call__(offset_omitted)":
        return p(s)
    return p.parse(s, idx_offset=off)


def impl_tokens(s):
    import fgutils.parse as P
    return [[Atom(k), S(v)] for k, v, _ in P.tokenize(s)]


# ---------------------------------------------------------------------------
# HISTORY scenarios: the same `Parser` object is used for a sequence of writings
# ---------------------------------------------------------------------------
# calls made on the reused object BEFORE the writing under test, to leave as much state behind as possible:
HISTORY_ITS = ['C<1,2>C', 'c1ccccc1<1,2>C', 'C<2,1>C<,2>O', 'CC<0,1>C.C', 'C1CC<1,2>1', '{a}<,>R']        # `is_its` must not stick
HISTORY_REJECTED = ['CC(C!)C', 'C1CC=x', 'c1cc<1,2>c!', '1CC', 'C!C', 'C)C', 'C/C', 'C(C))', 'C{a b}', 'C1CC1x',
                    'CC(=O)Oz', 'N(C)(C(C%']                                                                    # the parser raised
HISTORY_UNFINISHED = ['C(C', 'C1CC', 'C(C(C', 'C=', 'C1CC=', 'c1cc(', 'C.', 'C<1,2>']                         # accepted, but a branch / ring / bond is left open
SESSION_LENGTHS = [2, 3, 4, 6, 8, 12, 40]


class ReusedParsers:
    """long-lived `Parser` objects, one per configuration (use_multigraph, init_aam).  Each is used for a
    session of 2..40 writings under test (then replaced, so that the COMPLETE list of preceding calls fits into
    a replay file); before a writing under test the object is, most of the time, first given a `<g,h>` pattern,
    a string it rejects, or an unfinished pattern.  `call` returns the result on the reused object together with
    everything that was parsed on that object before."""

    def __init__(self, rng):
        self.rng = rng
        self.sessions = {}
        self.calls = 0

    def call(self, multi, aam, s, off):
        import fgutils.parse as P
        rng = self.rng
        key = (bool(multi), bool(aam))
        ses = self.sessions.get(key)
        if ses is None or ses["left"] <= 0:
            ses = {"parser": P.Parser(use_multigraph=multi, init_aam=aam), "calls": [], "left": rng.choice(SESSION_LENGTHS)}
            self.sessions[key] = ses
        kinds = []
        r = rng.random()
        pre = None
        if r < 0.3:
            pre = (rng.choice(HISTORY_ITS), "after_its")
        elif r < 0.6:
            pre = (rng.choice(HISTORY_REJECTED), "after_rejected")
        elif r < 0.75 or not ses["calls"]:
            pre = (rng.choice(HISTORY_UNFINISHED), "after_unfinished")
        if pre is not None:
            o = rng.choice([0, 0, 3])
            res = call_impl(ses["parser"].parse, pre[0], o)
            ses["calls"].append({"pattern": pre[0], "off": o,
                                 "result": ("raised " + res.kind) if isinstance(res, ImplError) else "ok"})
            kinds.append(pre[1])
        if any(c["result"].startswith("raised") for c in ses["calls"]):
            kinds.append("some_earlier_call_rejected")
        history = [dict(c) for c in ses["calls"]]
        g = call_impl(ses["parser"].parse, s, off)
        ses["calls"].append({"pattern": s, "off": off, "result": ("raised " + g.kind) if isinstance(g, ImplError) else "ok"})
        ses["left"] -= 1
        self.calls += 1
        return g, history, kinds


# every call of the module-level `fgutils.parse.parse` made by the harness goes through `ml_parse`, so that a case
# evaluated through that function can record what the function was given before (a module-level parser object
# that survives between calls would make the result depend on it)
_ML_RECENT = collections.deque(maxlen=4)
_ML_PROVOCATION = []
_ML_LAST = {}             # the last `<g,h>` pattern and the last rejected string given to the function (with a serial number)
_ML_SERIAL = [0]


def ml_parse(s, off=0, aam=False, provocation=None):
    """provocation: None (a case under test), "first" (first string of a provocation batch) or "more" """
    import fgutils.parse as P
    res = call_impl(P.parse, s, idx_offset=off, init_aam=aam)
    e = {"pattern": s, "off": off, "aam": aam, "result": ("raised " + res.kind) if isinstance(res, ImplError) else "ok"}
    _ML_SERIAL[0] += 1
    e["n"] = _ML_SERIAL[0]
    if provocation == "first":
        del _ML_PROVOCATION[:]
    if provocation:
        _ML_PROVOCATION.append(e)
    if "<" in s and not isinstance(res, ImplError):
        _ML_LAST["its"] = e
    if isinstance(res, ImplError):
        _ML_LAST["rejected"] = e
    _ML_RECENT.append(e)
    return res


def ml_history():
    """what the module-level parse() was given before, in call order (`n` = serial number of the call in this
    process): the last accepted `<g,h>` pattern, the last rejected string, the latest provocation batch and the
    last four calls"""
    es = {e["n"]: e for e in list(_ML_LAST.values()) + _ML_PROVOCATION + list(_ML_RECENT)}
    return [dict(es[n]) for n in sorted(es)]


def ml_replay(history, s, off=0, aam=False):
    import fgutils.parse as P
    for h in history:
        call_impl(P.parse, h["pattern"], idx_offset=int(h.get("off", 0)), init_aam=bool(h.get("aam", False)))
    return call_impl(P.parse, s, idx_offset=off, init_aam=aam)


def replay_history(multi, aam, history, s, off):
    """a new Parser object, the recorded preceding calls, then the writing under test"""
    import fgutils.parse as P
    p = P.Parser(use_multigraph=multi, init_aam=aam)
    for c in history:
        call_impl(p.parse, c["pattern"], int(c["off"]))
    return call_impl(p.parse, s, off)


def check_case(chain, s, multi, aam, off, rng=None, tags=(), in_domain=True, meta=None, reused=None):
    m = {"pattern": s, "multi": multi, "aam": aam, "off": off}
    tags = list(tags)
    if reused is not None:
        # HISTORY scenario: the implementation output is the one of the REUSED object; the specification is
        # applied to it like to any other output, the replay records the preceding calls
        via_function = False
        g, history, kinds = reused.call(multi, aam, s, off)
        fresh = call_impl(impl_parse, s, multi, aam, off, False)
        same = (isinstance(g, ImplError) and isinstance(fresh, ImplError) and g.kind == fresh.kind) or (
            not isinstance(g, ImplError) and not isinstance(fresh, ImplError) and enc_graph(g) == enc_graph(fresh))
        m.update({"reused_parser": True, "history": history, "reused_equals_fresh_object": same})
        tags += ["history"] + ["history:" + k for k in kinds] + ([] if same else ["history:differs_from_fresh_object"])
    else:
        via_function = (not multi) and rng is not None and rng.random() < 0.3
        if via_function:
            # module-level parse(): now and then directly after a string it rejects / leaves unfinished
            if rng.random() < 0.2:
                ml_parse(rng.choice(HISTORY_REJECTED + HISTORY_UNFINISHED), 0, aam, provocation="first")
                tags.append("module_level_parse_after_rejected_or_unfinished")
            m["history"] = ml_history()
            m["reused_parser"] = False
            g = ml_parse(s, off, aam)
        else:
            entry = rng.choice(ENTRIES) if rng is not None else "Parser.parse(kw)"
            if off != 0 and entry.endswith("(offset_omitted)"):
                entry = "Parser.__call__(pos)"
            m["entry"] = entry
            tags.append("entry:" + entry)
            g = call_impl(impl_parse, s, multi, aam, off, False, entry)
    if reused is not None:
        tags.append("entry:reused_Parser_object.parse")
    elif via_function:
        tags.append("entry:module_level_parse()")
    if isinstance(g, ImplError):
        exact, can = [Atom("raised"), Atom(g.kind)], g
    else:
        exact, can = enc_graph(g), canon_graph(g)
    req = [Atom("C01"), Atom("check"), multi, aam, off, enc_chain(chain), S(s), exact]
    st = chain_stats(chain)
    key = (s, multi, aam, off) if (st['atoms'] >= 3 and (st['rings'] or st['branches'])) else None
    m["via_function"] = via_function
    m.update(meta or {})
    case = Case(req, can, in_domain=in_domain, meta=m, nontrivial_key=key, tags=tags)
    return case


def lex_case(chain, s, in_domain=True, tags=()):
    toks = call_impl(impl_tokens, s)
    req = [Atom("C01"), Atom("lex"), S(s), None if chain is None else enc_chain(chain)]
    return Case(req, toks, in_domain=in_domain, meta={"pattern": s}, tags=tags,
                nontrivial_key=("lex", s) if len(s) > 4 else None)


def soup_case(rng):
    pieces = (ELEMS_UP + ELEMS_LOW + SYMS + ['/', '\\', '(', ')', '(', ')', '1', '2', '12', 'R', '<1,2>', '<,>', '<1,>', '<1>',
              '<a,b>', '<1,2', '{a}', '{a,b}', '{}', '{a b}', '{a,,b}', '{,}', '{a', 'x', '!', ' ', '\n', '%', '@', '[', ']', 'l', 'r', 'e',
              '<', '>', '{', '}', ','])
    kind = rng.random()
    if kind < 0.15:
        s = rng.choice(['1', '2', '12']) + ''.join(rng.choice(['C', 'C', 'c', 'N', '1', '(', ')']) for _ in range(rng.randint(1, 6)))
        tag = "leading_ring_digit"
    elif kind < 0.35:
        s = ''.join(rng.choice(['C', 'C', 'O', '(', ')', '=', '1']) for _ in range(rng.randint(1, 8)))
        tag = "unbalanced_parens"
    else:
        s = ''.join(rng.choice(pieces) for _ in range(rng.randint(1, 9)))
        tag = "token_soup"
    multi = rng.random() < 0.3
    aam = rng.random() < 0.3
    off = rng.choice([0, 0, 1, 4])
    g = call_impl(impl_parse, s, multi, aam, off)
    can = g if isinstance(g, ImplError) else canon_graph(g)
    req = [Atom("C01"), Atom("parse"), multi, aam, off, S(s)]
    kind_tag = "soup_error:" + g.kind if isinstance(g, ImplError) else "soup_parses"
    return [Case(req, can, in_domain=False, meta={"pattern": s}, tags=("malformed", tag, kind_tag)),
            lex_case(None, s, in_domain=False, tags=("malformed_lex",))]


CORPUS = [
    # DESIGN §7 witnesses F1–F3 and their siblings (all repaired; re-introduction must be caught)
    ("C$C", False, False, 0), ("C<1,2>C.C", False, False, 0), ("C1CCCc2c1cccc2", False, False, 0),
    ("C1ccccc=1", False, False, 0), ("c-c", False, False, 0), ("c1ccccc1<1,2>C", False, False, 0),
    ("c1ccccc1<1,2>C", True, True, 5), ("cc<2,1>C", False, False, 0), ("C<1,2>C.C(.C)C", False, True, 1),
    # from the test-suite / documentation
    ("CC(O)=O", False, False, 0), ("RC(=O)OR", False, True, 1), ("C{a,b}C", False, False, 3), ("{g}C(=O)R", True, False, 0),
    ("C1CC1.C2CC2", False, False, 0), ("C1(C)2CC1=2", True, False, 0), ("C1C1", True, False, 2),
    ("C10CCCC10", False, False, 0), ("C1CC1C1CC1", False, False, 0), ("C(C1)1", True, False, 0),
    ("c1ccccc1-c1ccccc1", False, False, 0), ("C$C#C:C", False, True, 7), ("C1CCC.1", False, False, 0),
    ("C1CC<0,1>1", False, False, 0), ("SiCSnC", False, False, 0), ("Cn1cccc1", False, False, 0),
    # every symbol of the documented alphabet and every documented bond symbol (two-letter symbols must not be
    # shadowed by a one-letter alternative; every order is pinned by the reference table)
    ("CCl", False, False, 0), ("ClC#N", False, False, 0), ("CSeC", False, False, 0),
    ("HBrClSeSnSiMgLiCNOPSFBI", False, True, 2), ("bcnops", False, False, 0), ("C-C=C#C$C:C.C", False, False, 0),
    ("C-C=C#C$C:C.C<1,2>C", True, True, 1), ("C1CC#1", False, False, 0), ("ClC(Cl)(Br)SeC1CSi$1", False, False, 0),
    # forms no depth-first SMILES writer produces: ring label 0 / a label taken again, a ring bond between textually consecutive
    # atoms (opened on the last atom of a branch, closed on the first atom after it), a ring closure across a dot
    ("C0CC0", False, False, 0), ("c0ccccc0C0CC0", False, True, 2), ("CC(C1)C1", False, False, 0), ("C(=C1)C1", False, False, 3),
    ("C(CCCC1)C1", False, False, 0), ("C1.C1", False, False, 0), ("c1ccccc1C2.C2", False, False, 1), ("C1.C=1", True, False, 0),
    ("C(C1)(C1)", False, False, 0), ("C(C)1CC1", False, False, 0), ("C1.C<1,2>1", False, False, 0),
    # the 12-atom ITS pattern of the non-vacuity examples in Proofs/C01.lean
    ("C1(=O)c2ccccc2<1,2>N(.{g,a_1})<2,1>C$1.R", False, True, 3),
    ("C1(=O)c2ccccc2<1,2>N(.{g,a_1})<2,1>C$1.R", True, False, 0),
]


def prepare_tolerant(r, proofs, audit_prop):
    """`common.prepare`, except that a crash of ANOTHER property's table translator (harness/gen_tables_*.py:
    e.g. gen_tables_c05.py instantiates FGConfigProvider, which parses the default patterns with the parser
    under test and raises when `Cl` no longer lexes) does not turn this check into a machinery error: the
    parser tables this property needs come from harness/gen_tables.py alone; the other Generated/*.lean files
    are kept as they are (the driver links them, the C01/C02 operations do not read them).  A failure of
    gen_tables.py itself stays a machinery error.  The event is recorded in the evidence."""
    try:
        return prepare(r, proofs, audit_prop)
    except RuntimeError as e:
        msg = str(e)
        if not msg.startswith("gen_tables_"):
            raise
    orig = common.regenerate_tables

    def only_parser_tables():
        rc, out = common._run([sys.executable, os.path.join(common.VERIF, "harness", "gen_tables.py")], cwd=common.VERIF)
        if rc != 0:
            raise RuntimeError("gen_tables.py failed:\n" + out)
        return out
    common.regenerate_tables = only_parser_tables
    try:
        ok = prepare(r, proofs, audit_prop)
    finally:
        common.regenerate_tables = orig
    r.extra_cov["translator_of_another_property_failed_on_this_tree"] = msg[-600:]
    r.assumptions.append("a table translator of another property crashed on this source tree (%s); its Generated/*.lean files were "
                         "left untouched; this check only reads Generated/Tables.lean" % msg.split(" failed")[0])
    return ok


def ask_wf(r, chains, multis):
    lines = [sx([Atom("C01"), Atom("wf"), m, enc_chain(c)]) for c, m in zip(chains, multis)]
    out = []
    for rep in r.get_driver().batch(lines):
        if not (isinstance(rep, list) and rep and rep[0] == "ok"):
            raise RuntimeError("driver could not decode a chain: %r" % (rep,))
        out.append((rep[1] == "1", rep[2] == "1", rep[4] == "1", rep[5] == "1"))
    return out


def _ch(a, *items):
    return (('e', a) if isinstance(a, str) else a, list(items))


def invalid_chain(rng):
    """a syntax tree that is NOT a valid writing of the documented syntax, with the reason the Python oracle
    must give (the separate invalid stream: out of domain; keeps `py_wf`/`WFRef` from being trivially true)"""
    x = rng.choice(['C', 'C', 'N', 'O', 'c', 'Cl', 'Se'])
    y = rng.choice(['C', 'C', 'O', 'Br', 'Si'])
    b = rng.choice([None, ('s', '-'), ('s', '='), ('s', '#'), ('s', ':')])
    k = rng.randrange(11)
    multi = rng.random() < 0.4
    if k == 0:      # `S` directly followed by `n` is tin
        c = _ch(x, ('n', b, _ch('S', ('n', None, _ch('n', ('n', None, _ch('c')))))))
        return c, multi, "longer_symbol(Sn)"
    if k == 1:      # adjacent ring digits fuse into one ring id
        tail = _ch(y, ('n', None, _ch('C', ('r', None, '1'), ('n', None, _ch('C', ('r', None, '2'))))))
        return _ch(x, ('r', None, '1'), ('r', None, '2'), ('n', b, tail)), multi, "ring_digits_fuse"
    if k == 2:      # a bond symbol before a ring-OPENING digit
        tail = _ch(y, ('n', b, _ch('C', ('r', None, '1'))))
        return _ch(x, ('r', ('s', rng.choice('=#-:$')), '1'), ('n', None, tail)), multi, "bond_before_opening_ring_digit"
    if k == 3:
        return _ch(x, ('r', None, '1'), ('n', b, _ch(y, ('n', None, _ch('C'))))), multi, "unclosed_ring"
    if k == 4:      # the same pair bonded twice in a simple graph
        return _ch(x, ('r', None, '1'), ('n', b, _ch(y, ('r', None, '1')))), False, "pair_bonded_twice"
    if k == 5:
        return _ch(x, ('r', None, '1'), ('r', ('s', '-'), '1'), ('n', b, _ch(y))), multi, "self_bond"
    if k == 6:
        return _ch(x, ('n', b, _ch(rng.choice(['Na', 'X', 'Al', 'cl', 'Fe', 'K'])))), multi, "unknown_element"
    if k == 7:
        return _ch(x, ('n', ('s', rng.choice('/\\~*')), _ch(y))), multi, "unknown_bond_symbol"
    if k == 8:
        return _ch(x, ('n', b, _ch(('l', rng.choice([[''], ['a b'], ['a', ''], []]))))), multi, "label_text"
    if k == 9:
        return _ch(x, ('n', ('c', rng.choice(['a', '1', '-1']), rng.choice(['x', '1.5'])), _ch(y))), multi, "rc_bond_text"
    return _ch(x, ('r', None, rng.choice(['', 'a', '1a'])), ('n', b, _ch(y, ('r', None, '1')))), multi, "ring_id_text"


def run(tier, seed):
    r = Run("C01", tier, seed)
    if not prepare_tolerant(r, PROOFS, "C01"):
        return 2
    rng = r.rng
    n_strings = 2000 if tier == "quick" else 200000
    chunk = 5000
    todo = []
    corpus = list(CORPUS)
    cfile = os.path.join(CORPUS_DIR, "C01", "witnesses.json")
    if os.path.exists(cfile):
        for e in json.load(open(cfile))["cases"]:
            t = (e["pattern"], bool(e["multi"]), bool(e["aam"]), int(e["off"]))
            if t not in corpus:
                corpus.append(t)
    for s, multi, aam, off in corpus:
        c = read_chain(s)
        if c is None or render(c) != s:
            raise RuntimeError("corpus string not readable: %r" % s)
        todo.append((c, s, multi, aam, off, ("corpus",), None, None))
    produced = 0
    exact_dis = 0
    thm_dis = 0
    spec_model_fail = 0
    ood_samples = []
    reused = ReusedParsers(rng)
    history_cases = 0
    history_differs = 0
    machinery = []           # the two oracles (Python / Lean reference) disagree, or the generator wrote an invalid string
    wf_drift = []            # valid writings that WF over the REGENERATED tables rejects (or vice versa)
    py_vs_impl = 0
    n_generated = 0
    n_invalid_stream = 0
    first = True
    while produced < n_strings or first:
        first = False
        batch = todo
        todo = []
        while len(batch) < chunk and produced < n_strings:
            produced += 1
            its = rng.random() < 0.4
            multi = rng.random() < 0.35
            aam = rng.random() < 0.4
            off = rng.choice([0, 0, 1, 5, 17, -3])
            if produced % 16 == 0:
                # the separate invalid stream (out of domain; the oracles must both say "invalid")
                c, multi, why = invalid_chain(rng)
                batch.append((c, render(c), multi, aam, off, ("invalid_stream", "invalid:" + why.split("(")[0]), None, why))
                continue
            p_low = rng.choice([0.0, 0.0, 0.3, 0.8])
            n = rng.choice([1, 2, 3, 4, 5, 6, 7, 8, 9, 10, 11, 12, 13, 14, 14, 20 if produced % 50 == 0 else 12])
            c, wrote = gen_chain(rng, n, its, multi, p_low)
            batch.append((c, render(c), multi, aam, off, ("generated",), wrote, None))
        wfs = ask_wf(r, [b[0] for b in batch], [b[2] for b in batch])
        cases = []
        for (c, s, multi, aam, off, t0, wrote, why_invalid), (wf, wfcore, wf_gen, wfcore_gen) in zip(batch, wfs):
            st = chain_stats(c)
            # ---- domain: Python oracle and Lean WFRef (reference tables); they must agree
            pywf, why = py_wf(c, multi)
            if pywf != wf:
                machinery.append("py_wf=%s (%s) but Lean WFRef=%s on %r multi=%s" % (pywf, why, wf, s, multi))
            if wrote is not None:
                n_generated += 1
                if not pywf:
                    machinery.append("the generator wrote %r which is not a valid writing (%s)" % (s, why))
            if why_invalid is not None:
                n_invalid_stream += 1
                if pywf or why != why_invalid:
                    machinery.append("invalid stream: %r expected %s, Python oracle says %s %s" % (s, why_invalid, pywf, why))
            if wf != wf_gen and len(wf_drift) < 50:
                wf_drift.append({"pattern": s, "multi": multi, "WFRef": wf, "WF_generated_tables": wf_gen})
            in_dom = pywf and wf
            # ---- denotation: the generator's own record (or, for corpus strings, the Python reading of the tree)
            atoms, bonds, _marks, has_rc, _open = py_events(c)
            if wrote is not None:
                if wrote[0] != atoms or bonds_key(wrote[1]) != bonds_key(bonds):
                    machinery.append("generator record and Python reading of %r differ" % s)
                atoms, bonds = wrote
            expect = canon(expected_canon(atoms, bonds, has_rc, multi, aam, off)) if in_dom else None
            tags = list(t0) + ["valid_writing" if in_dom else "not_WF"]
            tags += [k for k in ("rings", "dots", "labels", "lower", "rc", "branches", "quad", "wild", "multidigit", "ring_bond", "ring_dot") if st[k]]
            tags += ring_form_tags(c)
            tags += ["multigraph" if multi else "simple", "aam" if aam else "no_aam", "off=%d" % off,
                     "atoms>=12" if st['atoms'] >= 12 else "atoms<12"]
            if in_dom:
                tags += ["elem:" + e for e in sorted({a[1] for a in atoms if a[0] == 'e' and len(a[1]) == 2})]
                tags += ["bond:" + e for e in sorted({b[1] for _, _, b in bonds if b is not None and b[0] == 's'})]
            # HISTORY scenarios: a fixed fraction (every 5th valid generated writing) goes through a reused Parser object
            hist = reused if (in_dom and wrote is not None and n_generated % 5 == 0) else None
            case = check_case(c, s, multi, aam, off, rng, tags=tags, in_domain=in_dom,
                              meta={"wf": wf, "wfcore": wfcore, "wf_generated_tables": wf_gen}, reused=hist)
            if hist is not None:
                history_cases += 1
                history_differs += not case.meta["reused_equals_fresh_object"]
            case.meta["_expect"] = expect
            cases.append(case)
            if in_dom and rng.random() < 0.5:
                cases.append(lex_case(c, s, tags=("lex",)))
        outs = r.evaluate(cases)
        for o in outs:
            expect = o.case.meta.pop("_expect", None)
            if o.ok_reply and o.case.req[1] == "check":
                if (o.extra[2] == "1") != o.case.meta["wf"] or (o.extra[3] == "1") != o.case.meta["wf_generated_tables"]:
                    machinery.append("driver ops wf and check disagree about %r" % o.case.meta["pattern"])
            if o.ok_reply and o.case.in_domain and o.case.req[1] == "check":
                exact_dis += o.extra[0] == "0"
                thm_dis += o.extra[1] == "0"
                spec_model_fail += o.spec_model == "0"
                # Python oracle vs Lean denoteRef: a mismatch is a machinery error
                if expect != o.extra[4]:
                    machinery.append("Python oracle and Lean denoteRef differ on %r: python %s lean %s" % (
                        o.case.meta["pattern"], sx_of(expect)[:400], sx_of(o.extra[4])[:400]))
                # Python oracle vs implementation: must coincide with the driver's spec_impl
                differs = expect != o.impl_c
                py_vs_impl += differs
                if differs != (o.spec_impl == "0"):
                    machinery.append("Python oracle and Lean spec verdict differ on %r" % o.case.meta["pattern"])
        # malformed stream (never decides the verdict)
        soups = []
        for _ in range(max(1, len(batch) // 8)):
            soups += soup_case(rng)
        for o in r.evaluate(soups) + [o for o in outs if not o.case.in_domain]:
            if o.ok_reply and (not o.corr or o.spec_fail) and len(ood_samples) < 10:
                ood_samples.append({"request": o.case.line()[:300], "pattern": o.case.meta.get("pattern"),
                                    "model": str(o.model)[:300], "impl": str(o.impl_c)[:300]})
    r.extra_cov["adjacency_order_disagreements_impl_vs_model"] = exact_dis
    r.extra_cov["model_graph_differs_from_denoteRef_graph"] = thm_dis
    r.extra_cov["spec_fails_on_model_output"] = spec_model_fail
    r.extra_cov["out_of_domain_disagreement_samples"] = ood_samples
    r.extra_cov["generated_writings_valid_by_construction"] = n_generated
    r.extra_cov["cases_by_entry_point"] = {k[len("tag:entry:"):]: v for k, v in sorted(r.dist.items()) if k.startswith("tag:entry:")}
    r.extra_cov["cases_by_ring_form"] = {k[len("tag:"):]: v for k, v in sorted(r.dist.items()) if k.startswith(("tag:ring_label:", "tag:ring_bond:"))}
    r.extra_cov["history_cases_on_reused_parser_objects"] = history_cases
    r.extra_cov["history_cases_where_reused_object_differs_from_fresh_object"] = history_differs
    r.extra_cov["invalid_stream_cases"] = n_invalid_stream
    r.extra_cov["oracle_disagreements(python_vs_lean_reference,generator)"] = len(machinery)
    r.extra_cov["python_oracle_vs_implementation_mismatches"] = py_vs_impl
    r.extra_cov["WF_over_generated_tables_differs_from_WFRef"] = len(wf_drift)
    r.extra_cov["WF_drift_samples"] = wf_drift[:10]
    if machinery:
        p = r.write_replay("machinery", "oracles", {"note": "the Python oracle, the Lean reference specification and the generator must agree",
                                                    "disagreements": machinery[:20]})
        print("ERROR property=C01 %d disagreement(s) between the Python oracle / generator and the Lean reference "
              "specification (WFRef, denoteRef); first: %s; see %s" % (len(machinery), machinery[0][:300], p))
        r.finish(level="proof")
        return 2
    if wf_drift and r.build.proofs_ok:
        # C01.WF_eq_WFRef is proved for the tables of this build: a difference means the driver or the build is inconsistent
        print("ERROR property=C01 WF (generated tables) and WFRef differ on %d writings although WF_eq_WFRef checked: %r" % (
            len(wf_drift), wf_drift[0]))
        r.finish(level="proof")
        return 2
    if thm_dis and not r.corr_failures and not r.spec_failures and r.build.proofs_ok:
        # the model parser and `denoteRef` are proved equal (C01.parse_faithful_ref): a difference means the
        # driver or the build is inconsistent -> machinery failure, never a pass
        print("ERROR property=C01 model parser and denoteRef differ on %d valid writings" % thm_dis)
        r.finish(level="proof")
        return 2
    r.assumptions = r.assumptions + [
        "Python `re` ordered alternation over the nine token shapes is modelled by C01.lex (validated on every run, not verified)",
        "networkx add_node/add_edge container semantics are modelled by Model/Graph.lean",
        "input strings are ASCII (`\\d`, `str.islower` and `.` are modelled on ASCII)",
        "adjacency order of the parser's graph is compared and reported (adjacency_order_disagreements_impl_vs_model) but does not decide the verdict: the property does not speak about it",
        "the documented syntax is the hand-written reference of Model/C01Ref.lean (refAtoms, refBondTable, longest element symbol wins) "
        "and, independently, of harness/c01.py (DOC_ATOMS, DOC_BOND); the two are compared on every case",
    ]
    return r.finish(
        level="proof",
        rule="random syntax trees (1-20 atoms; every element of the documented alphabet incl. lower-case, R, {labels}; branches to depth 4; 0-4 ring "
             "closures with re-used and multi-digit ids (single digits 0-9 incl. 0 taken again after closing in 30% of the writings) placed before/between/after branches; in 20% "
             "of the writings a ring bond between TEXTUALLY CONSECUTIVE atoms that the text does not bond otherwise (ring opened on the last atom of a branch and closed on the "
             "first atom after it `CC(C1)C1`, ring closure across a dot `C1.C1`; tags ring_label:* / ring_bond:* by an oracle on the tree); ENTRY POINTS (tags entry:*): "
             "Parser.parse / calling the Parser object (offset positional, keyword, omitted), verbose=True, module-level parse() 30% of the simple-graph cases, reused object 20%; "
             "explicit vs implied bonds over - = # $ : . and <g,h>; dots "
             "in branches and before ring closures) x idx_offset x init_aam x use_multigraph; valid by construction; in-domain = Python oracle py_wf = Lean "
             "WFRef (reference tables, nothing regenerated from the source); non-trivial = >=3 atoms with a ring or branch, distinct by (string, options); "
             "1/16 invalid stream (11 kinds) and the malformed stream out of domain; HISTORY: every 5th valid generated writing is parsed on a long-lived "
             "Parser object per configuration (sessions of 2-40 writings; before it, 30% a <g,h> pattern, 30% a rejected string, 15% an unfinished "
             "pattern on the same object) and the spec is applied to that result; the replay records all preceding calls",
        checker_cmd="cd lean && lake build FGVerif.Proofs.C01 && lake env lean FGVerif/Audit/C01.lean",
        explanation="theorems in lean/FGVerif/Proofs/C01*.lean about Model/C01.lean (lexer + parser machine), Model/C01Spec.lean (Chain, render, denote, WF over the "
                    "regenerated tables) and Model/C01Ref.lean (WFRef, denoteRef over hand-written reference tables; WF_eq_WFRef, denote_eq_denoteRef under the table "
                    "obligations tbl_atom_reachable, tbl_atom_alphabet_documented, tbl_bond_orders_documented); model tied to fgutils.parse by differential testing "
                    "(tokens and graphs); the executable reference spec `denoteRef` and an independent Python oracle are compared with every implementation output")


def replay(path):
    """re-run the request of a replay file against the current tree and the driver"""
    from common import Driver, parse_sx, sx_of
    d = json.load(open(path))
    m = d.get("meta") or {}
    line = d.get("request_line")
    if not line:
        print("replay file has no request (proof obligation / correspondence record): %s" % d.get("theorem_or_correspondence"))
        return 1
    req = parse_sx(line)
    print("pattern: %r options: multi=%s aam=%s off=%s entry=%s" % (m.get("pattern"), m.get("multi"), m.get("aam"), m.get("off"),
                                                                    m.get("entry") or ("module-level parse()" if m.get("via_function") else "Parser.parse")))
    if m.get("history") is not None:
        print("%s had been used before for %d call(s) (the last ones):" % (
            "HISTORY scenario: the Parser object" if m.get("reused_parser") else "the module-level parse()", len(m["history"])))
        for c in m["history"][-12:]:
            print("    parse(%r, idx_offset=%s) -> %s" % (c["pattern"], c["off"], c["result"]))
    if req[1] == "check" and "pattern" in m:
        if m.get("reused_parser"):
            g = replay_history(bool(m["multi"]), bool(m["aam"]), m["history"], m["pattern"], int(m["off"]))
        elif m.get("history") is not None:
            g = ml_replay(m["history"], m["pattern"], int(m["off"]), bool(m["aam"]))
        else:
            g = call_impl(impl_parse, m["pattern"], bool(m["multi"]), bool(m["aam"]), int(m["off"]), False, m.get("entry"))
        can = g if isinstance(g, ImplError) else canon_graph(g)
        now = sx([Atom("raised"), Atom(can.kind)]) if isinstance(can, ImplError) else sx(can)
        print("implementation now : %s" % now)
        # re-send with the current implementation output
        head = line[:line.rfind(d["impl_output"])] if d.get("impl_output") and d["impl_output"] in line else None
        if head is not None:
            line = head + now + ")"
    if req[1] == "lex" and "pattern" in m:
        toks = call_impl(impl_tokens, m["pattern"])
        now = sx([Atom("raised"), Atom(toks.kind)]) if isinstance(toks, ImplError) else sx(toks)
        print("implementation now : %s" % now)
        line = sx_of(req[:-1])[:-1] + " " + now + ")"
    drv = Driver()
    rep = drv.ask(line)
    drv.close()
    print("driver reply       : %s" % sx_of(rep)[:2000])
    bad = isinstance(rep, list) and len(rep) >= 4 and rep[0] == "ok" and rep[3] == "0"
    print("spec on implementation output: %s" % ("FAILS" if bad else "holds"))
    return 1 if bad else 0
