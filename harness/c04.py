"""C04 — a reported match is a genuine embedding of the whole pattern; exact on acyclic host and
pattern (fails on `c04_not_embedding` outside known finding K2's scope and on
`c04_false_negative_acyclic`)."""
import c03_common

PROOFS = c03_common.PROOFS


def run(tier, seed):
    return c03_common.run("C04", tier, seed)


def replay(path):
    return c03_common.replay("C04", path)
