"""C13 — node substitution (`replace_node`, `relabel_graph`): exact correspondence with the Lean
model of the networkx operations + the declarative substitution spec applied to every
implementation output."""
import networkx as nx

from common import Atom, Case, Run, call_impl, prepare, enc_graph, sx, input_variant

PROOFS = ["FGVerif.Proofs.C13", "FGVerif.Proofs.C13Any", "FGVerif.Proofs.C13Offset", "FGVerif.Proofs.C13IdsA",
          "FGVerif.Proofs.C13Ids"]

ATOMS = ["C", "N", "O", "c", "S", "Cl", "n"]
SUBS = ["", "C", "NO", "C(=O)O", "c1ccccc1", "C<2,1>C", "S{q}", "C1CC1", "N(C)(C)C", "C=1CC=1", "C.O",
        "{a}C{b}", "O=S(=O)O", "C<1,2>C<2,1>C", "CC(C)(C)C"]


def rand_pattern(rng, n, its=False, n_labels=1, label_names=("g",), multi_label=0.0):
    """random SMILES-like string with branches and ring closures and `n_labels` label nodes"""
    toks = []
    open_rings = []
    nxt = 1
    depth = 0
    label_at = set(rng.sample(range(n), min(n, n_labels)))
    for i in range(n):
        if i > 0:
            r = rng.random()
            if its and r < 0.4:
                toks.append("<%d,%d>" % (rng.randint(0, 2), rng.randint(1, 2)))
            elif r < 0.55:
                toks.append(rng.choice(["=", "-", "#", ":"]))
        if i in label_at:
            names = [rng.choice(label_names)]
            while rng.random() < multi_label:
                names.append(rng.choice(label_names))
            toks.append("{" + ",".join(names) + "}")
        else:
            toks.append(rng.choice(ATOMS))
        k = 0
        while rng.random() < 0.35 and k < 2:
            k += 1
            closable = [q for q in open_rings if q[1] != i]     # never close a ring on the atom that opened it (self-loop)
            if closable and rng.random() < 0.6:
                if rng.random() < 0.3:
                    toks.append(rng.choice(["=", "-"]))
                q = closable[rng.randrange(len(closable))]
                open_rings.remove(q)
                toks.append(str(q[0]))
            elif nxt < 10:
                toks.append(str(nxt))
                open_rings.append((nxt, i))
                nxt += 1
        if depth > 0 and rng.random() < 0.3:
            toks.append(")")
            depth -= 1
        elif i < n - 1 and rng.random() < 0.3:
            toks.append("(")
            depth += 1
    toks.extend(")" * depth)
    return "".join(toks)


def parse_contract_ok(pattern, multi, offset):
    """assumed contract (part of C01): parse(p, idx_offset=k) is parse(p) with every id shifted by k"""
    from fgutils.parse import Parser
    g0 = enc_graph(Parser(use_multigraph=multi).parse(pattern))
    gk = enc_graph(Parser(use_multigraph=multi).parse(pattern, idx_offset=offset))
    sh = [g0[0], [[n[0] + offset] + n[1:] for n in g0[1]],
          [[r[0] + offset, [[e[0] + offset, e[1]] for e in r[1]]] for r in g0[2]]]
    return sx(sh) == sx(gk)


def check_model_spec(r, outs):
    """the model must pass its own executable spec on every in-domain case (a failure contradicts a theorem)"""
    bad = [o for o in outs if o.ok_reply and o.case.in_domain and o.spec_model == "0"]
    r.notes["model_spec_failures"] = r.notes.get("model_spec_failures", 0) + len(bad)
    if bad and r.notes.get("_model_spec_payload") is None:
        o = min(bad, key=lambda o: len(o.case.line()))
        r.notes["_model_spec_payload"] = r.outcome_payload(o)


def finalize_model_spec(r):
    """reported only when no implementation output fails the spec (otherwise the concrete replay says it all:
    the model follows the regenerated configuration / the implementation's own pattern)"""
    payload = r.notes.pop("_model_spec_payload", None)
    if payload is not None and not r.spec_failures:
        payload["theorem_or_correspondence"] = ["the Lean model fails the executable specification on this input (%d cases)"
                                                % r.notes.get("model_spec_failures", 0)]
        p = r.write_replay("proof-obligation", "model_spec", payload)
        r.violation_lines.append("VIOLATION property=%s replay=%s no-failing-input-found" % (r.prop, p))


CALL_FORMS = ("positional", "keyword", "graph_defaults", "graph_with_name_and_properties")


def call_form_of(*parts):
    """the argument form of a call, a fixed function of the input (a quarter each; no random draw: the input stream of
    a seed stays what it was)"""
    import zlib
    return zlib.crc32(repr(parts).encode("utf-8"))


def impl_replace(g, x, sub, anchors, multi, form="positional"):
    """replace_node in one of its documented argument forms: everything positional; everything by keyword (also the
    ProxyGraph); ProxyGraph(pattern) with the documented default anchor [0] where the anchors are [0]; a ProxyGraph that
    carries a name and extra graph properties"""
    from fgutils.parse import Parser
    from fgutils.proxy import replace_node, ProxyGraph
    parser = Parser(use_multigraph=multi)
    if form == "keyword":
        return enc_graph(replace_node(graph=g, node=x, replacement_graph=ProxyGraph(pattern=sub, anchor=list(anchors)), parser=parser))
    if form == "graph_defaults":
        pg = ProxyGraph(sub) if list(anchors) == [0] else ProxyGraph(sub, list(anchors))
        return enc_graph(replace_node(g, x, pg, parser=parser))
    if form == "graph_with_name_and_properties":
        return enc_graph(replace_node(g, x, ProxyGraph(sub, list(anchors), "sub", weight=2, group="q"), parser))
    return enc_graph(replace_node(g, x, ProxyGraph(sub, anchor=list(anchors)), parser))


def impl_relabel(g, offset, form="positional"):
    from fgutils.proxy import relabel_graph
    if form == "keyword":
        return enc_graph(relabel_graph(g, offset=offset))
    if form == "default" and offset == 0:
        return enc_graph(relabel_graph(g))
    return enc_graph(relabel_graph(g, offset))


def shuffled(g, rng):
    """same graph, nodes (and therefore adjacency rows) inserted in a random order"""
    h = g.__class__()
    ns = list(g.nodes)
    rng.shuffle(ns)
    for n in ns:
        h.add_node(n, **g.nodes[n])
    es = list(g.edges(keys=True, data=True)) if g.is_multigraph() else list(g.edges(data=True))
    rng.shuffle(es)
    for e in es:
        h.add_edge(*e[:-1], **e[-1])
    return h


def oracle_in_domain(g, x, hn, anchors):
    """the property's domain (`C13.inDomainIds`): ANY node ids (networkx keeps them distinct), the node present
    without a self-loop, anchors inside the sub-pattern"""
    return (x in g and not g.has_edge(x, x)
            and (hn == 0 or (len(anchors) >= 1 and all(0 <= a < hn for a in anchors))))


def oracle_contiguous(g):
    """ids are 0..n-1 in some node order (`C13.inDomainAny`, the domain of the theorems about `Spec`)"""
    ids = list(g.nodes)
    return sorted(ids) == list(range(len(ids)))


def next_id(g):
    """`max(graph.nodes, default=-1) + 1`: the repaired `idx_offset` (the model's `nextId`)"""
    return max(g.nodes, default=-1) + 1


def id_shape(g):
    ids = list(g.nodes)
    n = len(ids)
    if ids == list(range(n)):
        return "ids=0..n-1_ordered"
    if sorted(ids) == list(range(n)):
        return "ids=0..n-1_shuffled"
    inc = all(a < b for a, b in zip(ids, ids[1:]))
    if n and sorted(ids) == list(range(min(ids), min(ids) + n)):
        kind = "offset"
    else:
        kind = "sparse"
    return "ids=%s%s%s" % (kind, "" if inc else "_shuffled", "_negative" if n and min(ids) < 0 else "")


def renamed(g, mapping):
    """same graph under an injective renaming of the ids, node order, adjacency order and keys kept"""
    h = g.__class__()
    for n in g.nodes:
        h.add_node(mapping[n], **g.nodes[n])
    for n in g.nodes:
        for v, dd in g.adj[n].items():
            if g.is_multigraph():
                for k, d in dd.items():
                    h.add_edge(mapping[n], mapping[v], key=k, **d)
            else:
                h.add_edge(mapping[n], mapping[v], **dd)
    return h


def sparse_ids(g, rng, negative=False):
    """strictly increasing renaming with random gaps (optionally starting below zero)"""
    cur = -rng.randint(1, 2 * g.number_of_nodes() + 3) if negative else rng.randint(0, 4)
    mapping = {}
    for n in sorted(g.nodes):
        mapping[n] = cur
        cur += 1 + (rng.randint(0, 5) if rng.random() < 0.6 else 0)
    return renamed(g, mapping)


# replace_node / relabel_graph are PURE (they return a new graph): the parent may come in any form - with irrelevant
# extra attributes, with numpy ids (and numpy map numbers / half orders), frozen, or as a sub-graph view of a larger graph
VARIANT_KINDS = ("extra_attrs", "numpy", "frozen", "view")


def as_variant(g, rng, kinds=VARIANT_KINDS):
    v, form = input_variant(g, rng, kinds)
    if sx(enc_graph(v)) != sx(enc_graph(g)):
        raise AssertionError("input_variant changed the wire form (harness defect)")
    return v, form


def make_case(r, g, x, sub, anchors, multi, meta, tags, contract_cache, form_rng=None, variant_kinds=VARIANT_KINDS):
    """`form_rng`: the implementation receives the parent in another FORM (common.input_variant, kind drawn with that
    rng); request, oracles and tags are those of the plain parent"""
    from fgutils.parse import Parser
    n = g.number_of_nodes()
    off = next_id(g)
    key = (sub, multi, off)
    if key not in contract_cache:
        contract_cache[key] = parse_contract_ok(sub, multi, off)
        if not contract_cache[key]:
            r.notes.setdefault("parse_offset_contract_failures", []).append([sub, multi, off])
    h0 = Parser(use_multigraph=multi).parse(sub)
    hn = h0.number_of_nodes()
    in_dom = oracle_in_domain(g, x, hn, anchors)
    req = [Atom("C13"), Atom("replace"), enc_graph(g), x, enc_graph(h0), list(anchors)]
    # everything the harness says about the input is computed BEFORE the call (a mutated implementation may change `g`)
    deg = sum(1 for _ in g.edges(x)) if x in g else 0
    early = x in g and any(list(g.nodes).index(u) < list(g.nodes).index(x) for u in g.adj[x])
    late = x in g and any(list(g.nodes).index(u) > list(g.nodes).index(x) for u in g.adj[x])
    shape = id_shape(g)
    meta = dict(meta, node=x, sub=sub, anchors=list(anchors), multi=multi, ordered=list(g.nodes) == list(range(n)),
                contiguous=oracle_contiguous(g), next_id=off)
    g_impl = g
    if form_rng is not None:
        g_impl, form = as_variant(g, form_rng, variant_kinds)
        meta["variant"] = form
        tags = tuple(tags) + ("input_form", form)
    cform = CALL_FORMS[call_form_of(sub, list(anchors), x, n) % len(CALL_FORMS)]
    meta["call_form"] = cform
    out = call_impl(impl_replace, g_impl, x, sub, anchors, multi, cform)
    tags = tuple(tags) + (
        "call=" + cform,
        "multi" if multi else "simple",
        "sub_empty" if hn == 0 else "sub_nonempty",
        "overflow" if hn > 0 and deg > len(anchors) else "no_overflow",
        "anchors=%d" % len(anchors),
        "earlier+later_nbrs" if early and late else "one_sided_nbrs",
        "n>=7" if n >= 7 else "n<7",
        shape,
        "in_domain" if in_dom else "out_of_domain")
    ntk = (sx(req[2]), x, sub, tuple(anchors), meta.get("variant")) if in_dom and deg >= 1 else None
    return Case(req, out, in_domain=in_dom, meta=meta, nontrivial_key=ntk, tags=tags)


def _dec_str(a):
    return a[2:] if a.startswith("s:") else bytes.fromhex(a[2:]).decode("utf-8")


def _dec_label(x):
    if x == "_":
        return {}
    if isinstance(x, list):
        return {"bond": (int(x[0]) / 2, int(x[1]) / 2)}
    v = int(x) / 2
    return {"bond": int(v) if v == int(v) else v}


def dec_graph(w):
    """wire form (parsed s-expression) -> networkx graph with exactly that node, adjacency and key order"""
    multi = w[0] == "1"
    g = nx.MultiGraph() if multi else nx.Graph()
    for n in w[1]:
        attrs = {}
        if n[1] != "_":
            attrs["symbol"] = _dec_str(n[1])
        if n[2] != "_":
            attrs["labels"] = [_dec_str(x) for x in n[2]]
        if n[3] != "_":
            attrs["is_labeled"] = n[3] == "1"
        if n[4] != "_":
            attrs["aam"] = int(n[4])
        g.add_node(int(n[0]), **attrs)
    shared = {}
    for row in w[2]:
        u = int(row[0])
        for nb in row[1]:
            v = int(nb[0])
            key = (min(u, v), max(u, v))
            if key not in shared:
                shared[key] = ({int(k): _dec_label(l) for k, l in nb[1]} if multi else _dec_label(nb[1][0][1]))
            g._adj[u][v] = shared[key]
    return g


def replay(path):
    """re-run the request of a replay file against the current tree: the parent graph is rebuilt exactly
    from the request, the implementation is called again, the driver judges its output"""
    import json
    from common import Driver, parse_sx, Outcome
    d = json.load(open(path))
    if not d.get("request_line"):
        print("replay file carries no request (kind=%s): %s" % (d.get("kind"), d.get("theorem_or_correspondence")))
        return 1
    req = parse_sx(d["request_line"])
    meta = d.get("meta") or {}
    form = meta.get("variant")

    def formed(g):
        if form and form != "variant=plain":
            import random
            print("re-applied the recorded input form: %s" % form)
            return input_variant(g, random.Random(d.get("seed", 0)), (form.split("=")[1],))[0]
        return g
    if req[1] == "replace":
        g = dec_graph(req[2])
        out = call_impl(impl_replace, formed(g), int(req[3]), meta["sub"], [int(a) for a in req[5]], meta["multi"], meta.get("call_form", "positional"))
        case = Case([Atom("C13"), Atom("replace"), enc_graph(g), int(req[3]), enc_graph(dec_graph(req[4])), [int(a) for a in req[5]]], out, meta=meta)
    else:
        g = dec_graph(req[2])
        out = call_impl(impl_relabel, formed(g), int(req[3]), meta.get("call_form", "positional"))
        case = Case([Atom("C13"), Atom("relabel"), enc_graph(g), int(req[3])], out, meta=meta)
    drv = Driver()
    o = Outcome(case, drv.ask(case.line()))
    drv.close()
    print("replay %s: implementation output %s the specification; model %s implementation"
          % (path, "VIOLATES" if o.spec_fail else "meets", "==" if o.corr else "!="))
    if o.spec_fail or not o.corr:
        print("VIOLATION property=C13 replay=%s%s" % (path, "" if o.spec_fail else " no-failing-input-found"))
        return 1
    return 0


def gen_parent(rng, multi, big=False):
    from fgutils.parse import Parser
    for _ in range(50):
        its = rng.random() < 0.4
        s = rand_pattern(rng, rng.randint(2, 16 if big else 9), its, n_labels=rng.randint(1, 2))
        try:
            g = Parser(use_multigraph=multi).parse(s)
        except Exception:
            continue
        if g.number_of_nodes() >= 1:
            return s, g
    return "C{g}", Parser(use_multigraph=multi).parse("C{g}")


def run(tier, seed):
    from fgutils.parse import Parser
    from fgutils.proxy import replace_node, ProxyGraph
    r = Run("C13", tier, seed)
    if not prepare(r, PROOFS, "C13"):
        return 2
    rng = r.rng
    n_cases = 1200 if tier == "quick" else 120000
    cases = []
    cc = {}
    # corpus: the witnesses of DESIGN §6/C13 and the §10 mutants' trigger shapes
    corpus = [
        ("C1C{g}(C)1", 2, "NO", [0, 1], True),            # adjacency [1,3,0] but anchors handed out as [0,1,3]
        ("C1C{g}(C)1", 2, "NO", [1], True),               # overflow: every bond to the last anchor
        ("C1C{g}(C)1", 2, "", [0], True),                 # empty pattern deletes node and bonds
        ("C1{g}1", 1, "O", [0], True),                    # parallel bonds onto the label node
        ("C1{g}1", 1, "O", [0], False),
        ("CCCCCCC{g}CCCCCCC", 7, "C(=O)O", [0, 2], True),  # ids 6, 13 are renumbered (m35)
        ("CCCCCC{g}(C)(C)C", 6, "CC", [1, 0], True),      # 4 bonds, 2 anchors (m23)
        ("C<2,1>{g}<1,2>C", 1, "C<0,1>C", [0, 1], True),  # ITS-labelled incident bonds
        ("{g}", 0, "CC", [0], True),
        ("C{g}=1-1C", 1, "NO", [0], True),                # self-loop on the node: outside the domain
    ]
    for s, x, sub, anchors, multi in corpus:
        g = Parser(use_multigraph=multi).parse(s)
        cases.append(make_case(r, g, x, sub, anchors, multi, {"parent": s}, ("corpus",), cc))
        for kind in VARIANT_KINDS:        # every corpus parent also in every other input form
            g = Parser(use_multigraph=multi).parse(s)
            cases.append(make_case(r, g, x, sub, anchors, multi, {"parent": s}, ("corpus",), cc, form_rng=rng, variant_kinds=(kind,)))
    # parents whose ids are not 0..n-1 (review round 1): `idx_offset = len(graph.nodes)` was an id in use there
    corpus_offset = [
        ("{g}CC", 2, 2, "N", [0], True),                  # replace_next_node(parse("{g}CC", idx_offset=2), {g: [N, O, S]})
        ("{g}CC", 2, 2, "O", [0], True),
        ("{g}CC", 2, 2, "S", [0], True),
        ("C{g}C", 2, 3, "N", [0], True),                  # lost a carbon
        ("C{g}C", 2, 3, "NO", [0, 1], False),
        ("C1C{g}(C)1", 5, 7, "NO", [0, 1], True),
        ("C{g}C", 1, 2, "", [0], True),                   # empty pattern on offset ids
    ]
    for s, k, x, sub, anchors, multi in corpus_offset:
        g = Parser(use_multigraph=multi).parse(s, idx_offset=k)
        cases.append(make_case(r, g, x, sub, anchors, multi, {"parent": s, "idx_offset": k}, ("corpus", "corpus=offset_ids"), cc))
    g = renamed(Parser(use_multigraph=True).parse("C1C{g}(C)1"), {0: 7, 1: -3, 2: 2, 3: 40})
    cases.append(make_case(r, g, 2, "NO", [0, 1], True, {"parent": "C1C{g}(C)1 on ids 7,-3,2,40"}, ("corpus", "corpus=sparse_negative_ids"), cc))
    stats = {"dom_mismatch": 0, "inc_bad": 0, "exact_bad": 0}

    def process(batch):
        # extras of the replace op: the driver's own in-domain predicate, "incident order = incSpec",
        # "labels in the very order of specLabels"
        outs = r.evaluate(batch)
        check_model_spec(r, outs)
        for o in outs:
            if o.ok_reply and len(o.extra) >= 3:
                if o.case.in_domain and o.extra[1] != "1":
                    stats["inc_bad"] += 1
                if o.case.in_domain and o.extra[2] != "1":
                    stats["exact_bad"] += 1
                if (o.extra[0] == "1") != (o.case.in_domain and o.case.meta.get("ordered", False)):
                    stats["dom_mismatch"] += 1
                # `inDomainAny` (ids 0..n-1 in any node order: the theorems about `Spec`) and `inDomainIds` (any ids: the
                # theorems about `SpecIds`, the property's domain) must be what the oracle says
                if len(o.extra) >= 6:
                    if (o.extra[3] == "1") != (bool(o.case.in_domain) and o.case.meta.get("contiguous", False)):
                        stats["dom_mismatch"] += 1
                    if (o.extra[4] == "1") != bool(o.case.in_domain):
                        stats["dom_mismatch"] += 1
                    if "next_id" in o.case.meta and str(o.extra[5]) != str(o.case.meta["next_id"]):
                        stats["dom_mismatch"] += 1
                    if o.case.in_domain:
                        r.count("theorem_domain:ordered(inDomain)" if o.extra[0] == "1"
                                else "theorem_domain:shuffled_order(inDomainAny)" if o.extra[3] == "1"
                                else "theorem_domain:arbitrary_ids(inDomainIds)")
                else:
                    stats["dom_mismatch"] += 1

    for k in range(n_cases):
        if len(cases) >= 2000:
            process(cases)
            cases = []
        multi = rng.random() < 0.6
        s, g = gen_parent(rng, multi, big=(k % 5 == 0))
        meta = {"parent": s}
        tags = []
        style = rng.random()
        if style < 0.25:
            # parent = result of an earlier substitution (what build_graphs feeds back)
            xs = [u for u, d in g.nodes(data=True) if d["is_labeled"]] or list(g.nodes)
            sub0 = rng.choice(SUBS[1:])
            try:
                g = replace_node(g, xs[0], ProxyGraph(sub0), Parser(use_multigraph=multi))
                meta["pre_substituted"] = sub0
                tags.append("parent=substituted")
            except Exception:
                tags.append("parent=parsed")
        elif style < 0.33:
            g = shuffled(g, rng)
            tags.append("parent=shuffled_order")
        elif style < 0.45:
            k0 = rng.randint(1, 7)
            g = Parser(use_multigraph=multi).parse(s, idx_offset=k0)
            meta["idx_offset"] = k0
            tags.append("parent=offset_ids")
        elif style < 0.53:
            g = sparse_ids(g, rng)
            tags.append("parent=sparse_ids")
        elif style < 0.59:
            g = shuffled(sparse_ids(g, rng, negative=rng.random() < 0.5), rng)
            tags.append("parent=sparse_ids_shuffled_order")
        elif style < 0.66:
            if rng.random() < 0.5:
                g = sparse_ids(g, rng, negative=True)
            else:
                sh = rng.randint(1, g.number_of_nodes() + 4)       # a block of consecutive ids that starts below zero
                g = renamed(g, {u: u - sh for u in g.nodes})
            tags.append("parent=negative_ids")
        elif style < 0.72 and g.number_of_nodes() >= 3:
            drop = rng.sample(list(g.nodes), rng.randint(1, max(1, g.number_of_nodes() // 3)))
            g = g.subgraph([u for u in g.nodes if u not in drop]).copy()
            tags.append("parent=subgraph_of_parsed")
        else:
            tags.append("parent=parsed")
        nodes = list(g.nodes)
        lab = [u for u in nodes if g.nodes[u]["is_labeled"]]
        x = rng.choice(lab) if lab and rng.random() < 0.7 else rng.choice(nodes)
        if rng.random() < 0.6:
            sub = rng.choice(SUBS)
        else:
            sub = rand_pattern(rng, rng.randint(1, 6), rng.random() < 0.3, n_labels=rng.randint(0, 1), label_names=("q", "g"))
        try:
            hn = Parser(use_multigraph=multi).parse(sub).number_of_nodes()
        except Exception:
            sub = "CO"
            hn = 2
        anchors = [rng.randrange(hn) for _ in range(rng.randint(1, 4))] if hn else [0]
        if hn and len(anchors) == 4 and k % 2 == 0:
            # anchor lists of length 5-6 (a fixed function of the list drawn: the seed's input stream stays what it was)
            anchors = anchors + [(anchors[0] + 1) % hn] + ([anchors[1]] if k % 4 == 0 else [])
        # the FORM of the input (12%): the same parent with extra attributes / numpy ids / frozen / as a view
        cases.append(make_case(r, g, x, sub, anchors, multi, meta, tags, cc, form_rng=rng if rng.random() < 0.12 else None))
        if k % 6 == 0:
            off = rng.randint(0, 3)
            gg = shuffled(g, rng) if rng.random() < 0.5 else g
            if rng.random() < 0.5 and gg.number_of_nodes() > 1:
                gg = gg.copy()
                gg.remove_node(rng.choice(list(gg.nodes)))
            req = [Atom("C13"), Atom("relabel"), enc_graph(gg), off]
            form = None
            if rng.random() < 0.12:
                gg, form = as_variant(gg, rng)
            cform = ("positional", "keyword", "default")[call_form_of(off, gg.number_of_nodes(), k) % 3]
            if cform == "default" and off != 0:
                cform = "positional"               # relabel_graph(g) is the call with offset 0
            out = call_impl(impl_relabel, gg, off, cform)
            cases.append(Case(req, out, meta={"offset": off, "variant": form, "call_form": cform},
                              tags=("relabel", "call=" + cform, "n>=7" if gg.number_of_nodes() >= 7 else "n<7") + (("input_form", form) if form else ()),
                              nontrivial_key=("relabel", sx(req[2]), off, form) if gg.number_of_nodes() >= 2 else None))
    process(cases)
    dom_mismatch, inc_bad, exact_bad = stats["dom_mismatch"], stats["inc_bad"], stats["exact_bad"]
    r.notes["model_labels_in_spec_order_failures"] = exact_bad
    r.notes["incident_order_model_vs_incSpec_failures"] = inc_bad
    r.notes["domain_predicate_mismatches"] = dom_mismatch
    finalize_model_spec(r)
    r.extra_cov["notes"] = r.notes
    if r.notes.get("parse_offset_contract_failures"):
        p = r.write_replay("correspondence", "parse_offset_contract",
                           {"theorem_or_correspondence": ["assumed contract parse(p, idx_offset=k) = shift (parse p) k (C01)"],
                            "witnesses": r.notes["parse_offset_contract_failures"][:5]})
        r.violation_lines.append("VIOLATION property=C13 replay=%s no-failing-input-found" % p)
    if inc_bad or dom_mismatch or exact_bad:
        p = r.write_replay("correspondence", "incident_order", {"theorem_or_correspondence": [
            "compose model's incident-edge order vs incSpec: %d, domain predicate mismatches: %d, label order: %d" % (inc_bad, dom_mismatch, exact_bad)]})
        r.violation_lines.append("VIOLATION property=C13 replay=%s no-failing-input-found" % p)
    r.assumptions = [
        "networkx container semantics (add_edge with/without key, compose_all, _relabel_copy for injective mappings, remove_node, "
        "edges()/edges(n) iteration order) are modelled in Model/C13.lean + Model/Graph.lean and validated by exact comparison "
        "(node order, adjacency order, edge keys) on every case",
        "parse(p, idx_offset=k) = shift (parse(p, 0)) k (part of C01's theorem; checked here on every (pattern, offset) used)",
        "graph.copy() in replace_next_node is not part of replace_node; the _relabel_copy key-conflict loop is not modelled (mapping injective)",
    ]
    return r.finish(
        level="proof",
        rule="parents from the real parser on random SMILES-like strings (2-16 nodes, rings, branches, parallel bonds, ITS labels; "
             "simple and multigraph), 25% results of an earlier substitution, 8% shuffled node order, and ARBITRARY ids (in domain): "
             "12% offset ids (parse with idx_offset 1..7), 8% sparse increasing ids, 6% sparse ids in shuffled node order (half negative), "
             "7% negative sparse ids, 6% sub-graphs of parsed graphs; 12% of the parents (and every corpus parent) handed over in another FORM "
             "(extra node/edge attributes, numpy.int64 ids, nx.freeze, sub-graph view of a larger graph; tags variant=*); "
             "replaced node = label node (70%) or any node; sub-patterns from a fixed list and random (0-7 nodes, nested labels, ITS), "
             "1-4 anchors, overflow; non-trivial = in-domain with at least one incident bond, distinct by (parent, node, sub, anchors)",
        checker_cmd="cd lean && lake build FGVerif.Proofs.C13 FGVerif.Proofs.C13Any FGVerif.Proofs.C13Ids && lake env lean FGVerif/Audit/C13.lean",
        explanation="theorems in lean/FGVerif/Proofs/C13*.lean about Model/C13.lean; model tied to fgutils.proxy.replace_node/relabel_graph by "
                    "exact differential testing; executable spec C13.specCheckIds (arbitrary ids; and C13.specCheck where the ids are "
                    "0..n-1) applied to every implementation output")
