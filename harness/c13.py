"""C13 — node substitution (`replace_node`, `relabel_graph`): exact correspondence with the Lean
model of the networkx operations + the declarative substitution spec applied to every
implementation output."""
import networkx as nx

from common import Atom, Case, Run, call_impl, prepare, enc_graph, sx

PROOFS = ["FGVerif.Proofs.C13", "FGVerif.Proofs.C13Any"]

ATOMS = ["C", "N", "O", "c", "S", "Cl", "n"]
SUBS = ["", "C", "NO", "C(=O)O", "c1ccccc1", "C<2,1>C", "S{q}", "C1CC1", "N(C)(C)C", "C=1CC=1", "C.O",
        "{a}C{b}", "O=S(=O)O", "C<1,2>C<2,1>C", "CC(C)(C)C"]


def rand_pattern(rng, n, its=False, n_labels=1, label_names=("g",), multi_label=0.0):
    """random SMILES-like string with branches and ring closures and `n_labels` label nodes"""
    toks = []
    open_rings = []
    nxt = 1
    depth = 0
    label_at = set(rng.sample(range(n), min(n, n_labels)))
    for i in range(n):
        if i > 0:
            r = rng.random()
            if its and r < 0.4:
                toks.append("<%d,%d>" % (rng.randint(0, 2), rng.randint(1, 2)))
            elif r < 0.55:
                toks.append(rng.choice(["=", "-", "#", ":"]))
        if i in label_at:
            names = [rng.choice(label_names)]
            while rng.random() < multi_label:
                names.append(rng.choice(label_names))
            toks.append("{" + ",".join(names) + "}")
        else:
            toks.append(rng.choice(ATOMS))
        k = 0
        while rng.random() < 0.35 and k < 2:
            k += 1
            closable = [q for q in open_rings if q[1] != i]     # never close a ring on the atom that opened it (self-loop)
            if closable and rng.random() < 0.6:
                if rng.random() < 0.3:
                    toks.append(rng.choice(["=", "-"]))
                q = closable[rng.randrange(len(closable))]
                open_rings.remove(q)
                toks.append(str(q[0]))
            elif nxt < 10:
                toks.append(str(nxt))
                open_rings.append((nxt, i))
                nxt += 1
        if depth > 0 and rng.random() < 0.3:
            toks.append(")")
            depth -= 1
        elif i < n - 1 and rng.random() < 0.3:
            toks.append("(")
            depth += 1
    toks.extend(")" * depth)
    return "".join(toks)


def parse_contract_ok(pattern, multi, offset):
    """assumed contract (part of C01): parse(p, idx_offset=k) is parse(p) with every id shifted by k"""
    from fgutils.parse import Parser
    g0 = enc_graph(Parser(use_multigraph=multi).parse(pattern))
    gk = enc_graph(Parser(use_multigraph=multi).parse(pattern, idx_offset=offset))
    sh = [g0[0], [[n[0] + offset] + n[1:] for n in g0[1]],
          [[r[0] + offset, [[e[0] + offset, e[1]] for e in r[1]]] for r in g0[2]]]
    return sx(sh) == sx(gk)


def check_model_spec(r, outs):
    """the model must pass its own executable spec on every in-domain case (a failure contradicts a theorem)"""
    bad = [o for o in outs if o.ok_reply and o.case.in_domain and o.spec_model == "0"]
    r.notes["model_spec_failures"] = r.notes.get("model_spec_failures", 0) + len(bad)
    if bad and r.notes.get("_model_spec_payload") is None:
        o = min(bad, key=lambda o: len(o.case.line()))
        r.notes["_model_spec_payload"] = r.outcome_payload(o)


def finalize_model_spec(r):
    """reported only when no implementation output fails the spec (otherwise the concrete replay says it all:
    the model follows the regenerated configuration / the implementation's own pattern)"""
    payload = r.notes.pop("_model_spec_payload", None)
    if payload is not None and not r.spec_failures:
        payload["theorem_or_correspondence"] = ["the Lean model fails the executable specification on this input (%d cases)"
                                                % r.notes.get("model_spec_failures", 0)]
        p = r.write_replay("proof-obligation", "model_spec", payload)
        r.violation_lines.append("VIOLATION property=%s replay=%s no-failing-input-found" % (r.prop, p))


def impl_replace(g, x, sub, anchors, multi):
    from fgutils.parse import Parser
    from fgutils.proxy import replace_node, ProxyGraph
    return enc_graph(replace_node(g, x, ProxyGraph(sub, anchor=list(anchors)), Parser(use_multigraph=multi)))


def impl_relabel(g, offset):
    from fgutils.proxy import relabel_graph
    return enc_graph(relabel_graph(g, offset))


def shuffled(g, rng):
    """same graph, nodes (and therefore adjacency rows) inserted in a random order"""
    h = g.__class__()
    ns = list(g.nodes)
    rng.shuffle(ns)
    for n in ns:
        h.add_node(n, **g.nodes[n])
    es = list(g.edges(keys=True, data=True)) if g.is_multigraph() else list(g.edges(data=True))
    rng.shuffle(es)
    for e in es:
        h.add_edge(*e[:-1], **e[-1])
    return h


def oracle_in_domain(g, x, hn, anchors):
    ids = list(g.nodes)
    return (sorted(ids) == list(range(len(ids))) and x in g and not g.has_edge(x, x)
            and (hn == 0 or (len(anchors) >= 1 and all(0 <= a < hn for a in anchors))))


def make_case(r, g, x, sub, anchors, multi, meta, tags, contract_cache):
    from fgutils.parse import Parser
    n = g.number_of_nodes()
    key = (sub, multi, n)
    if key not in contract_cache:
        contract_cache[key] = parse_contract_ok(sub, multi, n)
        if not contract_cache[key]:
            r.notes.setdefault("parse_offset_contract_failures", []).append([sub, multi, n])
    h0 = Parser(use_multigraph=multi).parse(sub)
    hn = h0.number_of_nodes()
    in_dom = oracle_in_domain(g, x, hn, anchors)
    req = [Atom("C13"), Atom("replace"), enc_graph(g), x, enc_graph(h0), list(anchors)]
    out = call_impl(impl_replace, g, x, sub, anchors, multi)
    deg = sum(1 for _ in g.edges(x)) if x in g else 0
    early = x in g and any(list(g.nodes).index(u) < list(g.nodes).index(x) for u in g.adj[x])
    late = x in g and any(list(g.nodes).index(u) > list(g.nodes).index(x) for u in g.adj[x])
    tags = tuple(tags) + (
        "multi" if multi else "simple",
        "sub_empty" if hn == 0 else "sub_nonempty",
        "overflow" if hn > 0 and deg > len(anchors) else "no_overflow",
        "anchors=%d" % len(anchors),
        "earlier+later_nbrs" if early and late else "one_sided_nbrs",
        "n>=7" if n >= 7 else "n<7",
        "in_domain" if in_dom else "out_of_domain")
    ntk = (sx(req[2]), x, sub, tuple(anchors)) if in_dom and deg >= 1 else None
    meta = dict(meta, node=x, sub=sub, anchors=list(anchors), multi=multi, ordered=list(g.nodes) == list(range(n)))
    return Case(req, out, in_domain=in_dom, meta=meta, nontrivial_key=ntk, tags=tags)


def _dec_str(a):
    return a[2:] if a.startswith("s:") else bytes.fromhex(a[2:]).decode("utf-8")


def _dec_label(x):
    if x == "_":
        return {}
    if isinstance(x, list):
        return {"bond": (int(x[0]) / 2, int(x[1]) / 2)}
    v = int(x) / 2
    return {"bond": int(v) if v == int(v) else v}


def dec_graph(w):
    """wire form (parsed s-expression) -> networkx graph with exactly that node, adjacency and key order"""
    multi = w[0] == "1"
    g = nx.MultiGraph() if multi else nx.Graph()
    for n in w[1]:
        attrs = {}
        if n[1] != "_":
            attrs["symbol"] = _dec_str(n[1])
        if n[2] != "_":
            attrs["labels"] = [_dec_str(x) for x in n[2]]
        if n[3] != "_":
            attrs["is_labeled"] = n[3] == "1"
        if n[4] != "_":
            attrs["aam"] = int(n[4])
        g.add_node(int(n[0]), **attrs)
    shared = {}
    for row in w[2]:
        u = int(row[0])
        for nb in row[1]:
            v = int(nb[0])
            key = (min(u, v), max(u, v))
            if key not in shared:
                shared[key] = ({int(k): _dec_label(l) for k, l in nb[1]} if multi else _dec_label(nb[1][0][1]))
            g._adj[u][v] = shared[key]
    return g


def replay(path):
    """re-run the request of a replay file against the current tree: the parent graph is rebuilt exactly
    from the request, the implementation is called again, the driver judges its output"""
    import json
    from common import Driver, parse_sx, Outcome
    d = json.load(open(path))
    if not d.get("request_line"):
        print("replay file carries no request (kind=%s): %s" % (d.get("kind"), d.get("theorem_or_correspondence")))
        return 1
    req = parse_sx(d["request_line"])
    meta = d.get("meta") or {}
    if req[1] == "replace":
        g = dec_graph(req[2])
        out = call_impl(impl_replace, g, int(req[3]), meta["sub"], [int(a) for a in req[5]], meta["multi"])
        case = Case([Atom("C13"), Atom("replace"), enc_graph(g), int(req[3]), enc_graph(dec_graph(req[4])), [int(a) for a in req[5]]], out, meta=meta)
    else:
        g = dec_graph(req[2])
        out = call_impl(impl_relabel, g, int(req[3]))
        case = Case([Atom("C13"), Atom("relabel"), enc_graph(g), int(req[3])], out, meta=meta)
    drv = Driver()
    o = Outcome(case, drv.ask(case.line()))
    drv.close()
    print("replay %s: implementation output %s the specification; model %s implementation"
          % (path, "VIOLATES" if o.spec_fail else "meets", "==" if o.corr else "!="))
    if o.spec_fail or not o.corr:
        print("VIOLATION property=C13 replay=%s%s" % (path, "" if o.spec_fail else " no-failing-input-found"))
        return 1
    return 0


def gen_parent(rng, multi, big=False):
    from fgutils.parse import Parser
    for _ in range(50):
        its = rng.random() < 0.4
        s = rand_pattern(rng, rng.randint(2, 16 if big else 9), its, n_labels=rng.randint(1, 2))
        try:
            g = Parser(use_multigraph=multi).parse(s)
        except Exception:
            continue
        if g.number_of_nodes() >= 1:
            return s, g
    return "C{g}", Parser(use_multigraph=multi).parse("C{g}")


def run(tier, seed):
    from fgutils.parse import Parser
    from fgutils.proxy import replace_node, ProxyGraph
    r = Run("C13", tier, seed)
    if not prepare(r, PROOFS, "C13"):
        return 2
    rng = r.rng
    n_cases = 1200 if tier == "quick" else 120000
    cases = []
    cc = {}
    # corpus: the witnesses of DESIGN §6/C13 and the §10 mutants' trigger shapes
    corpus = [
        ("C1C{g}(C)1", 2, "NO", [0, 1], True),            # adjacency [1,3,0] but anchors handed out as [0,1,3]
        ("C1C{g}(C)1", 2, "NO", [1], True),               # overflow: every bond to the last anchor
        ("C1C{g}(C)1", 2, "", [0], True),                 # empty pattern deletes node and bonds
        ("C1{g}1", 1, "O", [0], True),                    # parallel bonds onto the label node
        ("C1{g}1", 1, "O", [0], False),
        ("CCCCCCC{g}CCCCCCC", 7, "C(=O)O", [0, 2], True),  # ids 6, 13 are renumbered (m35)
        ("CCCCCC{g}(C)(C)C", 6, "CC", [1, 0], True),      # 4 bonds, 2 anchors (m23)
        ("C<2,1>{g}<1,2>C", 1, "C<0,1>C", [0, 1], True),  # ITS-labelled incident bonds
        ("{g}", 0, "CC", [0], True),
        ("C{g}=1-1C", 1, "NO", [0], True),                # self-loop on the node: outside the domain
    ]
    for s, x, sub, anchors, multi in corpus:
        g = Parser(use_multigraph=multi).parse(s)
        cases.append(make_case(r, g, x, sub, anchors, multi, {"parent": s}, ("corpus",), cc))
    stats = {"dom_mismatch": 0, "inc_bad": 0, "exact_bad": 0}

    def process(batch):
        # extras of the replace op: the driver's own in-domain predicate, "incident order = incSpec",
        # "labels in the very order of specLabels"
        outs = r.evaluate(batch)
        check_model_spec(r, outs)
        for o in outs:
            if o.ok_reply and len(o.extra) >= 3:
                if o.case.in_domain and o.extra[1] != "1":
                    stats["inc_bad"] += 1
                if o.case.in_domain and o.extra[2] != "1":
                    stats["exact_bad"] += 1
                if (o.extra[0] == "1") != (o.case.in_domain and o.case.meta.get("ordered", False)):
                    stats["dom_mismatch"] += 1
                # the full domain of the theorems (`inDomainAny`: ids 0..n-1 in any node order) = the oracle's domain
                if len(o.extra) >= 4:
                    if (o.extra[3] == "1") != bool(o.case.in_domain):
                        stats["dom_mismatch"] += 1
                    if o.case.in_domain:
                        r.count("theorem_domain:ordered(inDomain)" if o.extra[0] == "1" else "theorem_domain:shuffled_order(inDomainAny)")

    for k in range(n_cases):
        if len(cases) >= 2000:
            process(cases)
            cases = []
        multi = rng.random() < 0.6
        s, g = gen_parent(rng, multi, big=(k % 5 == 0))
        meta = {"parent": s}
        tags = []
        style = rng.random()
        if style < 0.25:
            # parent = result of an earlier substitution (what build_graphs feeds back)
            xs = [u for u, d in g.nodes(data=True) if d["is_labeled"]] or list(g.nodes)
            sub0 = rng.choice(SUBS[1:])
            try:
                g = replace_node(g, xs[0], ProxyGraph(sub0), Parser(use_multigraph=multi))
                meta["pre_substituted"] = sub0
                tags.append("parent=substituted")
            except Exception:
                tags.append("parent=parsed")
        elif style < 0.35:
            g = shuffled(g, rng)
            tags.append("parent=shuffled_order")
        elif style < 0.40:
            g = Parser(use_multigraph=multi).parse(s, idx_offset=rng.randint(1, 3))
            tags.append("parent=offset_ids")
        else:
            tags.append("parent=parsed")
        nodes = list(g.nodes)
        lab = [u for u in nodes if g.nodes[u]["is_labeled"]]
        x = rng.choice(lab) if lab and rng.random() < 0.7 else rng.choice(nodes)
        if rng.random() < 0.6:
            sub = rng.choice(SUBS)
        else:
            sub = rand_pattern(rng, rng.randint(1, 6), rng.random() < 0.3, n_labels=rng.randint(0, 1), label_names=("q", "g"))
        try:
            hn = Parser(use_multigraph=multi).parse(sub).number_of_nodes()
        except Exception:
            sub = "CO"
            hn = 2
        anchors = [rng.randrange(hn) for _ in range(rng.randint(1, 4))] if hn else [0]
        cases.append(make_case(r, g, x, sub, anchors, multi, meta, tags, cc))
        if k % 6 == 0:
            off = rng.randint(0, 3)
            gg = shuffled(g, rng) if rng.random() < 0.5 else g
            if rng.random() < 0.5 and gg.number_of_nodes() > 1:
                gg = gg.copy()
                gg.remove_node(rng.choice(list(gg.nodes)))
            out = call_impl(impl_relabel, gg, off)
            req = [Atom("C13"), Atom("relabel"), enc_graph(gg), off]
            cases.append(Case(req, out, meta={"offset": off}, tags=("relabel", "n>=7" if gg.number_of_nodes() >= 7 else "n<7"),
                              nontrivial_key=("relabel", sx(req[2]), off) if gg.number_of_nodes() >= 2 else None))
    process(cases)
    dom_mismatch, inc_bad, exact_bad = stats["dom_mismatch"], stats["inc_bad"], stats["exact_bad"]
    r.notes["model_labels_in_spec_order_failures"] = exact_bad
    r.notes["incident_order_model_vs_incSpec_failures"] = inc_bad
    r.notes["domain_predicate_mismatches"] = dom_mismatch
    finalize_model_spec(r)
    r.extra_cov["notes"] = r.notes
    if r.notes.get("parse_offset_contract_failures"):
        p = r.write_replay("correspondence", "parse_offset_contract",
                           {"theorem_or_correspondence": ["assumed contract parse(p, idx_offset=k) = shift (parse p) k (C01)"],
                            "witnesses": r.notes["parse_offset_contract_failures"][:5]})
        r.violation_lines.append("VIOLATION property=C13 replay=%s no-failing-input-found" % p)
    if inc_bad or dom_mismatch or exact_bad:
        p = r.write_replay("correspondence", "incident_order", {"theorem_or_correspondence": [
            "compose model's incident-edge order vs incSpec: %d, domain predicate mismatches: %d, label order: %d" % (inc_bad, dom_mismatch, exact_bad)]})
        r.violation_lines.append("VIOLATION property=C13 replay=%s no-failing-input-found" % p)
    r.assumptions = [
        "networkx container semantics (add_edge with/without key, compose_all, _relabel_copy for injective mappings, remove_node, "
        "edges()/edges(n) iteration order) are modelled in Model/C13.lean + Model/Graph.lean and validated by exact comparison "
        "(node order, adjacency order, edge keys) on every case",
        "parse(p, idx_offset=k) = shift (parse(p, 0)) k (part of C01's theorem; checked here on every (pattern, offset) used)",
        "graph.copy() in replace_next_node is not part of replace_node; the _relabel_copy key-conflict loop is not modelled (mapping injective)",
    ]
    return r.finish(
        level="proof",
        rule="parents from the real parser on random SMILES-like strings (2-16 nodes, rings, branches, parallel bonds, ITS labels; "
             "simple and multigraph), 25% results of an earlier substitution, 10% shuffled node order, 5% offset ids (out of domain); "
             "replaced node = label node (70%) or any node; sub-patterns from a fixed list and random (0-7 nodes, nested labels, ITS), "
             "1-4 anchors, overflow; non-trivial = in-domain with at least one incident bond, distinct by (parent, node, sub, anchors)",
        checker_cmd="cd lean && lake build FGVerif.Proofs.C13 && lake env lean FGVerif/Audit/C13.lean",
        explanation="theorems in lean/FGVerif/Proofs/C13*.lean about Model/C13.lean; model tied to fgutils.proxy.replace_node/relabel_graph by "
                    "exact differential testing; executable spec C13.specCheck applied to every implementation output")
