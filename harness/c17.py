"""C17 — connected induced subgraph enumeration is exact.

Correspondence (exact generator order) between `fgutils.algorithm.node_induced_connected_subgraphs`
and the Lean model `C17.nodeInducedCIS`, plus the executable specification `C17.specCheck`
(all connected vertex sets containing the anchor, evaluated on the ORIGINAL graph in the original
ids) applied to every implementation output.

Input space:
  * the whole networkx graph atlas up to 6 nodes (quick) / 7 nodes (thorough) x every anchor x
    {atlas integer ids as they are, a random relabelling with STRING ids, one with TUPLE ids},
    node order and edge insertion (= adjacency) order shuffled for the relabelled variants
    -- exhaustive on that finite space (a *test*, not a proof);
  * a seeded sample of the 7-node atlas graphs in the quick tier;
  * random sparse graphs with 7..14 nodes (trees + few chords, forests, G(n,p)), ids that are
    offset / non-contiguous integers, strings, tuples or mixed, anchors at every position;
  * disconnected graphs (nothing outside the anchor's component may be yielded);
  * a few calls with the optional `DAG` argument (must not change what is yielded);
  * same-object scenarios: enumerate, rewire the SAME graph object in place (one edge removed, one added: same
    node and edge counts), enumerate again with the same anchor - each answer is judged against the graph as it is
    at call time (no state may be kept per object / per (graph, anchor, size) between calls).
The real function is always called with the real ids; ids travel to Lean through an injective
code chosen by the harness.
"""
import ast
import json
import os

import networkx as nx

from common import Atom, Case, Run, call_impl, prepare, ImplError, sx, parse_sx, Driver, input_variant, graph_shape

PROOFS = ["FGVerif.Proofs.C17"]


# ---------------------------------------------------------------------------
# graph descriptions: (nodes, edges, anchor) with real ids; graph built the same way everywhere
# ---------------------------------------------------------------------------
def build_graph(nodes, edges):
    g = nx.Graph()
    g.add_nodes_from(nodes)
    g.add_edges_from(edges)
    return g


def make_codes(nodes, rng):
    """injective code real id -> natural number (what travels to Lean)"""
    mode = rng.random()
    if mode < 0.4:
        return {n: i for i, n in enumerate(nodes)}
    codes = rng.sample(range(0, 3 * len(nodes) + 5), len(nodes))
    return dict(zip(nodes, codes))


def extract(g, anchor, code):
    """the form the model takes: original rows in codes, and the rows of the relabelled graph
    exactly as the code sees them (same nmap, real nx.relabel_nodes)"""
    orig = [[code[n], [code[m] for m in g.neighbors(n)]] for n in g.nodes]
    nmap = {anchor: 0}
    for n in g.nodes:
        if n == anchor:
            continue
        nmap[n] = len(nmap)
    g2 = nx.relabel_nodes(g, nmap, copy=True)
    adj = [[int(x) for x in g2.neighbors(i)] for i in range(g2.number_of_nodes())]
    return orig, adj


def impl_run(g, anchor, code, with_dag):
    from fgutils.algorithm.subgraph_enumeration import node_induced_connected_subgraphs
    if with_dag:
        gen = node_induced_connected_subgraphs(g, anchor, nx.DiGraph())
    else:
        gen = node_induced_connected_subgraphs(g, anchor)
    out = []
    for U in gen:
        out.append([code[u] for u in U])
    return out


def brute_count(g, anchor):
    """independent python oracle (bitmask flood fill): number of connected sets containing the anchor"""
    nodes = list(g.nodes)
    idx = {n: i for i, n in enumerate(nodes)}
    nb = [0] * len(nodes)
    for u, v in g.edges:
        if u == v:
            continue
        nb[idx[u]] |= 1 << idx[v]
        nb[idx[v]] |= 1 << idx[u]
    a = idx[anchor]
    # component of the anchor
    comp, frontier = 1 << a, 1 << a
    while frontier:
        nxt = 0
        i = 0
        f = frontier
        while f:
            if f & 1:
                nxt |= nb[i]
            f >>= 1
            i += 1
        frontier = nxt & ~comp
        comp |= nxt
    others = [i for i in range(len(nodes)) if i != a and comp >> i & 1]
    count = 0
    for mask in range(1 << len(others)):
        S = 1 << a
        for k, i in enumerate(others):
            if mask >> k & 1:
                S |= 1 << i
        reach, frontier = 1 << a, 1 << a
        while frontier:
            nxt = 0
            i = 0
            f = frontier
            while f:
                if f & 1:
                    nxt |= nb[i]
                f >>= 1
                i += 1
            nxt &= S
            frontier = nxt & ~reach
            reach |= nxt
        if reach == S:
            count += 1
    return count


def canon_edges(nodes, edges):
    idx = {n: i for i, n in enumerate(nodes)}
    return tuple(sorted((min(idx[u], idx[v]), max(idx[u], idx[v])) for u, v in edges))


# the enumeration is PURE: the graph may be frozen, a sub-graph view of a larger graph, carry irrelevant node / edge
# attributes, or have numpy.int64 node ids (string / tuple / mixed ids are id styles of their own, see ID_STYLES)
VARIANT_KINDS = ("frozen", "view", "numpy", "extra_attrs")


def make_case(rng, nodes, edges, anchor, tags, with_dag=False, in_domain=True, oracle=False, g=None, code=None,
              extra_meta=None, form_kinds=None):
    """`g` given: the call is made on THAT graph object as it is now (scenarios that re-use / edit one object
    between calls); `nodes`/`edges` then describe its current state.
    `form_kinds`: the implementation receives the graph in another FORM (common.input_variant); the request (original
    rows, relabelled rows) is extracted from the plain graph"""
    if g is None:
        g = build_graph(nodes, edges)
    if code is None:
        code = make_codes(list(g.nodes), rng)
    orig, adj = extract(g, anchor, code)
    g_impl = g
    if form_kinds:
        g_impl, form = input_variant(g, rng, form_kinds)
        if graph_shape(g_impl) != graph_shape(g):
            raise AssertionError("input_variant changed node / adjacency order (harness defect)")
        tags = tuple(tags) + ("input_form", form)
        extra_meta = dict(extra_meta or {}, variant=form)
    out = call_impl(impl_run, g_impl, anchor, code, with_dag)
    req = [Atom("C17"), Atom("cis"), orig, code[anchor], adj]
    n = g.number_of_nodes()
    key = None
    if n >= 3 and g.degree(anchor) >= 1:
        key = (tuple(nodes.index(x) for x in g.nodes), canon_edges(nodes, edges), nodes.index(anchor))
        if form_kinds:
            key += (extra_meta["variant"],)
    meta = {"nodes": [repr(x) for x in nodes], "edges": [[repr(u), repr(v)] for u, v in edges],
            "anchor": repr(anchor), "with_dag": with_dag,
            "code": [[repr(k), v] for k, v in code.items()]}
    if extra_meta:
        meta.update(extra_meta)
    if oracle:
        meta["py_count"] = brute_count(g, anchor)
    pos = list(g.nodes).index(anchor)
    tags = tuple(tags) + ("n=%d" % n, "anchor_first" if pos == 0 else "anchor_not_first",
                          "connected" if (n and nx.is_connected(g)) else "disconnected",
                          "dag" if with_dag else "nodag")
    # correspondence is decided in `correspondence` below (set level for the verdict, exact
    # generator order as a recorded diagnostic), so the generic exact comparison is switched off
    return Case(req, out, in_domain=in_domain, meta=meta, nontrivial_key=key, tags=tags, compare_model=False)


# ---------------------------------------------------------------------------
# id styles
# ---------------------------------------------------------------------------
def ids_string(n, rng):
    pool = ["n%d" % i for i in range(3 * n + 3)] + ["C", "N", "O", "a b", "x(1)", "é"]
    return rng.sample(pool, n)


def ids_tuple(n, rng):
    pool = [(i, j) for i in range(n + 1) for j in range(3)] + [("a", i) for i in range(n)]
    return rng.sample(pool, n)


def ids_int_sparse(n, rng):
    off = rng.choice([0, 1, 5, 100])
    return [off + x for x in rng.sample(range(0, 3 * n + 2), n)]


def ids_mixed(n, rng):
    pool = ["s%d" % i for i in range(n)] + list(range(50, 50 + n)) + [(i,) for i in range(n)]
    return rng.sample(pool, n)


ID_STYLES = {"str": ids_string, "tuple": ids_tuple, "int_sparse": ids_int_sparse, "mixed": ids_mixed}


def relabelled(rng, n, edges, style):
    """nodes 0..n-1 with `edges` -> (nodes, edges) with new ids, shuffled node and edge order,
    edge orientation random"""
    new = ID_STYLES[style](n, rng)
    order = list(range(n))
    rng.shuffle(order)
    nodes = [new[i] for i in order]
    es = [(new[u], new[v]) if rng.random() < 0.5 else (new[v], new[u]) for u, v in edges]
    rng.shuffle(es)
    return nodes, es, new


# ---------------------------------------------------------------------------
# generators
# ---------------------------------------------------------------------------
def atlas_cases(rng, max_n, sample7=0):
    from networkx.generators.atlas import graph_atlas_g
    cases = []
    sevens = []
    for G in graph_atlas_g():
        n = G.number_of_nodes()
        if n == 0:
            continue
        if n > max_n:
            if n == 7 and sample7:
                sevens.append(G)
            continue
        cases += atlas_graph_cases(rng, G, "atlas")
    if sevens:
        for G in rng.sample(sevens, min(sample7, len(sevens))):
            cases += atlas_graph_cases(rng, G, "atlas7sample")
    return cases


FORM_SHARE = 0.12      # share of the cases whose graph is handed over in another form (tags variant=*)


def atlas_graph_cases(rng, G, tag):
    n = G.number_of_nodes()
    nodes0 = list(G.nodes)
    edges0 = list(G.edges)
    out = []
    # (a) the atlas graph as it is: integer ids 0..n-1, every anchor (anchor mostly not first / not smallest)
    for a in nodes0:
        out.append(make_case(rng, nodes0, edges0, a, (tag, "ids=int_plain"), oracle=True,
                             form_kinds=VARIANT_KINDS if rng.random() < FORM_SHARE else None))
    # (b) string ids, (c) tuple ids: one random relabelling each, shuffled node and adjacency order, every anchor
    for style in ("str", "tuple"):
        nodes, es, new = relabelled(rng, n, edges0, style)
        for a in nodes:
            out.append(make_case(rng, nodes, es, a, (tag, "ids=" + style), with_dag=rng.random() < 0.05,
                                 form_kinds=VARIANT_KINDS if rng.random() < FORM_SHARE else None))
    return out


def random_sparse(rng, n):
    """tree / forest / tree+chords / G(n,p) on 0..n-1"""
    kind = rng.random()
    edges = set()
    if kind < 0.55:
        # random tree, path-like or bushy, + up to 3 chords
        bushy = rng.random()
        for v in range(1, n):
            u = rng.randrange(max(0, v - 2), v) if bushy < 0.5 else rng.randrange(0, v)
            edges.add((u, v))
        for _ in range(rng.choice([0, 0, 1, 2, 3])):
            u, v = rng.sample(range(n), 2)
            edges.add((min(u, v), max(u, v)))
        k = "tree+chords"
    elif kind < 0.8:
        # forest of 2-3 components (disconnected)
        parts = rng.choice([2, 3])
        comp = [rng.randrange(parts) for _ in range(n)]
        seen = {}
        for v in range(n):
            c = comp[v]
            if c in seen:
                edges.add((rng.choice(seen[c]), v))
                seen[c].append(v)
            else:
                seen[c] = [v]
        for _ in range(rng.choice([0, 1, 2])):
            u, v = rng.sample(range(n), 2)
            if comp[u] == comp[v]:
                edges.add((min(u, v), max(u, v)))
        k = "forest"
    else:
        p = rng.choice([0.1, 0.15, 0.2])
        for u in range(n):
            for v in range(u + 1, n):
                if rng.random() < p:
                    edges.add((u, v))
        k = "gnp"
    return sorted(edges), k


def random_cases(rng, count, nmin=7, nmax=14):
    cases = []
    for _ in range(count):
        n = rng.randint(nmin, nmax)
        edges, kind = random_sparse(rng, n)
        style = rng.choice(["str", "tuple", "int_sparse", "mixed", "int_plain"])
        if style == "int_plain":
            nodes = list(range(n))
            rng.shuffle(nodes)
            es = list(edges)
            rng.shuffle(es)
        else:
            nodes, es, _ = relabelled(rng, n, edges, style)
        # anchors: a few per graph, always including one that is not the first node
        anchors = rng.sample(nodes, min(len(nodes), 3))
        if nodes[0] in anchors and len(nodes) > 1 and len(anchors) == 1:
            anchors.append(nodes[-1])
        for a in anchors:
            cases.append(make_case(rng, nodes, es, a, ("random", kind, "ids=" + style),
                                   with_dag=rng.random() < 0.03, oracle=(n <= 11),
                                   form_kinds=VARIANT_KINDS if rng.random() < FORM_SHARE else None))
    return cases


def rewire_steps(rng, g, k):
    """k in-place rewirings that keep the numbers of nodes and edges: remove one edge, add one non-edge"""
    steps = []
    h = g.copy()
    for _ in range(k):
        es = list(h.edges)
        non = [(u, v) for i, u in enumerate(h.nodes) for v in list(h.nodes)[i + 1:] if not h.has_edge(u, v)]
        if not es or not non:
            break
        rem, add = rng.choice(es), rng.choice(non)
        h.remove_edge(*rem)
        h.add_edge(*add)
        steps.append([rem, add])
    return steps


def same_object_cases(rng, count, nmin=5, nmax=9):
    """state across calls / in-place edits of ONE graph object: enumerate; rewire the same object in place (one
    edge removed, another added: same node and edge counts) or add / remove an edge or a node; enumerate again with the
    same anchor.  Every answer must meet the specification for the graph as it is WHEN THE CALL IS MADE."""
    cases = []
    for _ in range(count):
        n = rng.randint(nmin, nmax)
        edges, kind = random_sparse(rng, n)
        style = rng.choice(["str", "tuple", "int_sparse", "int_plain"])
        if style == "int_plain":
            nodes, es = list(range(n)), list(edges)
        else:
            nodes, es, _ = relabelled(rng, n, edges, style)
        g = build_graph(nodes, es)
        anchor = rng.choice(nodes)
        code = make_codes(list(g.nodes), rng)
        steps = rewire_steps(rng, g, rng.randint(1, 3))
        scenario = {"same_object": {"nodes": [repr(x) for x in nodes], "edges": [[repr(u), repr(v)] for u, v in es],
                                    "steps": [[[repr(a), repr(b)], [repr(c), repr(d)]] for (a, b), (c, d) in steps]}}
        cases.append(make_case(rng, nodes, es, anchor, ("same_object", "call=1", kind, "ids=" + style), g=g, code=code,
                               oracle=True, extra_meta=dict(scenario, call=0)))
        for i, (rem, add) in enumerate(steps):
            g.remove_edge(*rem)
            g.add_edge(*add)
            cases.append(make_case(rng, list(g.nodes), list(g.edges), anchor,
                                   ("same_object", "call=%d_after_in_place_rewiring" % (i + 2), kind, "ids=" + style),
                                   g=g, code=code, oracle=True, extra_meta=dict(scenario, call=i + 1)))
    return cases


def corpus_cases(rng):
    """fixed regression inputs (run first): corpus/C17/*.json"""
    import glob
    from common import CORPUS_DIR
    cs = []
    for path in sorted(glob.glob(os.path.join(CORPUS_DIR, "C17", "*.json"))):
        for c in json.load(open(path))["cases"]:
            nodes = [ast.literal_eval(x) for x in c["nodes"]]
            edges = [(ast.literal_eval(u), ast.literal_eval(v)) for u, v in c["edges"]]
            cs.append(make_case(rng, nodes, edges, ast.literal_eval(c["anchor"]),
                                ("corpus", "ids=" + c.get("ids", "other")), oracle=True))
            for kind in VARIANT_KINDS:        # every corpus graph also in every other input form
                cs.append(make_case(rng, nodes, edges, ast.literal_eval(c["anchor"]),
                                    ("corpus", "ids=" + c.get("ids", "other")), oracle=True, form_kinds=(kind,)))
    return cs


def out_of_domain_cases(rng):
    """graphs with a self-loop: not simple, the property does not speak about them (counted only)"""
    cs = []
    cs.append(make_case(rng, [0, 1, 2], [(0, 1), (1, 2), (1, 1)], 0, ("self_loop",), in_domain=False))
    cs.append(make_case(rng, [0, 1, 2], [(0, 0), (0, 1), (1, 2)], 0, ("self_loop",), in_domain=False))
    return cs


# ---------------------------------------------------------------------------
# run
# ---------------------------------------------------------------------------
def check_machinery(r, outs):
    """the harness' own extraction and the two independent specifications must agree"""
    problems = []
    for o in outs:
        if not o.ok_reply:
            continue
        ex = o.extra
        if o.case.in_domain and len(ex) >= 4:
            if ex[1] != "1":
                problems.append("relabelled rows inconsistent with the original graph: " + o.case.line()[:300])
            if ex[2] != "1":
                problems.append("relabelled graph not well-formed: " + o.case.line()[:300])
            pc = o.case.meta.get("py_count")
            if pc is not None:
                r.count("oracle_cross_checked")
                if str(pc) != ex[3]:
                    problems.append("python brute force counts %s connected sets, Lean spec %s: %s" % (
                        pc, ex[3], o.case.line()[:300]))
    return problems


def safe_evaluate(r, cases):
    """r.evaluate, surviving one death of the driver process (e.g. killed under memory pressure
    on a shared machine): restart it and retry the batch once.  `Run.evaluate` updates its counters
    only after all replies arrived, so a retry does not double count.  A second death is a
    machinery failure (propagates, exit 2)."""
    try:
        return r.evaluate(cases)
    except RuntimeError as e:
        if "driver died" not in str(e):
            raise
        r.count("driver_restarts")
        try:
            r.driver.close()
        except Exception:
            pass
        r.driver = None
        return r.evaluate(cases)


STRICT_ORDER = os.environ.get("C17_STRICT_ORDER", "0") == "1"


def set_level(lists):
    """what the property observes: the multiset of yielded node sets"""
    if not isinstance(lists, list) or (lists and lists[0] == "raised"):
        return lists
    return sorted(sorted(int(x) for x in U) for U in lists)


def correspondence(r, outs, order_mismatches):
    """model vs implementation.  Verdict level: the multiset of yielded node SETS (the property
    does not speak about the generator order, and nothing in the repo consumes it).  Exact
    generator order is compared as well and recorded (evidence key `generator_order`); with
    C17_STRICT_ORDER=1 an order mismatch counts as a correspondence failure."""
    for o in outs:
        if not o.ok_reply or not o.case.in_domain:
            continue
        exact = o.model == o.impl_c
        same_sets = set_level(o.model) == set_level(o.impl_c)
        r.count("generator_order_exact_match" if exact else
                ("generator_order_mismatch_same_sets" if same_sets else "model_impl_sets_differ"))
        if same_sets and not exact:
            order_mismatches.append(o)
        if (not same_sets or (STRICT_ORDER and not exact)) and not o.spec_fail:
            r.corr_failures.append(o)


def run(tier, seed):
    r = Run("C17", tier, seed)
    if not prepare(r, PROOFS, "C17"):
        return 2
    rng = r.rng
    cases = corpus_cases(rng)
    if tier == "quick":
        cases += atlas_cases(rng, 6, sample7=40)
        cases += random_cases(rng, 120)
    else:
        cases += atlas_cases(rng, 7)
        cases += random_cases(rng, 1500)
    cases += same_object_cases(rng, 60 if tier == "quick" else 600)
    cases += out_of_domain_cases(rng)
    problems = []
    order_mismatches = []
    B = 250
    for i in range(0, len(cases), B):
        outs = safe_evaluate(r, cases[i:i + B])
        problems += check_machinery(r, outs)
        correspondence(r, outs, order_mismatches)
    r.extra_cov["generator_order"] = {
        "exact_matches": r.dist.get("generator_order_exact_match", 0),
        "mismatches": len(order_mismatches),
        "strict": STRICT_ORDER,
        "first_mismatch": order_mismatches[0].case.line()[:400] if order_mismatches else None,
    }
    if order_mismatches and not STRICT_ORDER:
        print("NOTE property=C17 generator order differs from the model on %d case(s) (same node sets; "
              "not part of the property; C17_STRICT_ORDER=1 makes it count)" % len(order_mismatches))
    r.assumptions = [
        "nx.relabel_nodes (networkx) is trusted: the model takes the adjacency rows of the relabelled graph "
        "as extracted by the harness from the real relabel_nodes result; the driver cross-checks them "
        "against the original graph (C17.relabelConsistent)",
        "Python list/int/np.inf semantics are modelled by List Nat / Option Nat (none = inf)",
        "the optional DAG argument only records the extension DAG and is not modelled (sampled: same yields)",
        "fuel = number of nodes (theorem C17.fuel_suffices)",
    ]
    rc = r.finish(
        level="proof",
        rule="corpus; graph atlas (all graphs with <=6 nodes quick / <=7 thorough) x every anchor x {atlas int ids, random "
             "string relabelling, random tuple relabelling} with shuffled node and adjacency order; random sparse graphs "
             "7..14 nodes (tree+chords, forests, G(n,p)) x 3 anchors x id style; same-object scenarios (enumerate, rewire the same graph "
             "object in place with unchanged node/edge counts, enumerate again: 1-3 rewirings per object); 12% of the atlas / random cases and every "
             "corpus graph handed over in another FORM (nx.freeze, sub-graph view of a larger graph, numpy.int64 ids, extra node/edge attributes; "
             "tags variant=*); non-trivial = >=3 nodes and anchor of "
             "degree >=1, distinct by (node order, edge set, anchor)",
        checker_cmd="cd lean && lake build FGVerif.Proofs.C17 && lake env lean FGVerif/Audit/C17.lean",
        explanation="theorems in lean/FGVerif/Proofs/C17*.lean about Model/C17.lean (soundness, assert never fails, fuel, "
                    "distinct sequences, labels = induced distances, unique sets, completeness, exactness, relabelling "
                    "invariance); model tied to fgutils.algorithm.subgraph_enumeration by differential testing in exact "
                    "generator order; executable spec C17.specCheck applied to every implementation output on the "
                    "original graph; python bitmask oracle cross-checks the Lean spec's count")
    if problems:
        # exit 1 iff a VIOLATION line was printed; machinery problems alone are exit 2; both -> 1
        print("ERROR property=C17 machinery: %d problem(s); first: %s" % (len(problems), problems[0]))
        return 1 if rc == 1 else 2
    return rc


# ---------------------------------------------------------------------------
# replay
# ---------------------------------------------------------------------------
def replay(path):
    """re-run a replay file against the current tree: real function on the real ids + driver"""
    rep = json.load(open(path))
    meta = rep.get("meta") or {}
    if "nodes" not in meta:
        print("replay file has no input (proof-obligation replay): rebuild with ./check C17")
        return 2
    nodes = [ast.literal_eval(x) for x in meta["nodes"]]
    edges = [(ast.literal_eval(u), ast.literal_eval(v)) for u, v in meta["edges"]]
    anchor = ast.literal_eval(meta["anchor"])
    code = {ast.literal_eval(k): v for k, v in meta["code"]}
    g = build_graph(nodes, edges)
    so = meta.get("same_object")
    if so:
        # re-run the whole scenario on ONE graph object: enumerate, rewire in place, enumerate again ... up to the recorded call
        lit = ast.literal_eval
        g = build_graph([lit(x) for x in so["nodes"]], [(lit(u), lit(v)) for u, v in so["edges"]])
        ncall = meta.get("call", 0)
        for j in range(ncall):
            call_impl(impl_run, g, anchor, code, False)          # the earlier call(s) on the same object
            (ra, rb), (aa, ab) = so["steps"][j]
            g.remove_edge(lit(ra), lit(rb))
            g.add_edge(lit(aa), lit(ab))
        print("re-ran the same-object scenario: %d in-place rewiring(s) before the judged call" % meta.get("call", 0))
    orig, adj = extract(g, anchor, code)
    g_impl = g
    if meta.get("variant") and meta["variant"] != "variant=plain":
        import random
        g_impl = input_variant(g, random.Random(rep.get("seed", 0)), (meta["variant"].split("=")[1],))[0]
        print("re-applied the recorded input form: %s" % meta["variant"])
    out = call_impl(impl_run, g_impl, anchor, code, meta.get("with_dag", False))
    c = Case([Atom("C17"), Atom("cis"), orig, code[anchor], adj], out)
    d = Driver()
    reply = d.ask(c.line())
    d.close()
    print("request :", c.line())
    print("impl    :", out if not isinstance(out, ImplError) else out.text)
    print("reply   :", reply)
    if not (isinstance(reply, list) and reply and reply[0] == "ok"):
        print("ERROR driver could not answer")
        return 2
    impl_c = ["raised", out.kind] if isinstance(out, ImplError) else parse_sx(sx(out))
    if reply[3] == "0":
        print("VIOLATION property=C17 replay=%s (spec clause %s fails on the implementation output)" % (path, reply[4]))
        return 1
    if set_level(reply[1]) != set_level(impl_c) or (STRICT_ORDER and reply[1] != impl_c):
        print("VIOLATION property=C17 replay=%s no-failing-input-found (model and implementation disagree)" % path)
        return 1
    if reply[1] != impl_c:
        print("NOTE generator order differs from the model (same node sets)")
    print("replay passes on the current tree")
    return 0
