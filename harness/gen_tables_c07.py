#!/venv/bin/python
"""Translator for C07: the default functional-group list of /repo's working tree ->
lean/FGVerif/Generated/C07.lean.

Emitted (plain Lean data, nothing cached, rewritten only when the content changes):
  * `configs`   every default config with its pattern and anti-patterns parsed by the REAL parser,
                as `Graph` data (node order, attributes, adjacency order as networkx holds them);
  * `mapper`    the mapper `FGConfigProvider` uses;
  * `keysImpl`  `FGTreeNode(cfg).order_id()` as computed by the code (strings as code points);
  * `embImpl`   `map_subgraph_to_graph(pattern_j, pattern_i, mapper)` for all i, j (the code's answer);
  * `antiImpl`  whether some anti-pattern of i is found in pattern j by the code.
`Proofs/C07Default.lean` proves by kernel evaluation that the matcher MODEL reproduces `embImpl` /
`antiImpl`, that the model's key reproduces `keysImpl`, and that the hypotheses of `C07.hasse` hold.

Second file, lean/FGVerif/Generated/C07Anti.lean: the corpus lists WITH anti-patterns
(corpus/C07/lists.json, entries with "cfgs" and "kernel_table": true), on which an anti-pattern really excludes a would-be
descendant (the default list's three anti-patterns exclude no listed group, so `antiImpl` above has
no `true` entry).  Emitted: the lists (patterns and anti-patterns parsed by the real parser, anti-patterns
in the order the constructor stores them), `subImpl` = the answer of the REAL
`is_subgroup(cfg_i, cfg_j, mapper)` (0 False, 1 True, 2 AssertionError), the real matcher's `embImpl` /
`antiImpl`, and `keysImpl`.  `Proofs/C07Anti.lean` proves by kernel evaluation that the MODEL's
`isSubgroupE` (veto branch included) reproduces `subImpl`, that the matcher's answers are the true
embeddings, and the hypotheses of `C07.hasse` for the lists on which the vetoed relation is an order.
"""
import os
import sys

VERIF = os.path.dirname(os.path.dirname(os.path.abspath(__file__)))
REPO = os.environ.get("FGUTILS_REPO", "/repo")
sys.path.insert(0, REPO)
OUT = os.path.join(VERIF, "lean", "FGVerif", "Generated")


def lstr(s):
    return '"' + s.replace("\\", "\\\\").replace('"', '\\"') + '"'


def dbl(x):
    d = x * 2
    assert int(d) == d, x
    return int(d)


def lint(i):
    return str(int(i)) if i >= 0 else "(%d)" % i


def llabel(b):
    if b is None:
        return "Label.nil"
    if isinstance(b, (tuple, list)):
        return "Label.p %s %s" % (lint(dbl(b[0])), lint(dbl(b[1])))
    return "Label.s %s" % lint(dbl(b))


def lopt(x, f):
    return "none" if x is None else "some (%s)" % f(x)


def lgraph(g):
    import networkx as nx
    multi = isinstance(g, nx.MultiGraph)
    nodes = []
    for n, d in g.nodes(data=True):
        labels = d.get("labels")
        nodes.append("(%s, { symbol := %s, labels := %s, isLabeled := %s, aam := %s })" % (
            lint(n), lopt(d.get("symbol"), lstr),
            lopt(None if labels is None else list(labels), lambda l: "[" + ", ".join(lstr(x) for x in l) + "]"),
            lopt(d.get("is_labeled"), lambda b: "true" if b else "false"),
            lopt(d.get("aam"), lint)))
    adj = []
    for n in g.nodes:
        row = []
        for v, dd in g.adj[n].items():
            if multi:
                keys = ", ".join("(%d, %s)" % (k, llabel(d.get("bond"))) for k, d in dd.items())
            else:
                keys = "(0, %s)" % llabel(dd.get("bond"))
            row.append("(%s, [%s])" % (lint(v), keys))
        adj.append("(%s, [%s])" % (lint(n), ", ".join(row)))
    return "{ multi := %s, nodes := [%s], adj := [%s] }" % (
        "true" if multi else "false", ", ".join(nodes), ", ".join(adj))


def flat_key(k):
    out = []
    for x in (k if isinstance(k, (tuple, list)) else [k]):
        if isinstance(x, str):
            out += [ord(ch) for ch in x]
        elif isinstance(x, bool):
            out.append(int(x))
        elif isinstance(x, int):
            out.append(x % (2 ** 64) if x < 0 else x)
        else:
            try:
                out.append(int(x) % (2 ** 64))
            except Exception:
                out.append(0)
    return out


def write_if_changed(name, content):
    os.makedirs(OUT, exist_ok=True)
    path = os.path.join(OUT, name)
    old = open(path).read() if os.path.exists(path) else None
    if old != content:
        with open(path, "w") as f:
            f.write(content)
        print("gen_tables_c07: rewrote", path)
    else:
        print("gen_tables_c07: %s unchanged" % name)


def lbool(x):
    return "true" if x else "false"


def anti_corpus():
    """the corpus lists that carry anti-patterns -> list of lists of config dicts"""
    import json
    p = os.path.join(VERIF, "corpus", "C07", "lists.json")
    out = []
    for e in json.load(open(p)):
        if "cfgs" in e and e.get("kernel_table") and any("anti_pattern" in c for c in e["cfgs"]):
            out.append([dict(c, name=c.get("name", "g%d" % i)) for i, c in enumerate(e["cfgs"])])
    return out


def main_anti():
    import fgutils.fgconfig as FC
    from fgutils.algorithm.subgraph import map_subgraph_to_graph
    from fgutils.permutation import PermutationMapper
    mapper = PermutationMapper(wildcard="R", ignore_case=True)     # the mapper the harness builds the trees with
    lines = ["/- GENERATED by harness/gen_tables_c07.py from /repo's working tree and corpus/C07/lists.json. Do not edit. -/",
             "import FGVerif.Model.C07", "namespace Gen.C07Anti", "",
             "def mapper : Perm.Mapper := { wildcard := some \"R\", ignoreCase := true, canMapToNothing := [] }", ""]
    subs, embs, antis, keys, names = [], [], [], [], []
    for k, dicts in enumerate(anti_corpus()):
        cfgs = [FC.FGConfig(**d) for d in dicts]
        n = len(cfgs)
        row_names = []
        for i, c in enumerate(cfgs):
            lines.append("def l%dc%d : _root_.C07.FGConfig := _root_.C07.FGConfig.mk %s %s\n  (%s)\n  [%s]" % (
                k, i, lstr(c.name), lstr(c.pattern_str), lgraph(c.pattern), ", ".join(lgraph(a) for a in c.anti_pattern)))
            row_names.append("l%dc%d" % (k, i))
        lines.append("def l%d : List _root_.C07.FGConfig := [%s]" % (k, ", ".join(row_names)))
        names.append("l%d" % k)
        sub = [[0] * n for _ in range(n)]
        emb = [[False] * n for _ in range(n)]
        anti = [[False] * n for _ in range(n)]
        for i in range(n):
            for j in range(n):
                try:
                    emb[i][j] = bool(map_subgraph_to_graph(cfgs[j].pattern, cfgs[i].pattern, mapper))
                except Exception:
                    emb[i][j] = False
                try:
                    anti[i][j] = any(bool(map_subgraph_to_graph(cfgs[j].pattern, a, mapper)) for a in cfgs[i].anti_pattern)
                except Exception:
                    anti[i][j] = False
                if i == j:
                    continue
                try:
                    sub[i][j] = 1 if FC.is_subgroup(cfgs[i], cfgs[j], mapper) else 0
                except AssertionError:
                    sub[i][j] = 2
                except Exception:
                    sub[i][j] = 3
        subs.append(sub)
        embs.append(emb)
        antis.append(anti)
        ks = []
        for c in cfgs:
            try:
                ks.append(flat_key(FC.FGTreeNode(c).order_id()))
            except Exception:
                ks.append([])
        keys.append(ks)
    lines.append("")
    lines.append("/-- the corpus lists with anti-patterns, as `FGConfig(**dict)` builds them -/")
    lines.append("def lists : List (List _root_.C07.FGConfig) := [%s]" % ", ".join(names))

    def tab3(t, f):
        return "[\n  %s]" % ",\n  ".join("[" + ", ".join("[" + ", ".join(f(x) for x in row) + "]" for row in m) + "]" for m in t)
    lines.append("/-- the REAL `is_subgroup(cfg_i, cfg_j, mapper)`: 0 = False, 1 = True, 2 = AssertionError (3 = other exception);")
    lines.append("    list k, row i, column j; the diagonal is not asked (0) -/")
    lines.append("def subImpl : List (List (List Nat)) := " + tab3(subs, str))
    lines.append("/-- the real matcher: pattern i found in pattern j -/")
    lines.append("def embImpl : List (List (List Bool)) := " + tab3(embs, lbool))
    lines.append("/-- the real matcher: some anti-pattern of i found in pattern j -/")
    lines.append("def antiImpl : List (List (List Bool)) := " + tab3(antis, lbool))
    lines.append("/-- `FGTreeNode(cfg).order_id()` (strings as code points) -/")
    lines.append("def keysImpl : List (List (List Nat)) := " + tab3(keys, str))
    lines.append("")
    lines.append("end Gen.C07Anti")
    write_if_changed("C07Anti.lean", "\n".join(lines) + "\n")


def main():
    import fgutils.fgconfig as FC
    from fgutils.algorithm.subgraph import map_subgraph_to_graph
    main_anti()
    prov = FC.FGConfigProvider()
    cfgs = prov.config_list
    mapper = prov.mapper
    n = len(cfgs)
    lines = ["/- GENERATED by harness/gen_tables_c07.py from /repo's working tree. Do not edit. -/",
             "import FGVerif.Model.C07", "namespace Gen.C07", ""]
    wc = getattr(mapper, "wildcard", None)
    ic = bool(getattr(mapper, "ignore_case", False))
    lines.append("/-- the mapper of `FGConfigProvider` -/")
    lines.append("def mapper : Perm.Mapper := { wildcard := %s, ignoreCase := %s, canMapToNothing := [] }" % (
        lopt(wc, lstr), "true" if ic else "false"))
    lines.append("")
    names = []
    for i, c in enumerate(cfgs):
        # (constructor application: `pattern` is a reserved word inside structure-instance notation)
        lines.append("def cfg%d : _root_.C07.FGConfig := _root_.C07.FGConfig.mk %s %s\n  (%s)\n  [%s]" % (
            i, lstr(c.name), lstr(c.pattern_str), lgraph(c.pattern), ", ".join(lgraph(a) for a in c.anti_pattern)))
        names.append("cfg%d" % i)
    lines.append("")
    lines.append("/-- `FGConfigProvider().config_list` -/")
    lines.append("def configs : List _root_.C07.FGConfig := [%s]" % ", ".join(names))
    lines.append("")
    keys = []
    for c in cfgs:
        try:
            keys.append(flat_key(FC.FGTreeNode(c).order_id()))
        except Exception:
            keys.append([])
    lines.append("/-- `FGTreeNode(cfg).order_id()` as the code computes it (strings as code points) -/")
    lines.append("def keysImpl : List (List Nat) := [%s]" % ", ".join("[" + ", ".join(str(x) for x in k) + "]" for k in keys))
    lines.append("")

    def b(x):
        return "true" if x else "false"
    emb = []
    anti = []
    for i in range(n):
        rowe, rowa = [], []
        for j in range(n):
            try:
                rowe.append(bool(map_subgraph_to_graph(cfgs[j].pattern, cfgs[i].pattern, mapper)))
            except Exception:
                rowe.append(False)
            try:
                rowa.append(any(bool(map_subgraph_to_graph(cfgs[j].pattern, a, mapper)) for a in cfgs[i].anti_pattern))
            except Exception:
                rowa.append(False)
        emb.append(rowe)
        anti.append(rowa)
    lines.append("/-- `map_subgraph_to_graph(pattern_j, pattern_i, mapper)`: row i, column j (the code's answers) -/")
    lines.append("def embImpl : List (List Bool) := [\n  %s]" % ",\n  ".join("[" + ", ".join(b(x) for x in row) + "]" for row in emb))
    lines.append("/-- some anti-pattern of config i is found in pattern j (the code's answers) -/")
    lines.append("def antiImpl : List (List Bool) := [\n  %s]" % ",\n  ".join("[" + ", ".join(b(x) for x in row) + "]" for row in anti))
    lines.append("")
    lines.append("end Gen.C07")
    content = "\n".join(lines) + "\n"
    os.makedirs(OUT, exist_ok=True)
    path = os.path.join(OUT, "C07.lean")
    old = open(path).read() if os.path.exists(path) else None
    if old != content:
        with open(path, "w") as f:
            f.write(content)
        print("gen_tables_c07: rewrote", path)
    else:
        print("gen_tables_c07: unchanged")


if __name__ == "__main__":
    main()
