"""C20 — atom-map completion: correspondence + executable spec on implementation outputs."""
import networkx as nx

from common import Atom, Case, Run, call_impl, prepare, ImplError

PROOFS = ["FGVerif.Proofs.C20"]


def mk_graph(ids, aams):
    g = nx.Graph()
    for n, a in zip(ids, aams):
        if a is None:
            g.add_node(n, symbol="C")
        else:
            g.add_node(n, symbol="C", aam=a)
    for a, b in zip(ids, ids[1:]):
        g.add_edge(a, b, bond=1)
    return g


def impl_complete(ids, aams, offset, via_its=False):
    from fgutils.utils import complete_aam
    from fgutils.its import ITS
    g = mk_graph(ids, aams)
    if via_its:
        ITS(g)
    else:
        off = "min" if offset == "min" else offset
        complete_aam(g, offset=off)
    return [g.nodes[n].get("aam") for n in g.nodes]


def impl_initialize(ids, aams, offset):
    from fgutils.utils import initialize_aam
    g = mk_graph(ids, aams)
    raised = False
    try:
        initialize_aam(g, offset=offset)
    except RuntimeError:
        raised = True
    return [[g.nodes[n].get("aam") for n in g.nodes], raised]


def gen_case(rng, big=False):
    n = rng.randint(0, 14 if not big else 40)
    ids = rng.sample(range(0, 3 * n + 3), n)
    if rng.random() < 0.5:
        ids.sort()
    style = rng.random()
    aams = []
    pool = list(range(-2, 2 * n + 6))
    rng.shuffle(pool)
    dup = rng.random() < 0.15
    for i in range(n):
        if rng.random() < (0.5 if style < 0.8 else 0.0):
            aams.append(rng.choice(pool) if dup else pool[i])
        else:
            aams.append(None)
    if style > 0.9:
        # dense existing block so that many numbers must be skipped (needs > 6 mapped atoms)
        aams = [i + 1 if rng.random() < 0.8 else None for i in range(n)]
        rng.shuffle(aams)
    o = rng.random()
    if o < 0.25:
        offset = None
    elif o < 0.6:
        offset = rng.randint(-3, n + 3)
    else:
        offset = "min"
    return ids, aams, offset


def run(tier, seed):
    r = Run("C20", tier, seed)
    if not prepare(r, PROOFS, "C20"):
        return 2
    rng = r.rng
    n_cases = 1500 if tier == "quick" else 60000
    cases = []
    # corpus first
    corpus = [
        ([0, 1, 2, 3, 4, 5, 6, 7, 8], [1, 2, 3, 4, 5, 6, 7, None, None], None),   # > 6 mapped atoms
        ([5, 3, 9], [None, 7, None], "min"),
        ([0, 1, 2], [None, None, None], "min"),
        ([2, 0, 1], [3, None, 3], 3),
        ([0, 1, 2, 3], [None, -1, None, 0], "min"),
    ]
    for k in range(n_cases):
        ids, aams, offset = corpus[k] if k < len(corpus) else gen_case(rng, big=(k % 10 == 0))
        via_its = offset == "min" and rng.random() < 0.3
        out = call_impl(impl_complete, ids, aams, offset, via_its)
        woff = Atom("min") if offset == "min" else offset
        req = [Atom("C20"), Atom("complete"), woff, aams]
        key = ("c", tuple(aams), offset) if any(a is None for a in aams) and any(a is not None for a in aams) else None
        cases.append(Case(req, out, meta={"ids": ids, "offset": offset, "via_ITS": via_its}, nontrivial_key=key,
                          tags=("complete", "offset=%s" % ("int" if isinstance(offset, int) else offset),
                                "via_its" if via_its else "direct", "mapped>6" if sum(a is not None for a in aams) > 6 else "mapped<=6")))
        if k % 4 == 0:
            off = rng.randint(-2, 5)
            out = call_impl(impl_initialize, ids, aams, off)
            req = [Atom("C20"), Atom("initialize"), off, [[i, a] for i, a in zip(ids, aams)]]
            cases.append(Case(req, out, meta={"offset": off}, nontrivial_key=("i", tuple(ids), tuple(aams), off) if ids else None,
                              tags=("initialize", "init_raises" if any(a is not None for a in aams) else "init_ok")))
    r.evaluate(cases)
    r.assumptions = [
        "networkx node iteration order is modelled as a list; the graph enters complete_aam only through it and the aam attribute",
        "Python int is modelled by Lean Int (unbounded on both sides)",
    ]
    return r.finish(
        level="proof",
        rule="random node lists (0-40 nodes, shuffled/sparse ids) x partial maps (gaps, duplicates, negatives, dense blocks) x offset in {None,int,'min'}, "
             "30% of the 'min' cases through ITS(graph); non-trivial = partial map with at least one mapped and one unmapped node, distinct by (map, offset)",
        checker_cmd="cd lean && lake build FGVerif.Proofs.C20 && lake env lean FGVerif/Audit/C20.lean",
        explanation="theorems in lean/FGVerif/Proofs/C20.lean about Model/C20.lean; model tied to fgutils.utils.complete_aam/initialize_aam by differential testing; "
                    "executable spec C20.specCheck applied to every implementation output")


def replay(path):
    """./check C20 --replay <file>: run the current implementation on the recorded input again"""
    import json
    from common import generic_replay

    def opt(x):
        return None if x == "_" else int(x)

    def reimpl(req):
        op = req[1]
        if op == "complete":
            offset = "min" if req[2] == "min" else opt(req[2])
            aams = [opt(a) for a in req[3]]
            return call_impl(impl_complete, list(range(len(aams))), aams, offset, False)
        off = int(req[2])
        ids = [int(p[0]) for p in req[3]]
        aams = [opt(p[1]) for p in req[3]]
        return call_impl(impl_initialize, ids, aams, off)

    return generic_replay("C20", path, reimpl)
