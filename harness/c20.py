"""C20 — atom-map completion: correspondence + executable spec on implementation outputs."""
import networkx as nx

import random

from common import Atom, Case, Run, call_impl, prepare, ImplError, input_variant, variant_extras_intact

PROOFS = ["FGVerif.Proofs.C20"]


def mk_graph(ids, aams):
    g = nx.Graph()
    for n, a in zip(ids, aams):
        if a is None:
            g.add_node(n, symbol="C")
        else:
            g.add_node(n, symbol="C", aam=a)
    for a, b in zip(ids, ids[1:]):
        g.add_edge(a, b, bond=1)
    return g


# complete_aam / initialize_aam / ITS(graph) write the map INTO their argument: only forms that are meant to be
# written to (extra attributes, numpy ids and map numbers), not frozen graphs or views
VARIANT_KINDS = ("extra_attrs", "numpy")


def formed(g, form):
    """the graph in the input form `form` ('extra_attrs' / 'numpy' / None): common.input_variant"""
    if not form:
        return g
    v, tag = input_variant(g, random.Random(0), (form,))
    if [v.nodes[n].get("aam") for n in v.nodes] != [g.nodes[n].get("aam") for n in g.nodes] or list(v.nodes) != list(g.nodes):
        raise AssertionError("input_variant changed what complete_aam sees (harness defect)")
    return v


def extras_survived(g, form, nodes, edges):
    """the irrelevant attributes of an 'extra_attrs' variant are still there, untouched (VariantDamaged otherwise)"""
    if form == "extra_attrs" and nodes:
        variant_extras_intact(g, nodes, edges)


# ---------------------------------------------------------------------------------------------------------------
# HOW the call is written (review 3, M2/M3): the default of every optional argument is part of the documented
# behaviour ("numbering starts at 1 or offset"; `initialize_aam(graph, offset=1)`), and a scalar argument may be a
# plain int or a numpy integer scalar (an offset that came out of an array, e.g. np.min of the existing numbers).
#   call form   : omitted (only when the wanted value IS the documented default) / positional / keyword /
#                 all_keyword (graph= as well)
#   scalar form : int / np.int64 / np.int32 (integer offsets only); every form must give the plain-int answer
# The documented defaults are written down HERE (not read from the signature): changing a default in the library is
# a change of behaviour the check must see.
DOCUMENTED_DEFAULT = {"complete_aam": None, "initialize_aam": 1}
CALL_FORMS = ("keyword", "positional", "all_keyword")
SCALAR_FORMS = ("int", "np.int64", "np.int32")


def scalar_in_form(v, sform):
    if sform in (None, "int") or not isinstance(v, int) or isinstance(v, bool):
        return v
    import numpy as np
    return {"np.int64": np.int64, "np.int32": np.int32}[sform](v)


def pick_call_form(rng, fname, offset):
    """(call form, scalar form) for one call: a fixed share omits the argument (possible only when the wanted value
    is the documented default), the rest is spread over positional / keyword / all-keyword; 30% of the integer
    offsets travel as numpy scalars"""
    cform = rng.choice(CALL_FORMS)
    if offset == DOCUMENTED_DEFAULT[fname] and rng.random() < 0.6:
        cform = "omitted"
    sform = "int"
    if isinstance(offset, int) and cform != "omitted" and rng.random() < 0.3:
        sform = rng.choice(SCALAR_FORMS[1:])
    return cform, sform


def invoke(f, fname, g, offset, cform=None, sform=None):
    """call `f` (complete_aam / initialize_aam) on g in the given call form"""
    off = scalar_in_form(offset, sform)
    if cform in (None, "keyword"):
        return f(g, offset=off)
    if cform == "positional":
        return f(g, off)
    if cform == "all_keyword":
        return f(graph=g, offset=off)
    if cform == "omitted":
        if offset != DOCUMENTED_DEFAULT[fname]:
            raise AssertionError("harness defect: argument omitted although the wanted value is not the documented default")
        return f(g)
    raise AssertionError("unknown call form %r" % (cform,))


def impl_complete(ids, aams, offset, via_its=False, form=None, cform=None, sform=None):
    from fgutils.utils import complete_aam
    from fgutils.its import ITS
    g = formed(mk_graph(ids, aams), form)
    nodes, edges = list(g.nodes), list(g.edges)
    if via_its:
        # the constructor has one argument: positional or by keyword
        its = ITS(graph=g) if cform in ("all_keyword", "keyword") else ITS(g)
        if its.graph is not g:
            raise AssertionError("ITS(graph) does not hold the graph it was given")
    else:
        invoke(complete_aam, "complete_aam", g, offset, cform, sform)
    extras_survived(g, form, nodes, edges)
    return [g.nodes[n].get("aam") for n in g.nodes]


def impl_initialize(ids, aams, offset, form=None, cform=None, sform=None):
    from fgutils.utils import initialize_aam
    g = formed(mk_graph(ids, aams), form)
    nodes, edges = list(g.nodes), list(g.edges)
    raised = False
    try:
        invoke(initialize_aam, "initialize_aam", g, offset, cform, sform)
    except RuntimeError:
        raised = True
    extras_survived(g, form, nodes, edges)
    return [[g.nodes[n].get("aam") for n in g.nodes], raised]


def _aams(g):
    return [g.nodes[n].get("aam") for n in g.nodes]


def apply_edits(g, edits):
    """edit the atom map of the SAME graph object in place"""
    for e in edits:
        if e[0] == "del":
            g.nodes[e[1]].pop("aam", None)
        elif e[0] == "set":
            g.nodes[e[1]]["aam"] = e[2]
        elif e[0] == "add":
            if e[2] is None:
                g.add_node(e[1], symbol="C")
            else:
                g.add_node(e[1], symbol="C", aam=e[2])


def impl_two_step_complete(ids, aams, offset1, edits, offset2):
    """ONE graph object, two calls: complete_aam(g, offset1); the map is edited in place (numbers removed / changed,
    mapped and unmapped atoms added); complete_aam(g, offset2).  Returns (out1, map before the 2nd call, out2):
    each call must meet the specification w.r.t. the graph AS IT IS WHEN THE CALL IS MADE (no state kept per object)."""
    from fgutils.utils import complete_aam
    g = mk_graph(ids, aams)
    out1 = call_impl(lambda: (complete_aam(g, offset=offset1), _aams(g))[1])
    apply_edits(g, edits)
    before2 = _aams(g)
    out2 = call_impl(lambda: (complete_aam(g, offset=offset2), _aams(g))[1])
    return out1, before2, out2


def impl_two_step_initialize(ids, aams, offset1, wipe, offset2):
    """ONE graph object, two calls of initialize_aam; between them the map is wiped in place (`wipe`) or kept.
    Returns (result1, (ids, map) before the 2nd call, result2) with result = [map afterwards, raised]"""
    from fgutils.utils import initialize_aam

    def one(off):
        raised = False
        try:
            initialize_aam(g, offset=off)
        except RuntimeError:
            raised = True
        return [_aams(g), raised]

    g = mk_graph(ids, aams)
    res1 = call_impl(one, offset1)
    if wipe:
        for n in g.nodes:
            g.nodes[n].pop("aam", None)
    before2 = _aams(g)
    res2 = call_impl(one, offset2)
    return res1, before2, res2


def gen_edits(rng, ids, n_after_first):
    """edits of a completely mapped graph: remove some numbers, change one, add mapped / unmapped atoms"""
    edits = []
    ids = list(ids)
    for n in ids:
        if rng.random() < 0.35:
            edits.append(["del", n])
    if ids and rng.random() < 0.3:
        edits.append(["set", rng.choice(ids), rng.randint(-2, 2 * len(ids) + 6)])
    nxt = (max(ids) if ids else -1) + 1
    for _ in range(rng.choice([0, 1, 1, 2, 3])):
        if rng.random() < 0.5:
            edits.append(["add", nxt, None])
        else:
            edits.append(["add", nxt, rng.randint(0, 2 * len(ids) + 8)])
        nxt += rng.randint(1, 3)
    if not edits and ids:
        edits.append(["del", ids[0]])
    return edits


def woff(offset):
    return Atom("min") if offset == "min" else offset


def two_step_cases(rng, ids, aams, offset):
    """cases of a two-call scenario on one graph object (state across calls / in-place edits)"""
    cases = []
    offset2 = rng.choice([None, "min", rng.randint(-2, len(ids) + 3)])
    edits = gen_edits(rng, ids, None)
    out1, before2, out2 = impl_two_step_complete(ids, aams, offset, edits, offset2)
    meta = {"two_step": "complete", "ids": ids, "aams": aams, "offset": offset, "edits": edits, "offset2": offset2}
    cases.append(Case([Atom("C20"), Atom("complete"), woff(offset), aams], out1, meta=dict(meta, call=1),
                      tags=("complete", "two_step:first_call")))
    cases.append(Case([Atom("C20"), Atom("complete"), woff(offset2), before2], out2, meta=dict(meta, call=2),
                      nontrivial_key=("c2", tuple(before2), offset2) if any(a is None for a in before2) else None,
                      tags=("complete", "two_step:second_call_same_object_after_in_place_edit")))
    if ids:
        wipe = rng.random() < 0.6
        o1, o2 = rng.randint(-2, 5), rng.randint(-2, 5)
        res1, b2, res2 = impl_two_step_initialize(ids, aams, o1, wipe, o2)
        meta = {"two_step": "initialize", "ids": ids, "aams": aams, "offset": o1, "wipe": wipe, "offset2": o2}
        cases.append(Case([Atom("C20"), Atom("initialize"), o2, [[i, a] for i, a in zip(ids, b2)]], res2, meta=meta,
                          nontrivial_key=("i2", tuple(ids), tuple(b2), o2),
                          tags=("initialize", "two_step:second_call_same_object", "wiped_between" if wipe else "kept_between")))
    return cases


def gen_case(rng, big=False):
    n = rng.randint(0, 14 if not big else 40)
    ids = rng.sample(range(0, 3 * n + 3), n)
    if rng.random() < 0.5:
        ids.sort()
    style = rng.random()
    aams = []
    pool = list(range(-2, 2 * n + 6))
    rng.shuffle(pool)
    dup = rng.random() < 0.15
    for i in range(n):
        if rng.random() < (0.5 if style < 0.8 else 0.0):
            aams.append(rng.choice(pool) if dup else pool[i])
        else:
            aams.append(None)
    if style > 0.9:
        # dense existing block so that many numbers must be skipped (needs > 6 mapped atoms)
        aams = [i + 1 if rng.random() < 0.8 else None for i in range(n)]
        rng.shuffle(aams)
    o = rng.random()
    if o < 0.25:
        offset = None
    elif o < 0.6:
        offset = rng.randint(-3, n + 3)
    else:
        offset = "min"
    return ids, aams, offset


# fixed regression inputs for the call forms (review 3): the documented default start (1) with existing numbers below
# and above it (a default of "min" would start at -3 / at 4); a numpy scalar as offset (F16: ValueError before dde1a94)
CORPUS_FORMS = [
    ([0, 1, 2, 3], [None, -3, None, 0], None, "omitted", "int"),
    ([0, 1, 2, 3], [None, 4, None, 6], None, "omitted", "int"),
    ([0, 1, 2], [None, 7, None], 5, "keyword", "np.int64"),
    ([4, 2, 9], [None, 2, None], 2, "positional", "np.int32"),
    ([1, 2, 3], [None, None, 3], None, "positional", "int"),
]


def run(tier, seed):
    r = Run("C20", tier, seed)
    if not prepare(r, PROOFS, "C20"):
        return 2
    rng = r.rng
    n_cases = 1500 if tier == "quick" else 60000
    cases = []
    # corpus first
    corpus = [
        ([0, 1, 2, 3, 4, 5, 6, 7, 8], [1, 2, 3, 4, 5, 6, 7, None, None], None),   # > 6 mapped atoms
        ([5, 3, 9], [None, 7, None], "min"),
        ([0, 1, 2], [None, None, None], "min"),
        ([2, 0, 1], [3, None, 3], 3),
        ([0, 1, 2, 3], [None, -1, None, 0], "min"),
    ]
    for k in range(n_cases):
        ids, aams, offset = corpus[k - len(CORPUS_FORMS)] if len(CORPUS_FORMS) <= k < len(CORPUS_FORMS) + len(corpus) \
            else gen_case(rng, big=(k % 10 == 0))
        via_its = offset == "min" and rng.random() < 0.3
        # the FORM of the input (12%): irrelevant extra node / edge attributes (must survive the in-place completion),
        # numpy.int64 ids and map numbers (a map that came out of an array / a table column)
        form = rng.choice(VARIANT_KINDS) if (ids and rng.random() < 0.12) else None
        cform, sform = pick_call_form(rng, "complete_aam", offset)
        if k < len(CORPUS_FORMS):
            ids, aams, offset, cform, sform = CORPUS_FORMS[k]
            via_its = False
        if via_its:
            cform, sform = rng.choice(("positional", "keyword")), "int"
        out = call_impl(impl_complete, ids, aams, offset, via_its, form, cform, sform)
        woff = Atom("min") if offset == "min" else offset
        req = [Atom("C20"), Atom("complete"), woff, aams]
        key = ("c", tuple(aams), offset, form) if any(a is None for a in aams) and any(a is not None for a in aams) else None
        fn = "ITS" if via_its else "complete_aam"
        cases.append(Case(req, out, meta={"ids": ids, "offset": offset, "via_ITS": via_its, "variant": form,
                                          "call_form": cform, "scalar_form": sform}, nontrivial_key=key,
                          tags=("complete", "offset=%s" % ("int" if isinstance(offset, int) else offset),
                                "via_its" if via_its else "direct", "mapped>6" if sum(a is not None for a in aams) > 6 else "mapped<=6",
                                "call_form:%s:%s" % (fn, cform))
                          + (("scalar_form:%s:offset=%s" % (fn, sform),) if isinstance(offset, int) and not via_its else ())
                          + (("input_form", "variant=" + form) if form else ())))
        if k % 5 == 2:
            cases += two_step_cases(rng, ids, aams, offset)
        if k % 4 == 0:
            # a quarter of the calls want the documented default (1): most of those omit the argument
            off = rng.randint(-2, 5) if rng.random() < 0.75 else DOCUMENTED_DEFAULT["initialize_aam"]
            form = rng.choice(VARIANT_KINDS) if (ids and rng.random() < 0.12) else None
            cform, sform = pick_call_form(rng, "initialize_aam", off)
            out = call_impl(impl_initialize, ids, aams, off, form, cform, sform)
            req = [Atom("C20"), Atom("initialize"), off, [[i, a] for i, a in zip(ids, aams)]]
            cases.append(Case(req, out, meta={"offset": off, "variant": form, "call_form": cform, "scalar_form": sform},
                              nontrivial_key=("i", tuple(ids), tuple(aams), off, form) if ids else None,
                              tags=("initialize", "init_raises" if any(a is not None for a in aams) else "init_ok",
                                    "call_form:initialize_aam:" + cform, "scalar_form:initialize_aam:offset=" + sform)
                              + (("input_form", "variant=" + form) if form else ())))
    r.evaluate(cases)
    r.assumptions = [
        "networkx node iteration order is modelled as a list; the graph enters complete_aam only through it and the aam attribute",
        "Python int is modelled by Lean Int (unbounded on both sides)",
        "the value of an omitted argument is the documented default (complete_aam: numbering starts at 1; initialize_aam: offset=1), "
        "written down in the harness (DOCUMENTED_DEFAULT), not read from the signature; an integer argument means its value, "
        "whether it is a Python int or a numpy integer scalar",
        "the functions are modelled as stateless: every call is judged against the graph as it is when the call is made; "
        "two-call scenarios on ONE graph object (complete_aam, in-place edit of the map - numbers removed/changed, mapped and "
        "unmapped atoms added -, complete_aam again; initialize_aam twice with the map wiped or kept in between) check that "
        "no state is kept per object across calls (tags two_step:*)",
    ]
    return r.finish(
        level="proof",
        rule="random node lists (0-40 nodes, shuffled/sparse ids) x partial maps (gaps, duplicates, negatives, dense blocks) x offset in {None,int,'min'}, "
             "30% of the 'min' cases through ITS(graph); 12% of the graphs in another FORM (extra node/edge attributes that must survive the in-place "
             "completion, numpy.int64 ids and map numbers; tags variant=*); HOW the call is written is drawn per call (tags call_form:<function>:<form>, scalar_form:*): 60% of the calls that want the documented "
             "default (complete_aam: start 1; initialize_aam: offset 1; defaults written down in the harness) OMIT the argument, the others pass it "
             "positionally / by keyword / with graph= as keyword too, ITS(g) / ITS(graph=g); 30% of the integer offsets travel as numpy.int64 / numpy.int32 "
             "scalars and must give the plain-int answer; every 5th input also as a two-call scenario on one graph object with in-place edits between the calls; non-trivial = partial map with at least one mapped and one unmapped node, distinct by (map, offset)",
        checker_cmd="cd lean && lake build FGVerif.Proofs.C20 && lake env lean FGVerif/Audit/C20.lean",
        explanation="theorems in lean/FGVerif/Proofs/C20.lean about Model/C20.lean; model tied to fgutils.utils.complete_aam/initialize_aam by differential testing; "
                    "executable spec C20.specCheck (proved equivalent to the declarative Spec, C20.specCheck_iff: the statement clause by clause, "
                    "not the order in which new numbers are handed to nodes; that order is tied to the code by the exact comparison with the model only) "
                    "applied to every implementation output")


def replay(path):
    """./check C20 --replay <file>: run the current implementation on the recorded input again"""
    import json
    from common import generic_replay

    def opt(x):
        return None if x == "_" else int(x)

    rec = json.load(open(path))
    meta = rec.get("meta") or {}
    form = meta.get("variant")
    if form:
        print("re-applying the recorded input form: variant=%s" % form)
    cform, sform = meta.get("call_form"), meta.get("scalar_form")
    if cform or sform:
        print("re-applying the recorded call form: argument %s, scalar as %s" % (cform, sform))

    def reimpl(req):
        op = req[1]
        if op == "complete":
            offset = "min" if req[2] == "min" else opt(req[2])
            aams = [opt(a) for a in req[3]]
            ids = meta.get("ids") if isinstance(meta.get("ids"), list) and len(meta["ids"]) == len(aams) else list(range(len(aams)))
            return call_impl(impl_complete, ids, aams, offset, bool(meta.get("via_ITS")), form, cform, sform)
        off = int(req[2])
        ids = [int(p[0]) for p in req[3]]
        aams = [opt(p[1]) for p in req[3]]
        return call_impl(impl_initialize, ids, aams, off, form, cform, sform)

    if meta.get("two_step"):
        # re-run the whole two-call scenario on one graph object; judge the recorded call
        from common import build, Driver, Outcome
        if meta["two_step"] == "complete":
            out1, before2, out2 = impl_two_step_complete(meta["ids"], meta["aams"], meta["offset"], meta["edits"], meta["offset2"])
            if meta.get("call") == 1:
                case = Case([Atom("C20"), Atom("complete"), woff(meta["offset"]), meta["aams"]], out1)
            else:
                case = Case([Atom("C20"), Atom("complete"), woff(meta["offset2"]), before2], out2)
        else:
            res1, b2, res2 = impl_two_step_initialize(meta["ids"], meta["aams"], meta["offset"], meta["wipe"], meta["offset2"])
            case = Case([Atom("C20"), Atom("initialize"), meta["offset2"], [[i, a] for i, a in zip(meta["ids"], b2)]], res2)
        if not build([]).driver_ok:
            print("ERROR driver does not build")
            return 2
        d = Driver()
        o = Outcome(case, d.ask(case.line()))
        d.close()
        print("re-ran the two-call scenario (%s) on one graph object" % meta["two_step"])
        print("request:", case.line()[:2000])
        print("reply:  ", o.reply)
        if not o.ok_reply:
            return 2
        if o.spec_fail:
            print("VIOLATION property=C20 replay=%s" % path)
            return 1
        if not o.corr:
            print("correspondence: model and implementation outputs differ on this input (spec holds)")
        return 0
    return generic_replay("C20", path, reimpl)
