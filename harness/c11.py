"""C11 — reaction centre and radius pruning are exact: correspondence + executable spec on
implementation outputs.

Operations (see lean/FGVerif/Driver/C11.lean):
  rc           fgutils.its.get_rc
  unreachable  fgutils.utils.get_unreachable_nodes        observable: the *set* of ids
  prune        fgutils.its.prune_its_to_rc / ITS.prune    observable: node set + edge set
"""
import hashlib
import json
import multiprocessing
import os
import random

import networkx as nx

import common
from common import Atom, Case, Run, call_impl, prepare, ImplError, enc_graph, enc_label, sx, parse_sx

PROOFS = ["FGVerif.Proofs.C11Reach", "FGVerif.Proofs.C11Graph", "FGVerif.Proofs.C11Unreach", "FGVerif.Proofs.C11Rc",
          "FGVerif.Proofs.C11Prune", "FGVerif.Proofs.C11"]

SYMS = ["C", "C", "C", "N", "O", "H", "Cl", "S"]
ORDERS = [0, 1, 1.5, 2, 3]
INT64_SAFE = 1 << 62


def hkey(kind, req):
    """compact identity of a request (non-trivial case counting)"""
    return kind + hashlib.blake2b(sx(req).encode(), digest_size=8).hexdigest()


# ---------------------------------------------------------------------------
# observables
# ---------------------------------------------------------------------------
def flat(g):
    """order-insensitive view of a simple graph: nodes sorted by id, edges as sorted (min,max,label)"""
    nodes = []
    for n in sorted(g.nodes):
        d = g.nodes[n]
        labels = d.get("labels")
        nodes.append([int(n), d.get("symbol"), None if labels is None else list(labels),
                      d.get("is_labeled"), d.get("aam")])
    edges = []
    for u, v, d in g.edges(data=True):
        edges.append([int(min(u, v)), int(max(u, v)), enc_label(d.get("bond"))])
    edges.sort(key=lambda e: (e[0], e[1]))
    return [nodes, edges]


def impl_unreachable(g, starts, r):
    from fgutils.utils import get_unreachable_nodes
    out = get_unreachable_nodes(g, list(starts), radius=r)
    return sorted({int(x) for x in out})


def impl_rc(g):
    from fgutils.its import get_rc
    return flat(get_rc(g))


def impl_prune(g, r, ins, via):
    from fgutils.its import ITS, prune_its_to_rc
    if via == "ITS.prune":
        its = ITS(g.copy())             # complete_aam already ran when the case was built: no change
        its.prune(radius=r, insert_hydrogens=ins)
        return flat(its.graph)
    return flat(prune_its_to_rc(g, radius=r, insert_hydrogens=ins))


# ---------------------------------------------------------------------------
# generators
# ---------------------------------------------------------------------------
def shape(rng, n, kind):
    """edge list over 0..n-1"""
    e = []
    if n == 0:
        return []
    if kind == "path":
        e = [(i, i + 1) for i in range(n - 1)]
    elif kind == "tree":
        e = [(rng.randrange(i), i) for i in range(1, n)]
    elif kind == "ring":
        e = [(i, (i + 1) % n) for i in range(n)] if n >= 3 else [(i, i + 1) for i in range(n - 1)]
    elif kind == "ring+tails":
        k = max(3, n // 2) if n >= 3 else n
        e = [(i, (i + 1) % k) for i in range(k)] if k >= 3 else [(i, i + 1) for i in range(k - 1)]
        e += [(rng.randrange(i), i) for i in range(k, n)]
    elif kind == "star":
        e = [(0, i) for i in range(1, n)]
    elif kind == "sparse":
        e = [(rng.randrange(i), i) for i in range(1, n) if rng.random() < 0.8]
        for _ in range(rng.randint(0, max(1, n // 3))):
            a, b = rng.randrange(n), rng.randrange(n)
            if a != b:
                e.append((min(a, b), max(a, b)))
    elif kind == "disconnected":
        k = rng.randint(1, max(1, n - 1))
        e = [(rng.randrange(i), i) for i in range(1, k)]
        e += [(k + rng.randrange(i - k), i) for i in range(k + 1, n) if rng.random() < 0.85]
    elif kind == "dense":
        e = [(i, j) for i in range(n) for j in range(i + 1, n) if rng.random() < 0.7]
    elif kind == "isolated":
        e = []
    return sorted(set((min(a, b), max(a, b)) for a, b in e if a != b))


KINDS = ["path", "tree", "tree", "ring", "ring+tails", "star", "sparse", "sparse", "disconnected",
         "disconnected", "dense", "isolated"]
IDSCHEMES = ["0..n-1", "from1", "offset", "sparse", "negative"]


def ids_for(rng, n, scheme):
    if scheme == "0..n-1":
        return list(range(n))
    if scheme == "from1":
        return list(range(1, n + 1))
    if scheme == "offset":
        o = rng.randint(2, 40)
        return list(range(o, o + n))
    if scheme == "sparse":
        return sorted(rng.sample(range(0, 4 * n + 4), n))
    return sorted(rng.sample(range(-2 * n - 2, 2 * n + 2), n))


def build(rng, n, kind, scheme, its_labels, multi=False, shuffle=None):
    """-> networkx graph; node insertion order and edge insertion order shuffled with prob. 1/2"""
    ids = ids_for(rng, n, scheme)
    edges = [(ids[a], ids[b]) for a, b in shape(rng, n, kind)]
    if shuffle is None:
        shuffle = rng.random() < 0.5
    order = list(ids)
    if shuffle:
        rng.shuffle(order)
        rng.shuffle(edges)
        edges = [(b, a) if rng.random() < 0.5 else (a, b) for a, b in edges]
    g = nx.MultiGraph() if multi else nx.Graph()
    for i in order:
        g.add_node(i, symbol=rng.choice(SYMS))
    n_rc = 0
    for a, b in edges:
        if its_labels is not None:
            if rng.random() < its_labels:
                x, y = rng.sample(ORDERS, 2)
                if rng.random() < 0.3:
                    y = 3 if x != 3 else 1          # product order 3 (mutant m19)
                n_rc += 1
            else:
                x = y = rng.choice(ORDERS[1:])
            g.add_edge(a, b, bond=(x, y))
        else:
            g.add_edge(a, b, bond=rng.choice(ORDERS[1:]))
            if multi:
                for _ in range(rng.choice([0, 0, 1, 2])):
                    g.add_edge(a, b, bond=rng.choice(ORDERS[1:]))
    if multi and n and rng.random() < 0.4:
        for _ in range(rng.randint(1, 2)):
            a = rng.choice(ids)
            g.add_edge(a, a, bond=1)
    return g


def ecc_bound(g):
    """largest finite shortest-path distance in g (diameter over components)"""
    d = 0
    for _, lengths in nx.all_pairs_shortest_path_length(g):
        d = max(d, max(lengths.values()))
    return d


def int64_safe(g, r):
    """walk counts stay far below 2^63 (the model's numbers are unbounded; numpy's are int64)"""
    if g.number_of_nodes() == 0:
        return True
    deg = max([sum(len(dd) if g.is_multigraph() else 1 for dd in g.adj[n].values()) for n in g.nodes] + [1])
    return (r + 1) * g.number_of_nodes() * deg ** r < INT64_SAFE


def start_sets(rng, g):
    """(tag, list) pairs"""
    nodes = list(g.nodes)
    out = [("starts=empty", [])]
    if nodes:
        out.append(("starts=single", [rng.choice(nodes)]))
        k = rng.randint(2, max(2, min(4, len(nodes))))
        out.append(("starts=multiple", [rng.choice(nodes) for _ in range(k)]))   # duplicates possible
        iso = [n for n in nodes if g.degree(n) == 0]
        if iso:
            out.append(("starts=isolated", [rng.choice(iso)] + ([rng.choice(nodes)] if rng.random() < 0.5 else [])))
        lone = [n for n in nodes if g.degree(n) > 0]
        if lone:
            # a start node none of whose neighbours is a start node (defect F8, first part)
            out.append(("starts=lone", [rng.choice(lone)]))
    return out


def unreachable_case(g, starts, r, tags, meta=None, in_domain=True):
    out = call_impl(impl_unreachable, g, starts, r)
    req = [Atom("C11"), Atom("unreachable"), enc_graph(g), [int(s) for s in starts], int(r)]
    n = g.number_of_nodes()
    key = None
    if not isinstance(out, ImplError) and 0 < len(out) < n and starts:
        key = hkey("u", req)
    dom = in_domain and n > 0 and all(s in g for s in starts) and int64_safe(g, r)
    m = {"op": "unreachable", "starts": [int(s) for s in starts], "r": r}
    m.update(meta or {})
    return Case(req, out, in_domain=dom, meta=m, nontrivial_key=key, tags=tags)


def unreachable_spec_case(g, starts, r, tags, meta=None):
    """LARGE in-domain inputs: only the proved-sound BFS specification is applied to the implementation's output by the
    driver (op `unreachable_spec`); the matrix model is not evaluated, so there is no model/implementation comparison"""
    out = call_impl(impl_unreachable, g, starts, r)
    req = [Atom("C11"), Atom("unreachable_spec"), enc_graph(g), [int(s) for s in starts], int(r)]
    n = g.number_of_nodes()
    key = hkey("U", req) if not isinstance(out, ImplError) and 0 < len(out) < n and starts else None
    m = {"op": "unreachable_spec", "starts": [int(s) for s in starts], "r": r}
    m.update(meta or {})
    return Case(req, out, in_domain=n > 0 and all(s in g for s in starts), meta=m, nontrivial_key=key,
                compare_model=False, tags=tags)


def big_shapes():
    """(name, edge list over 0..n-1, n): long, thin graphs whose diameter allows radii at which the int64 walk counts of
    get_unreachable_nodes exceed 2^63 although the answer is not trivial"""
    out = []
    # chain of 24 five-cliques, consecutive cliques joined by one bond
    e, k = [], 24
    for c in range(k):
        b = 5 * c
        e += [(b + i, b + j) for i in range(5) for j in range(i + 1, 5)]
        if c + 1 < k:
            e.append((b + 4, b + 5))
    out.append(("clique-chain(24xK5)", e, 5 * k))
    # polyacene: 35 linearly fused six-rings = ladder with a rung at every second position
    m = 70
    e = [(i, i + 1) for i in range(m)] + [(m + 1 + i, m + 2 + i) for i in range(m)] + [(i, m + 1 + i) for i in range(0, m + 1, 2)]
    out.append(("polyacene(35 rings)", e, 2 * (m + 1)))
    # long cycle and long path
    out.append(("cycle(C140)", [(i, (i + 1) % 140) for i in range(140)], 140))
    out.append(("path(P100)+triangles", [(i, i + 1) for i in range(99)] + [(i, i + 2) for i in range(0, 98, 3)], 100))
    return out


def big_cases(rng, per_shape):
    """in-domain cases in the range where numpy's int64 walk counts wrap around (radius >= 31, still <= diameter + 1)"""
    cases = []
    for name, edges, n in big_shapes():
        scheme = rng.choice(IDSCHEMES)
        ids = ids_for(rng, n, scheme)
        order = list(ids)
        es = [(ids[a], ids[b]) for a, b in edges]
        if rng.random() < 0.5:
            rng.shuffle(order)
            rng.shuffle(es)
        g = nx.Graph()
        for i in order:
            g.add_node(i, symbol="C")
        for a, b in es:
            g.add_edge(a, b, bond=1)
        diam = ecc_bound(g)
        radii = sorted({r for r in (31, 40, 51, 63, 64, 65, 70, diam - 1, diam, diam + 1) if 31 <= r <= diam + 1})
        starts_all = [("starts=single-end", [ids[0]]), ("starts=single-middle", [ids[n // 2]]),
                      ("starts=multiple", [ids[0], ids[n // 3], ids[0]]), ("starts=single-random", [rng.choice(ids)])]
        picks = [(t, st, r) for t, st in starts_all for r in radii]
        rng.shuffle(picks)
        for t, st, r in picks[:per_shape]:
            cases.append(unreachable_spec_case(g, st, r, ("unreachable", "big:" + name, "ids=" + scheme, t, "r>=31(int64-wrap-range)"),
                                               {"big": name, "diameter": diam}))
    return cases


def rc_case(g, tags, meta=None):
    out = call_impl(impl_rc, g)
    req = [Atom("C11"), Atom("rc"), enc_graph(g)]
    key = hkey("rc", req) if not isinstance(out, ImplError) and out[1] else None
    m = {"op": "rc"}
    m.update(meta or {})
    return Case(req, out, meta=m, nontrivial_key=key, tags=tags)


def prune_case(g, r, ins, via, tags, meta=None):
    req = [Atom("C11"), Atom("prune"), enc_graph(g), int(r), bool(ins)]
    n = g.number_of_nodes()
    out = call_impl(impl_prune, g, r, ins, via)
    key = None
    if not isinstance(out, ImplError):
        old = set(g.nodes)
        kept = [x for x in out[0] if x[0] in old]
        if 0 < len(kept) < n:
            key = hkey("p", req)
    m = {"op": "prune", "r": r, "insert_hydrogens": ins, "via": via}
    m.update(meta or {})
    # correspondence is decided by the driver (modulo renaming of fresh hydrogen ids)
    return Case(req, out, in_domain=n > 0 and int64_safe(g, r), meta=m, nontrivial_key=key,
                compare_model=False, tags=tags + ("via=" + via, "insertH=%d" % ins))


REACTIONS = [
    "[CH3:1][CH2:2][Cl:3].[OH2:4]>>[CH3:1][CH2:2][OH:4].[ClH:3]",
    "[CH2:1]=[CH:2][CH:3]=[CH2:4].[CH2:5]=[CH2:6]>>[CH2:1]1[CH:2]=[CH:3][CH2:4][CH2:5][CH2:6]1",
    "[CH3:1][C:2](=[O:3])[OH:4].[CH3:5][CH2:6][OH:7]>>[CH3:1][C:2](=[O:3])[O:7][CH2:6][CH3:5].[OH2:4]",
    "[CH3:9][CH2:7][CH2:5][C:3]#[N:1]>>[CH3:9][CH2:7][CH2:5][CH:3]=[NH:1]",
    "[CH3:1][CH2:2][CH2:3][CH2:4][CH2:5][Br:6].[NH3:7]>>[CH3:1][CH2:2][CH2:3][CH2:4][CH2:5][NH2:7].[BrH:6]",
]


def load_corpus():
    p = os.path.join(common.CORPUS_DIR, "C11", "witnesses.json")
    if not os.path.exists(p):
        return []
    return json.load(open(p))["cases"]


def corpus_cases():
    """fixed regression inputs: the three witnesses of defect F8 (DESIGN §7) and mutant m19"""
    from fgutils.parse import parse
    from fgutils.its import ITS
    cases = []
    for c in load_corpus():
        if c["op"] == "unreachable":
            g = parse(c["pattern"], idx_offset=c.get("idx_offset", 0))
            cases.append(unreachable_case(g, c["starts"], c["r"], ("corpus", "unreachable"), {"corpus": c["name"]}))
        elif c["op"] == "prune_smiles":
            for ins in (True, False):
                its = ITS.from_smiles(c["smiles"])
                cases.append(prune_case(its.graph, c["r"], ins, "ITS.prune", ("corpus", "prune"), {"corpus": c["name"]}))
        elif c["op"] in ("prune", "rc"):
            g = nx.Graph()
            for n, s in c["nodes"]:
                g.add_node(n, symbol=s)
            for a, b, x, y in c["edges"]:
                g.add_edge(a, b, bond=(x, y))
            if c["op"] == "rc":
                cases.append(rc_case(g, ("corpus", "rc"), {"corpus": c["name"]}))
            else:
                cases.append(prune_case(g, c["r"], c["ins"], "prune_its_to_rc", ("corpus", "prune"), {"corpus": c["name"]}))
    return cases


def gen_cases(rng, budget, big):
    """one graph -> several cases; returns a list of Case.  big: False (1-9 nodes), True (8-26), 2 (27-42)"""
    from fgutils.its import ITS
    cases = []
    while len(cases) < budget:
        kind = rng.choice(KINDS)
        scheme = rng.choice(IDSCHEMES)
        n = rng.randint(1, 9) if not big else (rng.randint(8, 26) if big is True else rng.randint(27, 42))
        if rng.random() < 0.03:
            n = 0
        mode = rng.random()
        if mode < 0.45:
            # plain graph (optionally a multigraph): get_unreachable_nodes
            multi = rng.random() < 0.2
            g = build(rng, n, kind, scheme, None, multi=multi)
            diam = ecc_bound(g)
            radii = list(range(0, diam + 2))
            if len(radii) > 5:
                radii = sorted(rng.sample(radii, 5) + [0, 1])
            base = ("unreachable", "shape=" + kind, "ids=" + scheme, "multigraph" if multi else "simple",
                    "n=%s" % ("0" if n == 0 else "1-9" if n < 10 else "10-26" if n < 27 else "27+"))
            for tag, starts in start_sets(rng, g):
                for r in (radii if tag != "starts=empty" else radii[:2]):
                    cases.append(unreachable_case(g, starts, r, base + (tag, "r=%s" % (r if r < 3 else "3+"),)))
            if n and rng.random() < 0.05:
                bad = max(g.nodes) + rng.randint(1, 3)
                cases.append(unreachable_case(g, [bad], 1, base + ("starts=not-a-node",)))
        else:
            # ITS-labelled simple graph: get_rc, prune_its_to_rc, ITS.prune
            g = build(rng, n, kind, scheme, rng.choice([0.0, 0.1, 0.25, 0.5]))
            base = ("shape=" + kind, "ids=" + scheme, "n=%s" % ("0" if n == 0 else "1-9" if n < 10 else "10-26" if n < 27 else "27+"))
            cases.append(rc_case(g, ("rc",) + base))
            diam = ecc_bound(g)
            radii = list(range(0, diam + 2))
            if len(radii) > 4:
                radii = sorted(set(rng.sample(radii, 3) + [0, 1]))
            for r in radii:
                for ins in (True, False):
                    if rng.random() < 0.35:
                        g2 = g.copy()
                        ITS(g2)                     # constructor completes the atom map in place
                        cases.append(prune_case(g2, r, ins, "ITS.prune", ("prune",) + base + ("r=%s" % (r if r < 3 else "3+"),)))
                    else:
                        cases.append(prune_case(g, r, ins, "prune_its_to_rc", ("prune",) + base + ("r=%s" % (r if r < 3 else "3+"),)))
            # the rc nodes as an explicit start set through get_unreachable_nodes as well
            if n:
                from fgutils.its import get_rc
                rcn = call_impl(lambda: list(get_rc(g).nodes))
                if not isinstance(rcn, ImplError):
                    r = rng.choice(radii)
                    cases.append(unreachable_case(g, rcn, r, ("unreachable", "starts=rc", "shape=" + kind, "ids=" + scheme)))
    return cases


def smiles_cases(rng):
    from fgutils.its import ITS
    cases = []
    for smi in REACTIONS:
        its0 = ITS.from_smiles(smi)
        cases.append(rc_case(its0.graph, ("rc", "from_smiles"), {"smiles": smi}))
        for r in range(0, ecc_bound(its0.graph) + 2):
            for ins in (True, False):
                its = ITS.from_smiles(smi)
                cases.append(prune_case(its.graph, r, ins, "ITS.prune", ("prune", "from_smiles", "ids=from1"), {"smiles": smi}))
                cases.append(prune_case(its.graph, r, ins, "prune_its_to_rc", ("prune", "from_smiles", "ids=from1"), {"smiles": smi}))
    return cases


def overflow_probe(r_run, rng):
    """high-radius dense cases: numpy's int64 walk counts wrap around, the model's do not.
    Reported in the evidence, never decides the verdict."""
    cases = []
    for n, r in ((8, 30), (10, 40), (12, 64), (6, 100), (9, 25)):
        g = nx.complete_graph(n)
        for a, b in g.edges:
            g.edges[a, b]["bond"] = 1
        for v in g.nodes:
            g.nodes[v]["symbol"] = "C"
        g.add_node(n, symbol="C")          # one isolated, truly unreachable node
        c = unreachable_case(g, [0], r, ("probe=int64-wraparound",), {"probe": "K%d r=%d" % (n, r)}, in_domain=False)
        cases.append(c)
    outs = r_run.evaluate(cases)
    dis = sum(1 for o in outs if not o.corr or o.spec_fail)
    r_run.extra_cov["int64_wraparound_probe"] = {
        "cases": len(cases), "disagreements_with_unbounded_model": dis,
        "note": "complete graphs, radius 25-100: walk counts exceed 2^63; not modelled, reported only"}


def _shard(args):
    """thorough tier: one shard = own generator (seeded by (seed, k)) + own driver process"""
    seed, k, n_small, n_big, n_huge = args
    rng = random.Random(seed * 1000003 + 7919 * (k + 1))
    cases = gen_cases(rng, n_small, False) + gen_cases(rng, n_big, True) + (gen_cases(rng, n_huge, 2) if n_huge else [])
    d = common.Driver()
    replies = d.batch([c.line() for c in cases])
    d.close()
    return cases, replies


class _Precomputed:
    """stands in for the driver when a shard's replies were computed in a worker process"""

    def __init__(self, replies):
        self.replies = replies
        self.count = 0

    def batch(self, lines):
        assert len(lines) == len(self.replies)
        self.count += len(lines)
        return self.replies

    def close(self):
        pass


def post_check(r, outs, counters):
    """prune: the driver decides the correspondence modulo the choice of fresh ids (extra[1]);
    every in-domain input must satisfy the hypotheses of the theorems (extra[0])"""
    for o in outs:
        if not o.ok_reply or not o.case.in_domain:
            continue
        if o.extra and o.extra[0] != "1":
            counters["bad_wf"] += 1
        if o.case.meta.get("op") == "prune" and not o.spec_fail and len(o.extra) > 1 and o.extra[1] == "0":
            r.corr_failures.append(o)


def run(tier, seed):
    r = Run("C11", tier, seed)
    if not prepare(r, PROOFS, "C11"):
        return 2
    rng = r.rng
    counters = {"bad_wf": 0}
    cases = corpus_cases() + smiles_cases(rng)
    cases += big_cases(rng, 12 if tier == "quick" else 40)
    if tier == "quick":
        cases += gen_cases(rng, 12000, False)
        cases += gen_cases(rng, 2600, True)
        post_check(r, r.evaluate(cases), counters)
    else:
        post_check(r, r.evaluate(cases), counters)
        real_driver = r.driver
        shards = [(seed, k, 12000, 2500, 250) for k in range(64)]
        ctx = multiprocessing.get_context("fork")
        with ctx.Pool(min(16, os.cpu_count() or 1)) as pool:
            for cs, replies in pool.imap(_shard, shards):       # ordered: results do not depend on scheduling
                r.driver = _Precomputed(replies)
                post_check(r, r.evaluate(cs), counters)
        r.driver = real_driver
    bad_wf = counters["bad_wf"]
    r.extra_cov["inputs_violating_theorem_hypotheses"] = bad_wf
    machinery = []
    if bad_wf:
        # a defect of the harness (its generator left the theorems' domain): never a VIOLATION, never a pass -> exit 2
        machinery.append("ERROR property=C11 %d generated inputs are not well-formed graphs (harness defect)" % bad_wf)
    overflow_probe(r, rng)
    r.assumptions = [
        "networkx graphs are modelled by Model/Graph.lean (insertion-ordered nodes and adjacency); nx.adjacency_matrix entry = number of parallel edges (no 'weight' attributes), checked against the code by this harness",
        "numpy int64 walk counts are modelled by unbounded Nat; wrap-around is not modelled (int64_wraparound_probe reports it); the cases that are "
        "compared with the matrix model keep (r+1)*n*maxdeg^r below 2^62",
        "LARGE in-domain inputs (tags big:*: a chain of 24 five-cliques, a 35-ring polyacene, the cycle C140, a 100-atom path with triangles; any id scheme; "
        "radii 31..diameter+1, i.e. in the range where the implementation's int64 walk counts exceed 2^63 and wrap around): the property's answer "
        "(unreachable = not within r steps of a start node) is decided on the implementation's output by the proved-sound BFS specification "
        "C11.specUnreachable alone (driver op unreachable_spec); the matrix model is NOT evaluated on them (40-80 s per case with unbounded "
        "naturals), so there is no model/implementation comparison for these cases - they are judged by the specification only",
        "empty graphs (networkx refuses to build the matrix) and start nodes that are not nodes (KeyError) are outside the domain",
        "prune: which fresh id is given to which cut bond is not fixed by the property; model and implementation are compared modulo a renaming of the fresh ids",
    ]
    rc = r.finish(
        level="proof",
        rule="corpus (F8 witnesses, m19 witness) + ITS.from_smiles reactions + random graphs: 12 shapes (paths, trees, rings, rings with tails, stars, sparse, disconnected, dense, edgeless) x "
             "5 id schemes (0..n-1, from 1, offset, sparse, negative; insertion order shuffled half of the time) x simple/multigraph (parallel edges, self-loops) x start sets "
             "(empty, single, multiple with duplicates, isolated, lone, reaction centre) x r = 0..diameter+1; large thin graphs (100-142 atoms: clique chain, "
             "polyacene, long cycle, path with triangles) x radii 31..diameter+1 (int64 wrap-around range) judged by the BFS specification only; ITS-labelled graphs for get_rc / prune_its_to_rc / ITS.prune x insert_hydrogens; "
             "non-trivial = answer neither empty nor everything, distinct by request",
        checker_cmd="cd lean && lake build FGVerif.Proofs.C11 && lake env lean FGVerif/Audit/C11.lean",
        explanation="theorems in lean/FGVerif/Proofs/C11*.lean about Model/C11.lean (walk counting = BFS distance for every graph, start set and radius); model tied to fgutils by differential "
                    "testing; executable specs (BFS `withinList`, declarative pruned-graph description) applied to every implementation output")
    # exit 1 iff a VIOLATION line was printed; machinery problems are exit 2 (exit 1 if both happened)
    for ln in machinery:
        print(ln)
    if machinery and rc == 0:
        rc = 2
    return rc


# ---------------------------------------------------------------------------
# replay
# ---------------------------------------------------------------------------
def dec_graph(w):
    multi = w[0] == "1"
    g = nx.MultiGraph() if multi else nx.Graph()

    def s(x):
        if x == "_":
            return None
        return x[2:] if x.startswith("s:") else bytes.fromhex(x[2:]).decode()

    for n in w[1]:
        d = {}
        if n[1] != "_":
            d["symbol"] = s(n[1])
        if n[2] != "_":
            d["labels"] = [s(x) for x in n[2]]
        if n[3] != "_":
            d["is_labeled"] = n[3] == "1"
        if n[4] != "_":
            d["aam"] = int(n[4])
        g.add_node(int(n[0]), **d)
    for row in w[2]:
        u = int(row[0])
        for nb in row[1]:
            v = int(nb[0])
            for kd in nb[1]:
                lab = common.dec_label(kd[1])
                if isinstance(lab, tuple):
                    lab = tuple(int(x) if x == int(x) else x for x in lab)
                elif lab is not None and lab == int(lab):
                    lab = int(lab)
                if multi:
                    if not g.has_edge(u, v, key=int(kd[0])):
                        g.add_edge(u, v, key=int(kd[0]), bond=lab)
                elif not g.has_edge(u, v):
                    g.add_edge(u, v, bond=lab)
    return g


def replay(path):
    rp = json.load(open(path))
    line = rp.get("request_line")
    if not line:
        print("replay %s names a proof obligation / correspondence only: %s" % (path, rp.get("theorem_or_correspondence")))
        return 1
    w = parse_sx(line)
    op = w[1]
    g = dec_graph(w[2])
    if op == "unreachable":
        c = unreachable_case(g, [int(x) for x in w[3]], int(w[4]), ("replay",))
    elif op == "unreachable_spec":
        c = unreachable_spec_case(g, [int(x) for x in w[3]], int(w[4]), ("replay",))
    elif op == "rc":
        c = rc_case(g, ("replay",))
    else:
        c = prune_case(g, int(w[3]), w[4] == "1", rp.get("meta", {}).get("via", "prune_its_to_rc"), ("replay",))
    d = common.Driver()
    rep = d.ask(c.line())
    d.close()
    o = common.Outcome(c, rep)
    print("request :", c.line())
    print("impl    :", common.sx_of(o.impl_c))
    print("model   :", common.sx_of(o.model))
    print("spec_impl=%s spec_model=%s extra=%s" % (o.spec_impl, o.spec_model, common.sx_of(o.extra)))
    if o.spec_fail:
        print("VIOLATION property=C11 replay=%s" % path)
        return 1
    print("property holds on this input now")
    return 0
