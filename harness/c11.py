"""C11 — reaction centre and radius pruning are exact: correspondence + executable spec on
implementation outputs.

Operations (see lean/FGVerif/Driver/C11.lean):
  rc           fgutils.its.get_rc
  unreachable  fgutils.utils.get_unreachable_nodes        observable: the *set* of ids
  prune        fgutils.its.prune_its_to_rc / ITS.prune    observable: node set + edge set
  unreachable_spec / prune_spec   the same calls on inputs for which the Lean matrix model is too slow
               (n^3 * r > MODEL_COST_MAX): judged by the proved specification only

Every generated call is in the domain of the property whatever its radius: walk counts are never a reason
to leave the domain (the implementation clamps every matrix power to 0/1 since 5e2d069; the model counts in
unbounded naturals, and its clamping transcription - proved equal - is what the driver runs; the specification is
a breadth-first search).

Same-object histories (`history_cases`): ONE graph / ONE ITS object is asked several times with in-place
edits in between; every answer is judged for the object as it is at the time of the call.
"""
import hashlib
import json
import multiprocessing
import os
import random

import networkx as nx

import common
from common import Atom, Run, call_impl, prepare, ImplError, enc_graph, enc_label, sx, parse_sx

PROOFS = ["FGVerif.Proofs.C11Reach", "FGVerif.Proofs.C11Graph", "FGVerif.Proofs.C11Unreach", "FGVerif.Proofs.C11Rc",
          "FGVerif.Proofs.C11Prune", "FGVerif.Proofs.C11Clamp", "FGVerif.Proofs.C11"]

SYMS = ["C", "C", "C", "N", "O", "H", "Cl", "S"]
ORDERS = [0, 1, 1.5, 2, 3]
# the Lean matrix model multiplies n x n matrices of unbounded naturals r times (about 0.4 us * n^3 * r in the compiled
# driver); above this cost a case is judged by the proved specification alone (ops unreachable_spec / prune_spec)
MODEL_COST_MAX = 4_000_000


def model_feasible(n, r):
    return n ** 3 * max(1, r) <= MODEL_COST_MAX


class Case(common.Case):
    """Case whose wire line is rendered once (in the worker process that also asks the driver) and travels with it"""
    __slots__ = ("_line",)

    def line(self):
        try:
            return self._line
        except AttributeError:
            self._line = common.Case.line(self)
            return self._line


def hkey(kind, req):
    """compact identity of a request (non-trivial case counting)"""
    return kind + hashlib.blake2b(sx(req).encode(), digest_size=8).hexdigest()


# ---------------------------------------------------------------------------
# observables
# ---------------------------------------------------------------------------
def flat(g):
    """order-insensitive view of a simple graph: nodes sorted by id, edges as sorted (min,max,label)"""
    nodes = []
    for n in sorted(g.nodes):
        d = g.nodes[n]
        labels = d.get("labels")
        nodes.append([int(n), d.get("symbol"), None if labels is None else list(labels),
                      d.get("is_labeled"), d.get("aam")])
    edges = []
    for u, v, d in g.edges(data=True):
        edges.append([int(min(u, v)), int(max(u, v)), enc_label(d.get("bond"))])
    edges.sort(key=lambda e: (e[0], e[1]))
    return [nodes, edges]


# How a call is written (review 3: default arguments and positional forms were never exercised).  The documented
# defaults are written down HERE, not read from the signatures: a changed default must show as a wrong answer.
DOC_DEFAULT = {"get_unreachable_nodes.radius": 1, "prune_its_to_rc.radius": 0, "prune_its_to_rc.insert_hydrogens": True,
               "ITS.prune.radius": 1, "ITS.prune.insert_hydrogens": True}
CALL_FORMS = {}


def call_form(fn, *key):
    """0 = keywords, 1 = positional, 2 = arguments that equal the documented default are omitted; a fixed function
    of the input, so a replay makes the same call"""
    import zlib
    f = zlib.crc32(repr((fn,) + key).encode()) % 3
    return f


def _note(fn, form, omitted):
    k = "%s:%s" % (fn, ["keyword", "positional", "defaults_omitted" if omitted else "keyword(no default to omit)"][form])
    CALL_FORMS[k] = CALL_FORMS.get(k, 0) + 1


def impl_unreachable(g, starts, r):
    from fgutils.utils import get_unreachable_nodes
    form = call_form("get_unreachable_nodes", len(g), tuple(starts), r)
    if form == 1:
        out = get_unreachable_nodes(g, list(starts), r)
    elif form == 2 and r == DOC_DEFAULT["get_unreachable_nodes.radius"]:
        out = get_unreachable_nodes(g, list(starts))
    else:
        out = get_unreachable_nodes(g, list(starts), radius=r)
    _note("get_unreachable_nodes", form, r == DOC_DEFAULT["get_unreachable_nodes.radius"])
    return sorted({int(x) for x in out})


def _prune_args(fn, form, r, ins):
    """(args, kwargs) after the graph / self"""
    if form == 1:
        return (r, ins), {}
    kw = {"radius": r, "insert_hydrogens": ins}
    if form == 2:
        kw = {k: v for k, v in kw.items() if v != DOC_DEFAULT["%s.%s" % (fn, k)]}
    return (), kw


def impl_rc(g):
    from fgutils.its import get_rc
    return flat(get_rc(g))


def impl_prune(g, r, ins, via, its=None):
    from fgutils.its import ITS, prune_its_to_rc
    if its is not None:
        # a long-lived ITS object (same-object histories): its.graph is g at the time of the call
        assert its.graph is g and via == "ITS.prune"
        form = call_form("ITS.prune", len(g), r, ins)
        args, kw = _prune_args("ITS.prune", form, r, ins)
        _note("ITS.prune", form, len(kw) < 2 and form == 2)
        its.prune(*args, **kw)
        return flat(its.graph)
    if via == "ITS.prune":
        its = ITS(g.copy())             # complete_aam already ran when the case was built: no change
        form = call_form("ITS.prune", len(g), r, ins)
        args, kw = _prune_args("ITS.prune", form, r, ins)
        _note("ITS.prune", form, len(kw) < 2 and form == 2)
        its.prune(*args, **kw)
        return flat(its.graph)
    form = call_form("prune_its_to_rc", len(g), r, ins)
    args, kw = _prune_args("prune_its_to_rc", form, r, ins)
    _note("prune_its_to_rc", form, len(kw) < 2 and form == 2)
    return flat(prune_its_to_rc(g, *args, **kw))


# ---------------------------------------------------------------------------
# generators
# ---------------------------------------------------------------------------
def shape(rng, n, kind):
    """edge list over 0..n-1"""
    e = []
    if n == 0:
        return []
    if kind == "path":
        e = [(i, i + 1) for i in range(n - 1)]
    elif kind == "tree":
        e = [(rng.randrange(i), i) for i in range(1, n)]
    elif kind == "ring":
        e = [(i, (i + 1) % n) for i in range(n)] if n >= 3 else [(i, i + 1) for i in range(n - 1)]
    elif kind == "ring+tails":
        k = max(3, n // 2) if n >= 3 else n
        e = [(i, (i + 1) % k) for i in range(k)] if k >= 3 else [(i, i + 1) for i in range(k - 1)]
        e += [(rng.randrange(i), i) for i in range(k, n)]
    elif kind == "star":
        e = [(0, i) for i in range(1, n)]
    elif kind == "sparse":
        e = [(rng.randrange(i), i) for i in range(1, n) if rng.random() < 0.8]
        for _ in range(rng.randint(0, max(1, n // 3))):
            a, b = rng.randrange(n), rng.randrange(n)
            if a != b:
                e.append((min(a, b), max(a, b)))
    elif kind == "disconnected":
        k = rng.randint(1, max(1, n - 1))
        e = [(rng.randrange(i), i) for i in range(1, k)]
        e += [(k + rng.randrange(i - k), i) for i in range(k + 1, n) if rng.random() < 0.85]
    elif kind == "dense":
        e = [(i, j) for i in range(n) for j in range(i + 1, n) if rng.random() < 0.7]
    elif kind == "isolated":
        e = []
    return sorted(set((min(a, b), max(a, b)) for a, b in e if a != b))


KINDS = ["path", "tree", "tree", "ring", "ring+tails", "star", "sparse", "sparse", "disconnected",
         "disconnected", "dense", "isolated"]
IDSCHEMES = ["0..n-1", "from1", "offset", "sparse", "negative"]


def ids_for(rng, n, scheme):
    if scheme == "0..n-1":
        return list(range(n))
    if scheme == "from1":
        return list(range(1, n + 1))
    if scheme == "offset":
        o = rng.randint(2, 40)
        return list(range(o, o + n))
    if scheme == "sparse":
        return sorted(rng.sample(range(0, 4 * n + 4), n))
    return sorted(rng.sample(range(-2 * n - 2, 2 * n + 2), n))


def build(rng, n, kind, scheme, its_labels, multi=False, shuffle=None):
    """-> networkx graph; node insertion order and edge insertion order shuffled with prob. 1/2"""
    ids = ids_for(rng, n, scheme)
    edges = [(ids[a], ids[b]) for a, b in shape(rng, n, kind)]
    if shuffle is None:
        shuffle = rng.random() < 0.5
    order = list(ids)
    if shuffle:
        rng.shuffle(order)
        rng.shuffle(edges)
        edges = [(b, a) if rng.random() < 0.5 else (a, b) for a, b in edges]
    g = nx.MultiGraph() if multi else nx.Graph()
    for i in order:
        g.add_node(i, symbol=rng.choice(SYMS))
    n_rc = 0
    for a, b in edges:
        if its_labels is not None:
            if rng.random() < its_labels:
                x, y = rng.sample(ORDERS, 2)
                if rng.random() < 0.3:
                    y = 3 if x != 3 else 1          # product order 3 (mutant m19)
                n_rc += 1
            else:
                x = y = rng.choice(ORDERS[1:])
            g.add_edge(a, b, bond=(x, y))
        else:
            g.add_edge(a, b, bond=rng.choice(ORDERS[1:]))
            if multi:
                for _ in range(rng.choice([0, 0, 1, 2])):
                    g.add_edge(a, b, bond=rng.choice(ORDERS[1:]))
    if multi and n and rng.random() < 0.4:
        for _ in range(rng.randint(1, 2)):
            a = rng.choice(ids)
            g.add_edge(a, a, bond=1)
    return g


def ecc_bound(g):
    """largest finite shortest-path distance in g (diameter over components)"""
    d = 0
    for _, lengths in nx.all_pairs_shortest_path_length(g):
        d = max(d, max(lengths.values()))
    return d


def start_sets(rng, g):
    """(tag, list) pairs"""
    nodes = list(g.nodes)
    out = [("starts=empty", [])]
    if nodes:
        out.append(("starts=single", [rng.choice(nodes)]))
        k = rng.randint(2, max(2, min(4, len(nodes))))
        out.append(("starts=multiple", [rng.choice(nodes) for _ in range(k)]))   # duplicates possible
        iso = [n for n in nodes if g.degree(n) == 0]
        if iso:
            out.append(("starts=isolated", [rng.choice(iso)] + ([rng.choice(nodes)] if rng.random() < 0.5 else [])))
        lone = [n for n in nodes if g.degree(n) > 0]
        if lone:
            # a start node none of whose neighbours is a start node (defect F8, first part)
            out.append(("starts=lone", [rng.choice(lone)]))
            # two (or three) path-connected start nodes, listed in BOTH orders: a search per start node that shares its
            # visited set answers differently when the farther start node comes first (seeded change C11_r3_1)
            a = rng.choice(lone)
            comp = [v for v in nx.node_connected_component(nx.Graph(g), a) if v != a]
            if comp:
                b = rng.choice(comp)
                st = [a, b] + ([rng.choice(comp)] if rng.random() < 0.3 else [])
                out.append(("starts=connected-pair", st))
                out.append(("starts=connected-pair-reversed", st[::-1]))
    return out


def unreachable_case(g, starts, r, tags, meta=None, in_domain=True, spec_only=None):
    """one call of get_unreachable_nodes.  In the domain whenever the graph is not empty and the start nodes are nodes,
    for EVERY radius.  Judged by model + specification (op `unreachable`) when the matrix model is affordable, by the
    proved-sound BFS specification alone (op `unreachable_spec`, no model output, no comparison) otherwise."""
    n = g.number_of_nodes()
    if spec_only is None:
        spec_only = not model_feasible(n, r)
    op = "unreachable_spec" if spec_only else "unreachable"
    req = [Atom("C11"), Atom(op), enc_graph(g), [int(s) for s in starts], int(r)]      # the graph as it is at call time
    out = call_impl(impl_unreachable, g, starts, r)
    key = None
    if not isinstance(out, ImplError) and 0 < len(out) < n and starts:
        key = hkey("U" if spec_only else "u", req)
    dom = in_domain and n > 0 and all(s in g for s in starts)
    m = {"op": op, "starts": [int(s) for s in starts], "r": r}
    m.update(meta or {})
    return Case(req, out, in_domain=dom, meta=m, nontrivial_key=key, compare_model=not spec_only,
                tags=tuple(tags) + (("judged=spec-only",) if spec_only else ("judged=model+spec",)))


def unreachable_spec_case(g, starts, r, tags, meta=None):
    return unreachable_case(g, starts, r, tags, meta, spec_only=True)


def gadget_chain(k, w):
    """x0 -{w parallel two-bond paths}- x1 - ... - xk: k gadgets on k*(w+1)+1 atoms.  w = 2: a chain of k spiro-fused
    four-rings.  dist(x0, xk) = 2k and the number of walks of length 2k from x0 to xk is w^k: with w = 2, k = 64 (193
    atoms) or w = 4, k = 32 (161 atoms) it is 2^64, and every longer walk count is a multiple of it as well - the int64
    walk counts of get_unreachable_nodes before 5e2d069 were 0 there (atom reported unreachable at every radius)."""
    e = []
    for i in range(k):
        x, y = i * (w + 1), (i + 1) * (w + 1)
        for j in range(1, w + 1):
            e += [(x, x + j), (x + j, y)]
    return e, k * (w + 1) + 1


def mixed_gadget_chain(parts):
    """gadgets of different widths in a row: parts = [(k, w), ...]"""
    e, x = [], 0
    for k, w in parts:
        for _ in range(k):
            y = x + w + 1
            for j in range(1, w + 1):
                e += [(x, x + j), (x + j, y)]
            x = y
    return e, x + 1


def big_shapes():
    """(name, edge list over 0..n-1, n): long, thin graphs whose diameter allows radii at which int64 walk counts exceed
    2^63 although the answer is not trivial; node 0 is an end of the shape.  The doubling-gadget families make the walk
    count between the two ends an exact multiple of 2^64 (k >= 64 two-fold / k >= 32 four-fold gadgets) or keep it just
    below (k = 63, 31)."""
    out = []
    for k in (31, 32, 33, 63, 64, 65):
        e, n = gadget_chain(k, 2)
        out.append(("spiro-chain(%d four-rings)" % k, e, n))
    for k in (16, 31, 32, 33):
        e, n = gadget_chain(k, 4)
        out.append(("factor4-gadget-chain(%d)" % k, e, n))
    e, n = mixed_gadget_chain([(32, 2), (16, 4)])
    out.append(("mixed-gadget-chain(32x2,16x4)", e, n))
    # chain of 24 five-cliques, consecutive cliques joined by one bond
    e, k = [], 24
    for c in range(k):
        b = 5 * c
        e += [(b + i, b + j) for i in range(5) for j in range(i + 1, 5)]
        if c + 1 < k:
            e.append((b + 4, b + 5))
    out.append(("clique-chain(24xK5)", e, 5 * k))
    # polyacene: 35 linearly fused six-rings = ladder with a rung at every second position
    m = 70
    e = [(i, i + 1) for i in range(m)] + [(m + 1 + i, m + 2 + i) for i in range(m)] + [(i, m + 1 + i) for i in range(0, m + 1, 2)]
    out.append(("polyacene(35 rings)", e, 2 * (m + 1)))
    # long cycle and long path
    out.append(("cycle(C140)", [(i, (i + 1) % 140) for i in range(140)], 140))
    out.append(("path(P100)+triangles", [(i, i + 1) for i in range(99)] + [(i, i + 2) for i in range(0, 98, 3)], 100))
    return out


def far(g, sources):
    """largest finite distance from the source set"""
    return max(nx.multi_source_dijkstra_path_length(g, set(sources), weight=None).values())


def radii_around(rng, d, lo=0):
    """radii at, just below, just above and well beyond the largest distance d"""
    c = {d - 1, d, d + 1, d + rng.randint(2, 12), d + d // 2, rng.randint(min(31, d), max(31, d)), 31, 63, 64, 65}
    return sorted(r for r in c if lo <= r <= d + d // 2 + 2)


def big_shape_cases(rng, idx, n_unreach, n_prune):
    """in-domain cases on ONE large shape: get_unreachable_nodes, prune_its_to_rc and ITS.prune at radii around and
    beyond the largest distance from the start set (31 <= r: the range where int64 walk counts exceed 2^63)"""
    from fgutils.its import ITS
    name, edges, n = big_shapes()[idx]
    scheme = rng.choice(IDSCHEMES)
    ids = ids_for(rng, n, scheme)
    order = list(ids)
    es = [(ids[a], ids[b]) for a, b in edges]
    if rng.random() < 0.5:
        rng.shuffle(order)
        rng.shuffle(es)
    cases = []
    base = ("big:" + name, "ids=" + scheme, "r>=31(int64-wrap-range)")
    # ---- get_unreachable_nodes
    g = nx.Graph()
    for i in order:
        g.add_node(i, symbol="C")
    for a, b in es:
        g.add_edge(a, b, bond=1)
    starts_all = [("starts=single-end", [ids[0]]), ("starts=single-other-end", [ids[n - 1]]),
                  ("starts=single-middle", [ids[n // 2]]),
                  ("starts=multiple", [ids[0], ids[n // 3], ids[0]]), ("starts=multiple-reversed", [ids[n // 3], ids[0]]),
                  ("starts=single-random", [rng.choice(ids)])]
    picks = []
    for t, st in starts_all:
        d = far(g, st)
        picks += [(t, st, r, d) for r in radii_around(rng, d, 31)]
    rng.shuffle(picks)
    # half of the budget for "an end atom as start, radius >= its largest distance": that is where the gadget families bite
    head = [p for p in picks if p[0] in ("starts=single-end", "starts=single-other-end") and p[2] >= p[3]]
    rest = [p for p in picks if p not in head]
    chosen = head[:max(1, n_unreach // 2)]
    chosen += rest[:max(0, n_unreach - len(chosen))]
    for t, st, r, d in chosen:
        cases.append(unreachable_case(g, st, r, ("unreachable",) + base + (t,), {"big": name, "farthest": d}))
    # ---- prune_its_to_rc / ITS.prune: one changed bond, at the end (a pendant atom whose bond to the end atom breaks, or
    # the first bond of the shape) or in the middle
    for _ in range(n_prune):
        its = nx.Graph()
        for i in order:
            its.add_node(i, symbol="C")
        for a, b in es:
            its.add_edge(a, b, bond=(1, 1))
        place = rng.choice(["pendant@end", "pendant@end", "pendant@other-end", "bond@end", "bond@middle"])
        if place.startswith("pendant"):
            p = max(ids) + rng.randint(1, 3)
            its.add_node(p, symbol="O")
            its.add_edge(p, ids[0] if place == "pendant@end" else ids[n - 1], bond=rng.choice([(1, 0), (0, 1), (1, 2)]))
            rcn = [p, ids[0] if place == "pendant@end" else ids[n - 1]]
        else:
            a, b = es[0] if place == "bond@end" else es[len(es) // 2]
            if place == "bond@end":
                a, b = [(x, y) for x, y in es if ids[0] in (x, y)][0]
            its.edges[a, b]["bond"] = (1, 2)
            rcn = [a, b]
        d = far(its, rcn)
        cand = radii_around(rng, d, 31)
        r = rng.choice(([x for x in cand if x >= d - 1] if rng.random() < 0.7 else cand) or [d])
        ins = rng.random() < 0.5
        via = rng.choice(["prune_its_to_rc", "ITS.prune"])
        if via == "ITS.prune":
            ITS(its)                    # the constructor completes the atom map in place
        cases.append(prune_case(its, r, ins, via, ("prune",) + base + ("rc=" + place,), {"big": name, "farthest": d}))
    return cases


def dense_high_radius_cases():
    """complete graphs (+ one isolated, truly unreachable atom) at radii 25-100: int64 walk counts would exceed 2^63 many
    times over; small enough for the matrix model (unbounded naturals), so model, specification and implementation are
    all compared"""
    cases = []
    for n, r in ((8, 30), (10, 40), (12, 64), (6, 100), (9, 25), (7, 63), (7, 64)):
        g = nx.complete_graph(n)
        for a, b in g.edges:
            g.edges[a, b]["bond"] = 1
        for v in g.nodes:
            g.nodes[v]["symbol"] = "C"
        g.add_node(n, symbol="C")          # one isolated, truly unreachable node
        cases.append(unreachable_case(g, [0], r, ("unreachable", "dense-high-radius(K%d,r=%d)" % (n, r)), {"dense": "K%d r=%d" % (n, r)}))
        its = nx.Graph()
        for v in g.nodes:
            its.add_node(v, symbol="C")
        for a, b in g.edges:
            its.add_edge(a, b, bond=(1, 1))
        its.edges[0, 1]["bond"] = (1, 2)
        cases.append(prune_case(its, r, True, "prune_its_to_rc", ("prune", "dense-high-radius(K%d,r=%d)" % (n, r)), {"dense": "K%d r=%d" % (n, r)}))
    # small doubling gadgets at which the matrix model is still affordable: model = implementation = specification
    for k, w in ((6, 2), (8, 2), (10, 2), (5, 4), (6, 4)):
        e, n = gadget_chain(k, w)
        g = nx.Graph()
        for v in range(n):
            g.add_node(v, symbol="C")
        for a, b in e:
            g.add_edge(a, b, bond=1)
        for r in (2 * k - 1, 2 * k, 2 * k + 1, 3 * k):
            cases.append(unreachable_case(g, [0], r, ("unreachable", "small-gadget-chain(k=%d,w=%d)" % (k, w)), {"gadget": [k, w]}))
    return cases


def rc_case(g, tags, meta=None):
    req = [Atom("C11"), Atom("rc"), enc_graph(g)]                # the graph as it is at call time
    out = call_impl(impl_rc, g)
    key = hkey("rc", req) if not isinstance(out, ImplError) and out[1] else None
    m = {"op": "rc"}
    m.update(meta or {})
    return Case(req, out, meta=m, nontrivial_key=key, tags=tags)


def prune_case(g, r, ins, via, tags, meta=None, its=None, spec_only=None):
    """one call of prune_its_to_rc(g) / ITS(g.copy()).prune / its.prune (its: a long-lived ITS object whose graph is g).
    In the domain for every radius (non-empty graph).  Judged by model + specification (op `prune`; correspondence modulo
    the choice of fresh ids is decided by the driver) when the matrix model is affordable, by the declarative
    specification alone (op `prune_spec`) otherwise."""
    n = g.number_of_nodes()
    if spec_only is None:
        spec_only = not model_feasible(n, r)
    op = "prune_spec" if spec_only else "prune"
    req = [Atom("C11"), Atom(op), enc_graph(g), int(r), bool(ins)]     # the graph as it is at call time
    old = set(g.nodes)
    out = call_impl(impl_prune, g, r, ins, via, its)
    key = None
    if not isinstance(out, ImplError):
        kept = [x for x in out[0] if x[0] in old]
        if 0 < len(kept) < n:
            key = hkey("P" if spec_only else "p", req)
    m = {"op": op, "r": r, "insert_hydrogens": ins, "via": via}
    m.update(meta or {})
    return Case(req, out, in_domain=n > 0, meta=m, nontrivial_key=key, compare_model=False,
                tags=tuple(tags) + ("via=" + via, "insertH=%d" % ins, "judged=spec-only" if spec_only else "judged=model+spec"))


REACTIONS = [
    "[CH3:1][CH2:2][Cl:3].[OH2:4]>>[CH3:1][CH2:2][OH:4].[ClH:3]",
    "[CH2:1]=[CH:2][CH:3]=[CH2:4].[CH2:5]=[CH2:6]>>[CH2:1]1[CH:2]=[CH:3][CH2:4][CH2:5][CH2:6]1",
    "[CH3:1][C:2](=[O:3])[OH:4].[CH3:5][CH2:6][OH:7]>>[CH3:1][C:2](=[O:3])[O:7][CH2:6][CH3:5].[OH2:4]",
    "[CH3:9][CH2:7][CH2:5][C:3]#[N:1]>>[CH3:9][CH2:7][CH2:5][CH:3]=[NH:1]",
    "[CH3:1][CH2:2][CH2:3][CH2:4][CH2:5][Br:6].[NH3:7]>>[CH3:1][CH2:2][CH2:3][CH2:4][CH2:5][NH2:7].[BrH:6]",
]


def load_corpus():
    p = os.path.join(common.CORPUS_DIR, "C11", "witnesses.json")
    if not os.path.exists(p):
        return []
    return json.load(open(p))["cases"]


def graph_from_lists(nodes, edges):
    g = nx.Graph()
    for n, sym in nodes:
        g.add_node(n, symbol=sym)
    for e in edges:
        if len(e) == 4:
            g.add_edge(e[0], e[1], bond=(e[2], e[3]))
        else:
            g.add_edge(e[0], e[1], bond=e[2])
    return g


def corpus_cases(only=None):
    """only = None: every entry; "light": all but the large gadget entries; an int: that entry alone.
    fixed regression inputs: the three witnesses of defect F8 (DESIGN §7), mutant m19, the witnesses of the int64
    wrap-around repaired by 5e2d069 (doubling-gadget chains, get_unreachable_nodes / prune_its_to_rc / ITS.prune) and
    same-object histories (stale caches)"""
    from fgutils.parse import parse
    from fgutils.its import ITS
    cases = []
    for idx, c in enumerate(load_corpus()):
        if only == "light" and c["op"].startswith("gadget_"):
            continue
        if isinstance(only, int) and idx != only:
            continue
        tg = {"corpus": c["name"]}
        if c["op"] == "unreachable":
            g = parse(c["pattern"], idx_offset=c.get("idx_offset", 0))
            cases.append(unreachable_case(g, c["starts"], c["r"], ("corpus", "unreachable"), tg))
        elif c["op"] == "prune_smiles":
            for ins in (True, False):
                its = ITS.from_smiles(c["smiles"])
                cases.append(prune_case(its.graph, c["r"], ins, "ITS.prune", ("corpus", "prune"), tg))
        elif c["op"] == "unreachable_graph":
            g = graph_from_lists(c["nodes"], c["edges"])
            cases.append(unreachable_case(g, c["starts"], c["r"], ("corpus", "unreachable"), tg))
        elif c["op"] in ("prune", "rc"):
            g = graph_from_lists(c["nodes"], c["edges"])
            if c["op"] == "rc":
                cases.append(rc_case(g, ("corpus", "rc"), tg))
            else:
                cases.append(prune_case(g, c["r"], c["ins"], "prune_its_to_rc", ("corpus", "prune"), tg))
        elif c["op"] in ("gadget_unreachable", "gadget_prune"):
            # a doubling-gadget chain, written as its parameters (k gadgets of w parallel two-bond paths); ids offset
            e, n = gadget_chain(c["k"], c["w"])
            off = c.get("offset", 0)
            if c["op"] == "gadget_unreachable":
                g = graph_from_lists([[v + off, "C"] for v in range(n)], [[a + off, b + off, 1] for a, b in e])
                for r in c["radii"]:
                    cases.append(unreachable_case(g, [s + off for s in c["starts"]], r, ("corpus", "unreachable", "corpus:int64-wrap-witness"), tg))
            else:
                for r, ins, via in c["calls"]:
                    g = graph_from_lists([[v + off, "C"] for v in range(n)], [[a + off, b + off, 1, 1] for a, b in e])
                    if c["rc"] == "pendant":
                        g.add_node(n + off, symbol="O")
                        g.add_edge(n + off, off, bond=(1, 0))
                    else:
                        g.edges[off, off + 1]["bond"] = (1, 2)
                    if via == "ITS.prune":
                        ITS(g)
                    cases.append(prune_case(g, r, ins, via, ("corpus", "prune", "corpus:int64-wrap-witness"), tg))
        elif c["op"] == "history":
            cases += run_history(graph_from_lists(c["nodes"], c["edges"]), c["steps"], ("corpus", "history"), tg)
    return cases


# ---------------------------------------------------------------------------
# same-object histories: ONE graph / ONE ITS object, calls and in-place edits interleaved
# ---------------------------------------------------------------------------
def apply_edit(g, e):
    """in-place edit of a networkx graph; e is a plain list (recorded in the replay)"""
    k = e[0]
    if k == "relabel":
        g.edges[e[1], e[2]]["bond"] = (e[3], e[4])
    elif k == "add_edge":
        g.add_edge(e[1], e[2], bond=(e[3], e[4]))
    elif k == "remove_edge":
        g.remove_edge(e[1], e[2])
    elif k == "add_node":
        g.add_node(e[1], symbol=e[2])
        if len(e) > 3:
            g.add_edge(e[1], e[3], bond=(e[4], e[5]))
    elif k == "remove_node":
        g.remove_node(e[1])
    else:
        raise ValueError("unknown edit %r" % (e,))


def random_label(rng, changed):
    if changed:
        x, y = rng.sample(ORDERS, 2)
        return x, y
    x = rng.choice(ORDERS[1:])
    return x, x


def random_edit(rng, g):
    """a random applicable in-place edit (or None)"""
    nodes = list(g.nodes)
    edges = list(g.edges)
    for _ in range(8):
        k = rng.choice(["relabel", "relabel", "relabel", "add_edge", "remove_edge", "add_node", "remove_node"])
        if k == "relabel" and edges:
            a, b = rng.choice(edges)
            old = g.edges[a, b].get("bond")
            was = isinstance(old, tuple) and old[0] != old[1]
            x, y = random_label(rng, (not was) if rng.random() < 0.8 else was)
            if (x, y) != old:
                return ["relabel", a, b, x, y]
        elif k == "add_edge" and len(nodes) >= 2:
            a, b = rng.sample(nodes, 2)
            if not g.has_edge(a, b):
                return ["add_edge", a, b, *random_label(rng, rng.random() < 0.5)]
        elif k == "remove_edge" and edges:
            a, b = rng.choice(edges)
            return ["remove_edge", a, b]
        elif k == "add_node" and nodes:
            new = rng.choice([max(nodes) + 1, max(nodes) + 3, min(nodes) - 1])
            return ["add_node", new, rng.choice(SYMS), rng.choice(nodes), *random_label(rng, rng.random() < 0.4)]
        elif k == "remove_node" and len(nodes) >= 3:
            return ["remove_node", rng.choice(nodes)]
    return None


class History:
    """ONE object: its = ITS(g) (the constructor completes the atom map of g in place; its.graph is g until ITS.prune
    replaces it).  Steps, recorded as plain lists (replayable):
        ["edit", <edit>]                 in-place edit of its.graph
        ["rc"] | ["unreachable", starts, r] | ["prune", r, insertH] (= prune_its_to_rc(its.graph, ...)) | ["ITS.prune", r, insertH]
    Every call gives one Case whose request is the graph AS IT IS AT THE TIME OF THE CALL."""

    def __init__(self, g, tags, meta=None):
        from fgutils.its import ITS
        self.its = ITS(g)
        self.init = sx(enc_graph(g))
        self.steps = []
        self.calls = 0
        self.tags = tuple(tags)
        self.meta = meta or {}

    def edit(self, e):
        apply_edit(self.its.graph, e)
        self.steps.append(["edit", list(e)])

    def call(self, st, judge=True):
        cur = self.its.graph
        self.steps.append(list(st))
        m = {"history": {"init": self.init, "steps": [list(x) for x in self.steps]}, "history_call_no": self.calls}
        m.update(self.meta)
        tg = self.tags + ("history:call#%s" % (self.calls if self.calls < 3 else "3+"), "history:op=" + st[0])
        self.calls += 1
        if not judge:
            # replay: earlier calls are only executed (their answers were judged when they were recorded)
            if st[0] == "rc":
                call_impl(impl_rc, cur)
            elif st[0] == "unreachable":
                call_impl(impl_unreachable, cur, st[1], st[2])
            elif st[0] == "prune":
                call_impl(impl_prune, cur, st[1], st[2], "prune_its_to_rc")
            else:
                call_impl(impl_prune, cur, st[1], st[2], "ITS.prune", self.its)
            return None
        if st[0] == "rc":
            return rc_case(cur, ("rc",) + tg, m)
        if st[0] == "unreachable":
            return unreachable_case(cur, st[1], st[2], ("unreachable",) + tg, m)
        if st[0] == "prune":
            return prune_case(cur, st[1], st[2], "prune_its_to_rc", ("prune",) + tg, m)
        if st[0] == "ITS.prune":
            return prune_case(cur, st[1], st[2], "ITS.prune", ("prune",) + tg, m, its=self.its)
        raise ValueError("unknown step %r" % (st,))


def run_history(g, steps, tags, meta=None, judge_last_only=False):
    """execute a recorded history on one object -> the Cases of its calls (only the last call when judge_last_only)"""
    h = History(g, tags, meta)
    cases = []
    for k, st in enumerate(steps):
        if st[0] == "edit":
            h.edit(st[1])
        else:
            c = h.call(st, judge=not judge_last_only or k == len(steps) - 1)
            if c is not None:
                cases.append(c)
    return cases


def changed_bond_atoms(g):
    out = set()
    for a, b, d in g.edges(data=True):
        lab = d.get("bond")
        if isinstance(lab, tuple) and len(lab) == 2 and lab[0] != lab[1]:
            out |= {a, b}
    return sorted(out)


def history_cases(rng, budget):
    """random same-object histories: 2-5 calls on one object, 0-2 in-place edits between consecutive calls (drawn from the
    object as it is then); the operation is repeated after the edit more often than not (a memo keyed by object identity
    would answer the second call from the first)"""
    cases = []
    ops = ["rc", "unreachable", "prune", "ITS.prune"]
    while len(cases) < budget:
        n = rng.randint(3, 12)
        kind = rng.choice(KINDS)
        scheme = rng.choice(IDSCHEMES)
        g = build(rng, n, kind, scheme, rng.choice([0.1, 0.25, 0.5]))
        h = History(g, ("history", "shape=" + kind, "ids=" + scheme))
        last = None
        for k in range(rng.randint(2, 5)):
            cur = h.its.graph
            nodes = list(cur.nodes)
            if not nodes:
                break
            op = last if (last is not None and rng.random() < 0.6) else rng.choice(ops)
            last = op
            r = rng.choice([0, 0, 1, 1, 2, rng.randint(0, ecc_bound(cur) + 1)])
            if op == "rc":
                st = ["rc"]
            elif op == "unreachable":
                starts = [rng.choice(nodes) for _ in range(rng.randint(1, 3))]
                if rng.random() < 0.4:
                    starts = changed_bond_atoms(cur) or starts
                st = ["unreachable", [int(x) for x in starts], r]
            else:
                st = [op, r, rng.random() < 0.5]
            cases.append(h.call(st))
            n_edits = rng.choice([0, 1, 1, 1, 2])
            for _ in range(n_edits):
                e = random_edit(rng, h.its.graph)
                if e is not None:
                    h.edit(e)
            cases[-1].tags += ("history:edits-before-next-call=%d" % n_edits,)
    return cases


def gen_cases(rng, budget, big):
    """one graph -> several cases; returns a list of Case.  big: False (1-9 nodes), True (8-26), 2 (27-42)"""
    from fgutils.its import ITS
    cases = []
    while len(cases) < budget:
        kind = rng.choice(KINDS)
        scheme = rng.choice(IDSCHEMES)
        n = rng.randint(1, 9) if not big else (rng.randint(8, 26) if big is True else rng.randint(27, 42))
        if rng.random() < 0.03:
            n = 0
        mode = rng.random()
        if mode < 0.45:
            # plain graph (optionally a multigraph): get_unreachable_nodes
            multi = rng.random() < 0.2
            g = build(rng, n, kind, scheme, None, multi=multi)
            diam = ecc_bound(g)
            radii = list(range(0, diam + 2))
            if len(radii) > 5:
                radii = sorted(rng.sample(radii, 5) + [0, 1])
            if rng.random() < 0.3:
                radii.append(diam + rng.randint(2, 80))      # far beyond the diameter (unclamped walk counts would exceed 2^63)
            base = ("unreachable", "shape=" + kind, "ids=" + scheme, "multigraph" if multi else "simple",
                    "n=%s" % ("0" if n == 0 else "1-9" if n < 10 else "10-26" if n < 27 else "27+"))
            for tag, starts in start_sets(rng, g):
                for r in (radii if tag != "starts=empty" else radii[:2]):
                    cases.append(unreachable_case(g, starts, r, base + (tag, "r=%s" % (r if r < 3 else "3+" if r <= diam + 1 else "beyond-diameter"),)))
            if n and rng.random() < 0.05:
                bad = max(g.nodes) + rng.randint(1, 3)
                cases.append(unreachable_case(g, [bad], 1, base + ("starts=not-a-node",)))
        else:
            # ITS-labelled simple graph: get_rc, prune_its_to_rc, ITS.prune
            g = build(rng, n, kind, scheme, rng.choice([0.0, 0.1, 0.25, 0.5]))
            base = ("shape=" + kind, "ids=" + scheme, "n=%s" % ("0" if n == 0 else "1-9" if n < 10 else "10-26" if n < 27 else "27+"))
            cases.append(rc_case(g, ("rc",) + base))
            diam = ecc_bound(g)
            radii = list(range(0, diam + 2))
            if len(radii) > 4:
                radii = sorted(set(rng.sample(radii, 3) + [0, 1]))
            if rng.random() < 0.3:
                radii.append(diam + rng.randint(2, 80))
            for r in radii:
                for ins in (True, False):
                    if rng.random() < 0.35:
                        g2 = g.copy()
                        ITS(g2)                     # constructor completes the atom map in place
                        cases.append(prune_case(g2, r, ins, "ITS.prune", ("prune",) + base + ("r=%s" % (r if r < 3 else "3+" if r <= diam + 1 else "beyond-diameter"),)))
                    else:
                        cases.append(prune_case(g, r, ins, "prune_its_to_rc", ("prune",) + base + ("r=%s" % (r if r < 3 else "3+" if r <= diam + 1 else "beyond-diameter"),)))
            # the rc nodes as an explicit start set through get_unreachable_nodes as well
            if n:
                from fgutils.its import get_rc
                rcn = call_impl(lambda: list(get_rc(g).nodes))
                if not isinstance(rcn, ImplError):
                    r = rng.choice(radii)
                    cases.append(unreachable_case(g, rcn, r, ("unreachable", "starts=rc", "shape=" + kind, "ids=" + scheme)))
    return cases


def smiles_cases(rng):
    from fgutils.its import ITS
    cases = []
    for smi in REACTIONS:
        its0 = ITS.from_smiles(smi)
        cases.append(rc_case(its0.graph, ("rc", "from_smiles"), {"smiles": smi}))
        for r in range(0, ecc_bound(its0.graph) + 2):
            for ins in (True, False):
                its = ITS.from_smiles(smi)
                cases.append(prune_case(its.graph, r, ins, "ITS.prune", ("prune", "from_smiles", "ids=from1"), {"smiles": smi}))
                cases.append(prune_case(its.graph, r, ins, "prune_its_to_rc", ("prune", "from_smiles", "ids=from1"), {"smiles": smi}))
    return cases


def _task_rng(seed, k):
    return random.Random(seed * 1000003 + 7919 * (k + 1))


def _task(args):
    """one unit of work = own generator (seeded by (VERIF_SEED, task number)) + own driver process; run in a worker process,
    results are consumed in task order, so a run is determined by its seed whatever the scheduling"""
    seed, k, what = args
    rng = _task_rng(seed, k)
    kind = what[0]
    if kind == "fixed":
        cases = corpus_cases("light") + smiles_cases(rng) + dense_high_radius_cases()
    elif kind == "corpus":
        cases = corpus_cases(what[1])
    elif kind == "big":
        cases = big_shape_cases(rng, what[1], what[2], what[3])
    elif kind == "history":
        cases = history_cases(rng, what[1])
    else:
        _, n_small, n_big, n_huge = what
        cases = gen_cases(rng, n_small, False) + gen_cases(rng, n_big, True) + (gen_cases(rng, n_huge, 2) if n_huge else [])
    d = common.Driver()
    replies = d.batch([c.line() for c in cases])
    d.close()
    return cases, replies


def task_list(tier, seed):
    quick = tier == "quick"
    tasks = [("fixed",)]
    tasks += [("corpus", i) for i, c in enumerate(load_corpus()) if c["op"].startswith("gadget_")]     # the large witnesses: one task each
    tasks += [("big", i, 4 if quick else 14, 2 if quick else 8) for i in range(len(big_shapes()))]
    tasks += [("history", 700 if quick else 4000) for _ in range(2 if quick else 16)]
    if quick:
        tasks += [("gen", 1500, 320, 0) for _ in range(8)]
    else:
        tasks += [("gen", 12000, 2500, 250) for _ in range(64)]
    return [(seed, k, t) for k, t in enumerate(tasks)]


class _Precomputed:
    """stands in for the driver when a shard's replies were computed in a worker process"""

    def __init__(self, replies):
        self.replies = replies
        self.count = 0

    def batch(self, lines):
        assert len(lines) == len(self.replies)
        self.count += len(lines)
        return self.replies

    def close(self):
        pass


def post_check(r, outs, counters):
    """prune: the driver decides the correspondence modulo the choice of fresh ids (extra[1]);
    every in-domain input must satisfy the hypotheses of the theorems (extra[0])"""
    for o in outs:
        if not o.ok_reply or not o.case.in_domain:
            continue
        if o.extra and o.extra[0] != "1":
            counters["bad_wf"] += 1
        if o.case.meta.get("op") == "prune" and not o.spec_fail and len(o.extra) > 1 and o.extra[1] == "0":
            r.corr_failures.append(o)


def run(tier, seed):
    r = Run("C11", tier, seed)
    if not prepare(r, PROOFS, "C11"):
        return 2
    counters = {"bad_wf": 0}
    ctx = multiprocessing.get_context("fork")
    with ctx.Pool(min(16, os.cpu_count() or 1)) as pool:
        for cs, replies in pool.imap(_task, task_list(tier, seed)):       # ordered: results do not depend on scheduling
            r.driver = _Precomputed(replies)
            post_check(r, r.evaluate(cs), counters)
    r.driver = None
    bad_wf = counters["bad_wf"]
    r.extra_cov["call_forms (documented defaults omitted / positional / keyword; counted in this process)"] = dict(sorted(CALL_FORMS.items()))
    r.extra_cov["inputs_violating_theorem_hypotheses"] = bad_wf
    r.extra_cov["judged_by_specification_only"] = r.dist.get("tag:judged=spec-only", 0)
    r.extra_cov["same_object_history_calls"] = sum(v for k, v in r.dist.items() if k.startswith("tag:history:op="))
    r.extra_cov["model_cost_limit"] = "n^3*r <= %d: matrix model evaluated and compared; above: specification only" % MODEL_COST_MAX
    machinery = []
    if bad_wf:
        # a defect of the harness (its generator left the theorems' domain): never a VIOLATION, never a pass -> exit 2
        machinery.append("ERROR property=C11 %d generated inputs are not well-formed graphs (harness defect)" % bad_wf)
    r.assumptions = [
        "networkx graphs are modelled by Model/Graph.lean (insertion-ordered nodes and adjacency); nx.adjacency_matrix entry = number of parallel edges (no 'weight' attributes), checked against the code by this harness",
        "walk counts: the implementation clamps every matrix power to 0/1 (repair 5e2d069: `(D @ A > 0).astype(...)`), so its int64 numbers stay <= radius+1 per "
        "entry (Reach.cpowsum_le) and cannot wrap; the property theorems are stated for the model that counts walks in unbounded Nat (C11.getUnreachable, C11.pruneItsToRc); "
        "the driver evaluates the literal transcription of the clamping loop (C11.getUnreachableClamped, C11.pruneItsToRcClamped), proved equal to the counting model for every "
        "graph, start list and radius (C11.getUnreachableClamped_eq, C11.pruneItsToRcClamped_eq); the specification is a breadth-first search. No radius and no graph size is "
        "excluded from the domain: every generated get_unreachable_nodes / prune_its_to_rc / ITS.prune call on a non-empty graph whose start nodes are nodes decides the verdict, "
        "including the range where unclamped int64 counts exceed 2^63 (dense graphs at radii 25-100, big:* shapes, doubling-gadget chains with 2^64 shortest walks)",
        "LARGE inputs (n^3*r > %d; tags judged=spec-only: big:* shapes of 100-196 atoms - spiro chains of 31-65 four-rings, factor-4 gadget chains, a mixed gadget chain, "
        "a chain of 24 five-cliques, a 35-ring polyacene, the cycle C140, a 100-atom path with triangles - and the corpus witnesses of 5e2d069; any id scheme; radii "
        "31..1.5*(largest distance)+2): the Lean matrix model is too slow there (0.4 us * n^3 * r with unbounded naturals), so the implementation's output is judged by the "
        "proved-sound specifications alone - C11.specUnreachable (BFS; driver op unreachable_spec) and C11.specPrune (declarative pruned graph; driver op prune_spec); "
        "there is no model/implementation comparison for these cases" % MODEL_COST_MAX,
        "empty graphs (networkx refuses to build the matrix) and start nodes that are not nodes (KeyError) are outside the domain",
        "prune: which fresh id is given to which cut bond is not fixed by the property; model and implementation are compared modulo a renaming of the fresh ids",
        "same-object histories: the request of every call is the wire form of the object at the time of the call; the model has no state, so an answer that depends on "
        "an earlier call or an earlier state of the object fails the specification for the current state",
    ]
    rc = r.finish(
        level="proof",
        rule="corpus (F8 witnesses, m19 witness, witnesses of the int64 wrap-around 5e2d069 for get_unreachable_nodes / prune_its_to_rc / ITS.prune, same-object histories) + "
             "ITS.from_smiles reactions + random graphs: 12 shapes (paths, trees, rings, rings with tails, stars, sparse, disconnected, dense, edgeless) x "
             "5 id schemes (0..n-1, from 1, offset, sparse, negative; insertion order shuffled half of the time) x simple/multigraph (parallel edges, self-loops) x start sets "
             "(empty, single, multiple with duplicates in random order, two or three path-connected start nodes in both orders, isolated, lone, reaction centre) x r = 0..diameter+1 and (30% of the graphs) one radius 2-80 beyond the diameter; dense graphs at radii 25-100 and small doubling-gadget chains "
             "(model + specification); large thin graphs (100-196 atoms: spiro chains of k four-rings and factor-4 gadget chains at radii 2k-1, 2k, 2k+1 and beyond, mixed gadget chain, "
             "clique chain, polyacene, long cycle, path with triangles) x start at either end / middle / several x radii 31..1.5*farthest+2, for get_unreachable_nodes AND "
             "prune_its_to_rc / ITS.prune (changed bond at an end, on a pendant atom, in the middle), judged by the specification only; ITS-labelled graphs for get_rc / prune_its_to_rc / "
             "ITS.prune x insert_hydrogens; same-object histories: one graph / one ITS object, 2-5 calls (get_rc, get_unreachable_nodes, prune_its_to_rc, ITS.prune; ITS.prune "
             "repeatedly on one object) with 0-2 in-place edits (bond relabelled, edge added/removed, atom added/removed) between calls, every answer judged for the object as it is then; "
             "non-trivial = answer neither empty nor everything, distinct by request",
        checker_cmd="cd lean && lake build FGVerif.Proofs.C11 && lake env lean FGVerif/Audit/C11.lean",
        explanation="theorems in lean/FGVerif/Proofs/C11*.lean about Model/C11.lean (walk counting = BFS distance for every graph, start set and radius); model tied to fgutils by differential "
                    "testing; executable specs (BFS `withinList`, declarative pruned-graph description) applied to every implementation output; inputs too large for the matrix model "
                    "are judged by these specifications alone (counted in judged_by_specification_only)")
    # exit 1 iff a VIOLATION line was printed; machinery problems are exit 2 (exit 1 if both happened)
    for ln in machinery:
        print(ln)
    if machinery and rc == 0:
        rc = 2
    return rc


# ---------------------------------------------------------------------------
# replay
# ---------------------------------------------------------------------------
def dec_graph(w):
    multi = w[0] == "1"
    g = nx.MultiGraph() if multi else nx.Graph()

    def s(x):
        if x == "_":
            return None
        return x[2:] if x.startswith("s:") else bytes.fromhex(x[2:]).decode()

    for n in w[1]:
        d = {}
        if n[1] != "_":
            d["symbol"] = s(n[1])
        if n[2] != "_":
            d["labels"] = [s(x) for x in n[2]]
        if n[3] != "_":
            d["is_labeled"] = n[3] == "1"
        if n[4] != "_":
            d["aam"] = int(n[4])
        g.add_node(int(n[0]), **d)
    for row in w[2]:
        u = int(row[0])
        for nb in row[1]:
            v = int(nb[0])
            for kd in nb[1]:
                lab = common.dec_label(kd[1])
                if isinstance(lab, tuple):
                    lab = tuple(int(x) if x == int(x) else x for x in lab)
                elif lab is not None and lab == int(lab):
                    lab = int(lab)
                if multi:
                    if not g.has_edge(u, v, key=int(kd[0])):
                        g.add_edge(u, v, key=int(kd[0]), bond=lab)
                elif not g.has_edge(u, v):
                    g.add_edge(u, v, bond=lab)
    return g


def replay(path):
    rp = json.load(open(path))
    line = rp.get("request_line")
    if not line:
        print("replay %s names a proof obligation / correspondence only: %s" % (path, rp.get("theorem_or_correspondence")))
        return 1
    w = parse_sx(line)
    op = w[1]
    meta = rp.get("meta", {}) or {}
    hist = meta.get("history")
    if hist:
        # a same-object history: rebuild the object, run the recorded calls and edits in order, judge the last call
        g0 = dec_graph(parse_sx(hist["init"]))
        print("same-object history (%d steps): %s" % (len(hist["steps"]), json.dumps(hist["steps"])))
        c = run_history(g0, hist["steps"], ("replay",), judge_last_only=True)[-1]
    else:
        g = dec_graph(w[2])
        if op in ("unreachable", "unreachable_spec"):
            c = unreachable_case(g, [int(x) for x in w[3]], int(w[4]), ("replay",), spec_only=op == "unreachable_spec")
        elif op == "rc":
            c = rc_case(g, ("replay",))
        else:
            c = prune_case(g, int(w[3]), w[4] == "1", meta.get("via", "prune_its_to_rc"), ("replay",), spec_only=op == "prune_spec")
    d = common.Driver()
    rep = d.ask(c.line())
    d.close()
    o = common.Outcome(c, rep)
    print("request :", c.line()[:3000])
    print("impl    :", common.sx_of(o.impl_c)[:3000])
    print("model   :", common.sx_of(o.model)[:3000])
    print("spec_impl=%s spec_model=%s extra=%s" % (o.spec_impl, o.spec_model, common.sx_of(o.extra)))
    if o.spec_fail:
        print("VIOLATION property=C11 replay=%s" % path)
        return 1
    print("property holds on this input now")
    return 0
