"""C10 — ITS round trips: split_its, get_its∘split_its, split_its∘get_its, to_smiles/from_smiles.

Correspondence of `C10.splitIts`, `C10.resuper`, `C10.splitOfIts` with the implementation and the
executable specifications `splitCheck`, `sameIts · (nameByAam I)`, `splitOfItsCheck` applied to
every implementation output.  The SMILES leg really goes through RDKit.  RDKit-representable =
RDKit's writer followed by its reader WITH NOTHING REWRITTEN (no sanitisation, hydrogen atoms kept)
is a map-preserving isomorphism on each side (checked per case with RDKit alone; a case on which that
fails is outside the domain, counted).  Which reader settings the library uses is library code: an
ITS that RDKit's default settings would rewrite is IN the domain: Kekule-written rings and nitro / diazo
without charges fail (known finding K9, granted only inside `smiles_leg_scope`); explicit hydrogen nodes
as prune(insert_hydrogens=True) makes them must survive (they were lost until b76371e, F17: a reader that
drops them again is a violation).  Anything outside the scope of K9 is a violation.
Every 5th plain split goes through the deprecated public duplicate `fgutils.utils.split_its`.
"""
import glob
import json
import os

import networkx as nx

from common import Atom, Case, Run, call_impl, prepare, ImplError, dbl, CORPUS_DIR, input_variant, sx
import c09

PROOFS = ["FGVerif.Proofs.C09", "FGVerif.Proofs.C10"]


def enc_lab(b):
    if isinstance(b, (tuple, list)):
        return [dbl(b[0]), dbl(b[1])]
    return dbl(b)


def enc_its(I):
    """ITS graph as the model sees it: nodes in order, edges in I.edges order and orientation"""
    nodes = [[int(n), d.get("symbol"), d.get("aam")] for n, d in I.nodes(data=True)]
    edges = [[int(u), int(v), enc_lab(d["bond"])] for u, v, d in I.edges(data=True)]
    return [nodes, edges]


def canon_gr(g):
    nodes = sorted(([int(n), d.get("symbol"), d.get("aam")] for n, d in g.nodes(data=True)), key=lambda x: x[0])
    edges = []
    for u, v, d in g.edges(data=True):
        edges.append([int(min(u, v)), int(max(u, v)), enc_lab(d["bond"])])
    edges.sort(key=lambda e: (e[0], e[1]) + ((1, e[2][0], e[2][1]) if isinstance(e[2], list) else (0, e[2])))
    return [nodes, edges]


# ---------------------------------------------------------------------------
# oracles for the domains (independent of the Lean predicates)
# ---------------------------------------------------------------------------
def its_ok(I):
    aams = [d["aam"] for _, d in I.nodes(data=True) if "aam" in d]
    if any(a < 1 for a in aams) or len(set(aams)) != len(aams):
        return False
    for _, _, d in I.edges(data=True):
        b = d["bond"]
        if isinstance(b, (tuple, list)):
            if b[0] == 0 and b[1] == 0:
                return False
        elif b == 0:
            return False
    return True


def fully_mapped(G, H):
    if not (c09.mol_in_domain(G) and c09.mol_in_domain(H)):
        return False
    if any("aam" not in d for _, d in G.nodes(data=True)) or any("aam" not in d for _, d in H.nodes(data=True)):
        return False
    sg = {d["aam"]: d["symbol"] for _, d in G.nodes(data=True)}
    sh = {d["aam"]: d["symbol"] for _, d in H.nodes(data=True)}
    return sg == sh


def named_view(g):
    """map-number view of a molecular graph (every node mapped): ({aam: symbol}, {{a, b}: order})"""
    aam = {n: d.get("aam") for n, d in g.nodes(data=True)}
    if any(a is None for a in aam.values()) or len(set(aam.values())) != len(aam):
        return None
    return ({aam[n]: d["symbol"] for n, d in g.nodes(data=True)},
            {frozenset((aam[u], aam[v])): d["bond"] for u, v, d in g.edges(data=True)})


# ---------------------------------------------------------------------------
# ITS graphs
# ---------------------------------------------------------------------------
COMPONENTS = [0, 1, 1, 2, 3, 3, 1.5]


def relabel_shuffled(I, rng):
    ids = list(I.nodes)
    new = rng.sample(range(0, 3 * len(ids) + 4), len(ids))
    J = nx.Graph()
    order = list(I.nodes(data=True))
    rng.shuffle(order)
    m = dict(zip(ids, new))
    for n, d in order:
        J.add_node(m[n], **{k: v for k, v in d.items() if k != "idx_map"})
    es = list(I.edges(data=True))
    rng.shuffle(es)
    for u, v, d in es:
        if rng.random() < 0.5:
            u, v = v, u
        J.add_edge(m[u], m[v], bond=d["bond"])
    return J


def gen_library_its(rng, big=False):
    """an ITS graph as the library makes it: get_its of a random reaction (ids = map numbers,
    reactant atom order), unchanged bonds included"""
    from fgutils.its import get_its
    G, H, tags = c09.gen_reaction(rng, big=big, full=rng.random() < 0.5)
    I = get_its(G, H)
    for n in I.nodes:
        I.nodes[n].pop("idx_map", None)
    return I, ["library_made"] + [t for t in tags if t.startswith("map_") or t == "no_bond_change"]


def gen_metal_reaction(rng):
    """a fully mapped reaction around a metal-metal multiple bond (Re, Mo, W, Cr, Os; orders up to
    quadruple, written `$` in SMILES): the only RDKit-representable way to exercise bond order 4
    on the legs through RDKit.  The metal-metal order changes and one ligand may move."""
    import networkx as nx
    metal = rng.choice(["Re", "Mo", "W", "Cr", "Os"])
    ligs = [rng.choice(["C", "Cl", "O", "N", "Br"]) for _ in range(rng.randint(1, 4))]
    n = 2 + len(ligs)
    aams = rng.sample(range(1, 3 * n + 2), n)
    order = list(range(n))
    rng.shuffle(order)
    syms = [metal, metal] + ligs
    og, oh = rng.sample([4, 4, 3, 2, 1], 2) if rng.random() < 0.8 else (4, 4)
    where = [rng.choice([0, 1]) for _ in ligs]
    where_h = list(where)
    if ligs and rng.random() < 0.5:
        j = rng.randrange(len(ligs))
        where_h[j] = 1 - where_h[j]

    def mk(o, wh):
        g = nx.Graph()
        for i in order:
            g.add_node(i, symbol=syms[i], aam=aams[i])
        es = [(0, 1, o)] + [(2 + j, wh[j], 1) for j in range(len(ligs))]
        rng.shuffle(es)
        for u, v, b in es:
            if rng.random() < 0.5:
                u, v = v, u
            g.add_edge(u, v, bond=b)
        return g
    return mk(og, where), mk(oh, where_h), ["metal_quadruple" if 4 in (og, oh) else "metal_multiple"]


def gen_aromatic_reaction(rng):
    """a fully mapped reaction on an aromatic ring system (benzene, pyridine, furan, thiophene):
    ring bonds are aromatic (1.5) on both sides, a side-chain bond X-Y is replaced by X-Z.  Gives
    the legs through RDKit labels with a 1.5 component."""
    import networkx as nx
    ring = rng.choice([["C"] * 6, ["N"] + ["C"] * 5, ["O"] + ["C"] * 4, ["S"] + ["C"] * 4])
    n = len(ring)
    X, Y, Z = "C", rng.choice(["Cl", "Br", "O", "N"]), rng.choice(["O", "N", "S"])
    syms = ring + [X, Y, Z]
    total = len(syms)
    aams = rng.sample(range(1, 3 * total), total)
    order = list(range(total))
    rng.shuffle(order)
    attach = rng.choice([i for i in range(n) if ring[i] == "C"])
    ring_edges = [(i, (i + 1) % n, 1.5) for i in range(n)]

    def mk(extra):
        g = nx.Graph()
        for i in order:
            g.add_node(i, symbol=syms[i], aam=aams[i])
        es = ring_edges + [(attach, n, 1)] + extra
        rng.shuffle(es)
        for u, v, b in es:
            if rng.random() < 0.5:
                u, v = v, u
            g.add_edge(u, v, bond=b)
        return g
    return mk([(n, n + 1, 1)]), mk([(n, n + 2, 1)]), ["aromatic_ring"]


def gen_kekule_reaction(rng):
    """like gen_aromatic_reaction, but the ring is WRITTEN in Kekule form (alternating 2/1 bonds on both sides), as the FGUtils
    parser, apply_rule or a hand-built graph produce it; optionally the side chain carries a nitro / diazo / sulfone / phosphine
    oxide group written WITHOUT charges.  RDKit's default reader re-perceives the ring as aromatic and rewrites pentavalent N."""
    import networkx as nx
    ring, rb = rng.choice([(["C"] * 6, [2, 1, 2, 1, 2, 1]), (["N"] + ["C"] * 5, [2, 1, 2, 1, 2, 1]), (["O"] + ["C"] * 4, [1, 2, 1, 2, 1]),
                           (["S"] + ["C"] * 4, [1, 2, 1, 2, 1]), (["C"] * 6, [1, 1, 1, 1, 1, 1])])
    n = len(ring)
    X, Y, Z = "C", rng.choice(["Cl", "Br", "O", "N"]), rng.choice(["O", "N", "S"])
    syms = ring + [X, Y, Z]
    extra_edges = []
    tags = ["kekule_ring" if 2 in rb else "saturated_ring"]
    grp = rng.choice([None, "nitro", "diazo", "sulfone", "phosphine_oxide", "nitro"]) if 2 in rb else rng.choice(["nitro", "diazo", "sulfone"])
    if grp:
        b = len(syms)
        if grp == "nitro":          # X-N(=O)=O
            syms += ["N", "O", "O"]
            extra_edges += [(n, b, 1), (b, b + 1, 2), (b, b + 2, 2)]
        elif grp == "diazo":        # X=N#N
            syms += ["N", "N"]
            extra_edges += [(n, b, 2), (b, b + 1, 3)]
        elif grp == "sulfone":      # X-S(=O)(=O)-C
            syms += ["S", "O", "O", "C"]
            extra_edges += [(n, b, 1), (b, b + 1, 2), (b, b + 2, 2), (b, b + 3, 1)]
        else:                       # X-P(=O)(C)C
            syms += ["P", "O", "C", "C"]
            extra_edges += [(n, b, 1), (b, b + 1, 2), (b, b + 2, 1), (b, b + 3, 1)]
        tags.append("hypervalent_group:" + grp)
    total = len(syms)
    aams = rng.sample(range(1, 3 * total), total)
    order = list(range(total))
    rng.shuffle(order)
    attach = rng.choice([i for i in range(n) if ring[i] == "C"])
    ring_edges = [(i, (i + 1) % n, rb[i]) for i in range(n)]

    def mk(extra):
        g = nx.Graph()
        for i in order:
            g.add_node(i, symbol=syms[i], aam=aams[i])
        es = ring_edges + [(attach, n, 1)] + extra_edges + extra
        rng.shuffle(es)
        for u, v, b in es:
            if rng.random() < 0.5:
                u, v = v, u
            g.add_edge(u, v, bond=b)
        return g
    return mk([(n, n + 1, 1)]), mk([(n, n + 2, 1)]), tags


def gen_pruned_its(rng):
    """an ITS as the LIBRARY makes it with explicit hydrogen nodes: ITS(get_its(G, H)).prune(radius, insert_hydrogens=True) of a
    valence-correct reaction (the inserted H nodes get fresh ids and, from the ITS constructor, fresh map numbers)"""
    from fgutils.its import ITS, get_its
    for _ in range(20):
        G, H, tags = c09.gen_valid_reaction(rng, nmax=10, full=True, with_h=rng.random() < 0.3, big_maps=False)
        I = get_its(G, H)
        obj = ITS(I)
        obj.prune(radius=rng.randint(0, 1), insert_hydrogens=True)
        J = obj.graph
        if J.number_of_nodes() and any(d.get("symbol") == "H" for _, d in J.nodes(data=True)):
            for n in J.nodes:
                J.nodes[n].pop("idx_map", None)
            return J, ["library_made", "pruned_with_inserted_hydrogens", "explicit_H_nodes"]
    return None, []


def gen_direct_its(rng, with_symbols=True, good=True):
    """ITS graph written down directly: random ids and orders, labels as tuples, lists or scalars"""
    n = rng.randint(0, 10)
    ids = rng.sample(range(0, 3 * n + 3), n)
    nums = rng.sample(range(1, 2 * n + 3), n)
    I = nx.Graph()
    style = rng.random()
    for i, a in zip(ids, nums):
        d = {}
        if with_symbols or rng.random() < 0.8:
            d["symbol"] = rng.choice(c09.SYMS)
        if style < 0.6 or rng.random() < 0.6:
            d["aam"] = a if good or rng.random() < 0.8 else rng.choice([0, -1, nums[0]])
        I.add_node(i, **d)
    es = c09.random_edges(rng, ids, density=0.4)
    keys = sorted(es, key=sorted)
    rng.shuffle(keys)
    tags = ["direct"]
    for k in keys:
        u, v = sorted(k)
        if rng.random() < 0.5:
            u, v = v, u
        c = rng.random()
        if c < 0.2:
            lab = rng.choice([1, 2, 3, 1.5])
            if "scalar_label" not in tags:
                tags.append("scalar_label")
        else:
            g, h = rng.choice(COMPONENTS), rng.choice(COMPONENTS)
            if rng.random() < 0.4:
                h = g                      # unchanged bond
            if g == 0 and h == 0 and (good or rng.random() < 0.7):
                g = 1
            lab = (g, h) if c < 0.8 else [g, h]
            if c >= 0.8 and "list_label" not in tags:
                tags.append("list_label")
        I.add_edge(u, v, bond=lab)
    return I, tags


def label_tags(I):
    t = set()
    for _, _, d in I.edges(data=True):
        b = d["bond"]
        if isinstance(b, (tuple, list)):
            if b[0] == b[1]:
                t.add("unchanged_bond")
            if 3 in (b[0], b[1]):
                t.add("order3_component")
            if 0 in (b[0], b[1]):
                t.add("zero_component")
    if any(u > v for u, v in I.edges):
        t.add("edge_reported_larger_id_first")
    if any(d.get("aam") != n for n, d in I.nodes(data=True)):
        t.add("ids_differ_from_aam")
    return sorted(t)


# ---------------------------------------------------------------------------
# implementation calls
# ---------------------------------------------------------------------------
UTILS_ENTRY = "fgutils.utils.split_its"
UTILS_SHARE = 5        # every 5th plain split case goes through the deprecated but public duplicate in fgutils.utils


def impl_split(I, obj=None, entry=None):
    from fgutils.its import split_its
    if obj is not None:
        g, h = obj.split()
    elif entry == UTILS_ENTRY:
        import contextlib
        import io
        import fgutils.utils
        with contextlib.redirect_stdout(io.StringIO()):      # it prints a deprecation warning on every call
            g, h = fgutils.utils.split_its(I)
    else:
        g, h = split_its(I)
    return [canon_gr(g), canon_gr(h)]


def impl_resuper(I):
    from fgutils.its import split_its, get_its
    g, h = split_its(I)
    return c09.canon_its(get_its(g, h))


def impl_split_of_its(G, H):
    from fgutils.its import split_its, get_its
    g, h = split_its(get_its(G, H))
    return [canon_gr(g), canon_gr(h)]


def impl_smiles_roundtrip(its_obj):
    from fgutils.its import ITS
    return c09.canon_its(ITS.from_smiles(its_obj.to_smiles()).graph)


def _side_view(I, k):
    """(atoms {aam: symbol}, bonds {frozenset(aam pair): order}) of side k of the ITS, computed by the
    harness itself (independent of fgutils.split_its)"""
    atoms, bonds = {}, {}
    for n, d in I.nodes(data=True):
        if d.get("aam") is None or d.get("symbol") is None:
            return None
        atoms[int(d["aam"])] = c09_norm(d["symbol"])
    if len(atoms) != I.number_of_nodes():
        return None
    for u, v, d in I.edges(data=True):
        b = d["bond"]
        o = b[k] if isinstance(b, (tuple, list)) else b
        if o != 0:
            bonds[frozenset((int(I.nodes[u]["aam"]), int(I.nodes[v]["aam"])))] = o
    return atoms, bonds


def c09_norm(sym):
    return sym[0].upper() + sym[1:] if sym.islower() else sym


def _mol_view(mol):
    """map-number view of an RDKit molecule, read with RDKit alone; None unless every atom is mapped, injectively"""
    _, inv = c09._rd_tables()
    atoms = {a.GetAtomMapNum(): a.GetSymbol() for a in mol.GetAtoms()}
    if len(atoms) != mol.GetNumAtoms() or 0 in atoms:
        return None
    bonds = {frozenset((b.GetBeginAtom().GetAtomMapNum(), b.GetEndAtom().GetAtomMapNum())): inv.get(b.GetBondType())
             for b in mol.GetBonds()}
    return atoms, bonds


def _read(smi, sanitize, keep_hs):
    import rdkit.Chem as Chem
    ps = Chem.SmilesParserParams()
    ps.sanitize = sanitize
    ps.removeHs = not keep_hs
    return Chem.MolFromSmiles(smi, ps)


def rdkit_contract_holds(I):
    """RDKit-representable: RDKit's own SMILES writer followed by its own reader WITH NOTHING REWRITTEN (no sanitisation, written
    hydrogen atoms kept) is a symbol/bond/map-preserving bijection on each side of I, and RDKit's default reader accepts the
    string.  Checked with RDKit ONLY (the molecule is built, written and read back by the harness, not by fgutils.rdkit - that
    bridge is code under test).  Which reader SETTINGS the library uses (RDKit's defaults sanitise - aromaticity is perceived on
    Kekule-written rings, pentavalent N becomes charge-separated - and drop hydrogen atoms) is library code, not RDKit's contract:
    an ITS on which those settings lose something is IN the domain and judged (known finding K9 for sanitisation; dropped hydrogen
    atoms were defect F17, repaired in b76371e: a violation if they are dropped again)."""
    import rdkit.Chem as Chem
    bt, _ = c09._rd_tables()
    try:
        for k in (0, 1):
            sv = _side_view(I, k)
            if sv is None:
                return False
            atoms, bonds = sv
            rw = Chem.RWMol()
            idx = {}
            for a, sym in atoms.items():
                at = Chem.Atom(sym)
                at.SetAtomMapNum(int(a))
                idx[a] = rw.AddAtom(at)
            for pair, o in bonds.items():
                a, b = tuple(pair)
                rw.AddBond(idx[a], idx[b], bt[o])
            smi = Chem.MolToSmiles(rw.GetMol())
            back = _read(smi, sanitize=False, keep_hs=True)
            if back is None or _mol_view(back) != (atoms, bonds):
                return False
            if _read(smi, sanitize=True, keep_hs=False) is None:
                return False
        return True
    except Exception:
        return False


def _superpose(vg, vh):
    """the ITS of two map-number views, in c09.canon_its form (the harness's own superposition, independent of get_its)"""
    common = sorted(set(vg[0]) & set(vh[0]))
    nodes = [[a, vg[0][a], a] for a in common]
    edges = []
    cs = set(common)
    for pair in set(vg[1]) | set(vh[1]):
        if pair <= cs:
            u, v = sorted(pair)
            edges.append([u, v, [dbl(vg[1].get(pair, 0)), dbl(vh[1].get(pair, 0))]])
    edges.sort(key=lambda e: (e[0], e[1], e[2][0], e[2][1]))
    return [nodes, edges]


def its_of_enc(enc):
    """the ITS graph of a request (enc_its form: doubled orders) - so that the classifier needs nothing but the case"""
    I = nx.Graph()
    half = lambda x: x // 2 if x % 2 == 0 else x / 2
    for n, sym, a in enc[0]:
        I.add_node(n, symbol=sym, aam=a)
    for u, v, lab in enc[1]:
        I.add_edge(u, v, bond=tuple(half(x) for x in lab) if isinstance(lab, list) else half(lab))
    return I


def smiles_leg_scope(I, written, impl_out):
    """scope of known finding K9 (and recognition of the repaired defect F17) on the SMILES leg, decided per case with RDKit ALONE on the reaction SMILES the library wrote:
      (a) read WITHOUT sanitisation and with hydrogen atoms kept, each side of the string is exactly that side of I (to_smiles
          wrote the ITS faithfully);
      (b) the ITS the library read back is the harness's own superposition of RDKit's readings of the two sides with RDKit's
          default settings (hydrogen atoms dropped) or with sanitisation only (hydrogen atoms kept: library with the repair);
      (c) sanitisation changed only bonds it made aromatic (both atoms aromatic) or that touch an atom whose formal charge it
          changed; the default reader dropped only H atoms and no bond between kept atoms.
    -> (set of effects {'sanitisation', 'hydrogens_dropped'}, detail) or (None, why not)"""
    parts = written.split(">>") if isinstance(written, str) else []
    if len(parts) != 2:
        return None, "no reaction SMILES"
    if isinstance(impl_out, ImplError):
        return None, "the implementation raised"
    views = {"raw": [], "san": [], "dflt": []}
    kinds = set()
    for k, side in enumerate(parts):
        raw, san, dflt = _read(side, False, True), _read(side, True, True), _read(side, True, False)
        if raw is None or san is None or dflt is None:
            return None, "RDKit refuses a side of the written SMILES"
        vr, vs, vd = _mol_view(raw), _mol_view(san), _mol_view(dflt)
        if vr is None or vs is None or vd is None:
            return None, "unmapped atoms in the written SMILES"
        if vr != _side_view(I, k):
            return None, "side %d of the written SMILES, read by RDKit with nothing rewritten, is not side %d of the ITS: to_smiles lost or changed something" % (k, k)
        if raw.GetNumAtoms() != san.GetNumAtoms() or raw.GetNumBonds() != san.GetNumBonds() or vr[0] != vs[0]:
            return None, "sanitisation changed atoms"
        charged = {a.GetIdx() for a, b in zip(raw.GetAtoms(), san.GetAtoms()) if a.GetFormalCharge() != b.GetFormalCharge()}
        for x, y in zip(raw.GetBonds(), san.GetBonds()):
            ends = {x.GetBeginAtomIdx(), x.GetEndAtomIdx()}
            if ends != {y.GetBeginAtomIdx(), y.GetEndAtomIdx()}:
                return None, "sanitisation re-ordered bonds"
            if x.GetBondType() == y.GetBondType():
                continue
            if y.GetIsAromatic() and y.GetBeginAtom().GetIsAromatic() and y.GetEndAtom().GetIsAromatic():
                kinds.add("aromaticity_perceived")
            elif ends & charged:
                kinds.add("charge_separated_normal_form")
            else:
                return None, "a bond changed by sanitisation is neither aromatic nor at an atom whose charge changed"
        dropped = set(vs[0]) - set(vd[0])
        if set(vd[0]) - set(vs[0]) or any(vs[0][a] != "H" for a in dropped):
            return None, "the default reader dropped something that is not a hydrogen atom"
        if vd[1] != {p_: o for p_, o in vs[1].items() if not (p_ & dropped)} or any(vd[0][a] != vs[0][a] for a in vd[0]):
            return None, "the default reader changed kept atoms or bonds"
        views["raw"].append(vr)
        views["san"].append(vs)
        views["dflt"].append(vd)
    out = [[list(x) for x in impl_out[0]], [list(x) for x in impl_out[1]]]
    eff = set()
    if kinds:
        eff.add("sanitisation")
    if out == _superpose(*views["san"]):
        pass
    elif out == _superpose(*views["dflt"]):
        eff.add("hydrogens_dropped")
    else:
        return None, "ITS.from_smiles(written) is not the superposition of RDKit's own readings of the two sides"
    if out == _superpose(*views["raw"]):
        return None, "RDKit's reader settings lose nothing on this string: the difference is not RDKit's"
    return eff, "+".join(sorted(kinds | ({"hydrogen_atoms_dropped"} if "hydrogens_dropped" in eff else set())))


# ---------------------------------------------------------------------------
# forms in which an ITS graph may be handed to split_its / ITS(...) / get_its∘split_its: frozen (nx.freeze), a
# sub-graph view of a larger graph, irrelevant extra attributes, list instead of tuple labels, numpy ids / map
# numbers / half orders.  An exception is a specification failure like on any other in-domain input.
VARIANT_KINDS = ("frozen", "view", "extra_attrs", "list_labels", "numpy")
# ITS(...).to_smiles() ends in fgutils.rdkit.graph_to_mol, whose `SetAtomMapNum(d["aam"])` is a Boost.Python call
# that REFUSES numpy.int64 (ArgumentError) - on the unchanged library.  Reported as a finding of the form-of-input
# round; the numpy form is therefore counted but kept outside the domain on the SMILES leg (in_domain=False).
SMILES_VARIANT_KINDS = ("frozen", "view", "extra_attrs", "list_labels", "numpy")
SMILES_VARIANT_OUT_OF_DOMAIN = ()   # numpy map numbers: genuine defect of graph_to_mol, repaired in /repo (5975c71); in domain now


def as_variant(I, rng, kinds):
    """-> (the ITS graph in another form, tag); the wire form is that of I (checked)"""
    V, tag = input_variant(I, rng, kinds)
    if sx(enc_its(V)) != sx(enc_its(I)):
        raise AssertionError("input_variant changed the wire form (harness defect)")
    return V, tag


_split_counter = [0]


def split_case(I, tags, via_object=False, form=None, entry=None):
    """`form`: tag of the input form when I is a common.input_variant of the generated graph; `entry`: UTILS_ENTRY = the
    public duplicate fgutils.utils.split_its (every UTILS_SHARE-th case that does not go through an ITS object)"""
    if form:
        tags = tuple(tags) + ("input_form", form)
    if not via_object and entry is None:
        _split_counter[0] += 1
        if _split_counter[0] % UTILS_SHARE == 0:
            entry = UTILS_ENTRY
    obj = None
    if via_object:
        from fgutils.its import ITS
        obj = call_impl(ITS, I)       # the constructor completes the map in place
        if isinstance(obj, ImplError):
            obj = None
    enc = enc_its(I)
    out = call_impl(impl_split, I, obj, entry)
    req = [Atom("C10"), Atom("split"), enc]
    key = repr(enc) if I.number_of_edges() > 0 else None
    meta = {"variant": form} if form else {}
    if entry:
        meta["entry"] = entry
    return Case(req, out, in_domain=True, nontrivial_key=("split", key, form, entry) if key else None,
                meta=meta,
                tags=("op_split",) + tuple(tags) + tuple(label_tags(I)) + (("via_ITS.split",) if via_object else ())
                + ("entry:" + (entry or ("ITS.split" if via_object else "fgutils.its.split_its")),))


def has_symbols(I):
    return all("symbol" in d for _, d in I.nodes(data=True))


def resuper_case(I, tags, form=None):
    if not has_symbols(I):      # get_its needs symbols; such graphs are only split
        return None
    if form:
        tags = tuple(tags) + ("input_form", form)
    dom = its_ok(I)
    enc = enc_its(I)
    out = call_impl(impl_resuper, I)
    req = [Atom("C10"), Atom("resuper"), enc]
    key = repr(enc) if I.number_of_edges() > 0 and dom else None
    return Case(req, out, in_domain=dom, nontrivial_key=("resuper", key, form) if key else None,
                meta={"variant": form} if form else {},
                tags=("op_resuper",) + tuple(tags) + tuple(label_tags(I)) + (() if dom else ("ood",)))


def smiles_case(I, tags, r, form=None):
    """I -> ITS(I) (completes the map) -> to_smiles -> from_smiles, compared with I named by map number"""
    from fgutils.its import ITS
    if not has_symbols(I):
        return None
    if form:
        tags = tuple(tags) + ("input_form", form)
    obj = call_impl(ITS, I)
    if isinstance(obj, ImplError):
        r.count("ITS_constructor_failed")
        return None
    dom = its_ok(I)
    contract = rdkit_contract_holds(I)
    out = call_impl(impl_smiles_roundtrip, obj)
    enc = enc_its(I)            # after the constructor: every node has a map number
    req = [Atom("C10"), Atom("resuper"), enc]
    written = call_impl(obj.to_smiles)
    meta = {"dom_oracle": dom, "via": "smiles_roundtrip", "written": None if isinstance(written, ImplError) else written}
    form_ok = form not in SMILES_VARIANT_OUT_OF_DOMAIN     # see SMILES_VARIANT_OUT_OF_DOMAIN: real finding, kept out of the verdict
    if form:
        meta["variant"] = form
    t = ("op_smiles_roundtrip",) + tuple(tags) + tuple(label_tags(I))
    if not contract:
        r.count("assumption_broken:rdkit_did_not_roundtrip_its_own_smiles")
        t += ("rdkit_contract_broken",)
        meta["smiles"] = meta["written"]
    if not form_ok:
        t += ("form_out_of_domain(graph_to_mol refuses numpy map numbers)",)
    key = repr(enc) if I.number_of_edges() > 0 and dom and contract and form_ok else None
    if any(d.get("symbol") == "H" for _, d in I.nodes(data=True)):
        t += ("explicit_H_nodes:in_domain" if dom and contract and form_ok else "explicit_H_nodes:out_of_domain",)
    return Case(req, out, in_domain=dom and contract and form_ok, meta=meta,
                nontrivial_key=("smiles", key, form) if key else None, tags=t)


def split_of_its_case(G, H, tags, via_smiles=None):
    from fgutils.its import ITS
    dom = fully_mapped(G, H)
    if via_smiles is not None:
        out = call_impl(lambda s: [canon_gr(x) for x in ITS.from_smiles(s).split()], via_smiles)
    else:
        out = call_impl(impl_split_of_its, G, H)
    eg, eh = c09.enc_mol(G), c09.enc_mol(H)
    req = [Atom("C10"), Atom("split_of_its"), eg, eh]
    key = repr((eg, eh)) if dom and G.number_of_edges() + H.number_of_edges() > 0 else None
    return Case(req, out, in_domain=dom, meta={"smiles": via_smiles} if via_smiles else {},
                nontrivial_key=("soi", key) if key else None,
                tags=("op_split_of_its",) + tuple(tags) + (("via_from_smiles",) if via_smiles else ()) + (() if dom else ("ood",)))


def replay(path):
    """re-run a recorded request against the current implementation and the driver"""
    from common import parse_sx, Driver, sx_of, canon
    d = json.load(open(path))
    req = parse_sx(d["request_line"])
    op = req[1]
    meta = d.get("meta") or {}
    form = meta.get("variant")

    def formed(I):
        if form and form != "variant=plain":
            import random
            print("re-applied the recorded input form: %s" % form)
            return input_variant(I, random.Random(d.get("seed", 0)), (form.split("=")[1],))[0]
        return I
    if op == "split":
        I = formed(c09.graph_from_wire(req[2]))
        if meta.get("entry"):
            print("entry point: %s" % meta["entry"])
        out = call_impl(impl_split, I, None, meta.get("entry"))
        creq = [Atom("C10"), Atom("split"), enc_its(I)]
    elif op == "resuper":
        I = formed(c09.graph_from_wire(req[2]))
        creq = [Atom("C10"), Atom("resuper"), enc_its(I)]
        if meta.get("via") == "smiles_roundtrip":
            from fgutils.its import ITS
            out = call_impl(lambda g: impl_smiles_roundtrip(ITS(g)), I)
        else:
            out = call_impl(impl_resuper, I)
    else:
        G, H = c09.graph_from_wire(req[2]), c09.graph_from_wire(req[3])
        creq = [Atom("C10"), Atom("split_of_its"), c09.enc_mol(G), c09.enc_mol(H)]
        if meta.get("smiles"):
            from fgutils.its import ITS
            out = call_impl(lambda s: [canon_gr(x) for x in ITS.from_smiles(s).split()], meta["smiles"])
        else:
            out = call_impl(impl_split_of_its, G, H)
    case = Case(creq, out)
    drv = Driver()
    reply = drv.ask(case.line())
    drv.close()
    impl_c = ["raised", out.kind] if isinstance(out, ImplError) else canon(out)
    print("request :", case.line())
    print("impl now:", sx_of(impl_c))
    print("reply   :", sx_of(reply))
    ok = reply[0] == "ok" and reply[3] == "1" and reply[1] == impl_c
    if reply[0] == "ok" and reply[3] == "0":
        print("VIOLATION property=C10 replay=%s (the specification rejects the implementation's output)" % path)
    elif not ok:
        print("VIOLATION property=C10 replay=%s no-failing-input-found (model and implementation disagree)" % path)
    return 0 if ok else 1


def load_corpus():
    out = []
    for p in sorted(glob.glob(os.path.join(CORPUS_DIR, "C10", "*.json"))):
        for e in json.load(open(p)):
            e["file"] = os.path.basename(p)
            out.append(e)
    return out


def its_from_desc(d):
    I = nx.Graph()
    for n, s, a in d["nodes"]:
        attrs = {}
        if s is not None:
            attrs["symbol"] = s
        if a is not None:
            attrs["aam"] = a
        I.add_node(n, **attrs)
    for u, v, b in d["edges"]:
        I.add_edge(u, v, bond=tuple(b) if isinstance(b, list) else b)
    return I


def run(tier, seed):
    r = Run("C10", tier, seed)
    if not prepare(r, PROOFS, "C10"):
        return 2
    rng = r.rng
    from rdkit import RDLogger
    RDLogger.DisableLog("rdApp.*")      # e.g. "not removing hydrogen atom without neighbors"
    n_rounds = 700 if tier == "quick" else 40000
    cases = []
    mismatches = 0

    from common import load_known_findings
    known = {f["id"]: f for f in load_known_findings()}
    hits = {"K9": 0}
    hit_kinds = {}

    def classify_known(o):
        """only the SMILES leg has known findings; scope decided per case by smiles_leg_scope (RDKit alone)"""
        m = o.case.meta
        if m.get("via") != "smiles_roundtrip" or not m.get("written"):
            return None
        eff, why = smiles_leg_scope(its_of_enc(o.case.req[2]), m["written"], o.case.impl)
        if not eff:
            m["classifier"] = why
            return None
        if "hydrogens_dropped" in eff:
            # F17 (repaired in /repo, b76371e): a fixed entry suppresses nothing - hydrogen atoms dropped by the reader are a violation
            m["classifier"] = "the reader dropped written hydrogen atoms (%s): defect F17, fixed in b76371e - not a known finding" % why
            return None
        fid = "K9"
        f = known.get(fid)
        if f is None or f.get("status") != "open":
            m["classifier"] = "inside the scope of %s, which is not an open finding" % fid
            return None
        hits[fid] += 1
        hit_kinds[why] = hit_kinds.get(why, 0) + 1
        return f

    def flush(force=False):
        nonlocal cases, mismatches
        if cases and (force or len(cases) >= 4000):
            outs = r.evaluate(cases, classify_known=classify_known)
            mismatches += c09.check_domain_flags(r, outs, 0)
            cases = []

    for e in load_corpus():
        tags = ["corpus"]
        if e["kind"] == "its":
            I = its_from_desc(e["I"])
            cases.append(split_case(I, tags))
            if has_symbols(I):
                cases.append(resuper_case(I, tags))
                if e.get("smiles_leg"):
                    c = smiles_case(I, tags, r)
                    if c is not None:
                        cases.append(c)
            # every corpus ITS also in every other input form, through every entry point
            for kind in VARIANT_KINDS:
                for via_object in (False, True):
                    V, form = as_variant(its_from_desc(e["I"]), rng, (kind,))
                    cases.append(split_case(V, tags, via_object=via_object, form=form))
                V, form = as_variant(its_from_desc(e["I"]), rng, (kind,))
                if has_symbols(V):
                    cases.append(resuper_case(V, tags, form=form))
                    if e.get("smiles_leg"):
                        V, form = as_variant(its_from_desc(e["I"]), rng, (kind,))
                        c = smiles_case(V, tags, r, form=form)
                        if c is not None:
                            cases.append(c)
        elif e["kind"] == "reaction":
            G, H = c09.graph_from_desc(e["G"]), c09.graph_from_desc(e["H"])
            cases.append(split_of_its_case(G, H, tags))
        elif e["kind"] == "smiles":
            # the reaction the string denotes: the two molecules RDKit builds, read with RDKit ALONE (c09.rdkit_alone_reaction)
            G, H = c09.rdkit_alone_reaction(e["smiles"])
            cases.append(split_of_its_case(G, H, tags, via_smiles=e["smiles"]))
    for k in range(n_rounds):
        big = k % 25 == 0
        # split_its / get_its∘split_its on library-made, relabelled and hand-written ITS graphs
        c = rng.random()
        if c < 0.4:
            I, tags = gen_library_its(rng, big=big)
        elif c < 0.6:
            I, tags = gen_library_its(rng, big=big)
            I = relabel_shuffled(I, rng)
            tags = tags + ["relabelled"]
        else:
            good = rng.random() < 0.8
            I, tags = gen_direct_its(rng, with_symbols=True, good=good)
        form = None
        if rng.random() < 0.15:
            # the FORM of the input: the same ITS frozen / as a view of a larger graph / with extra attributes /
            # with list labels / with numpy ids, map numbers and half orders
            I, form = as_variant(I, rng, VARIANT_KINDS)
        cases.append(split_case(I, tags, via_object=False, form=form))
        rc = resuper_case(I, tags, form=form)
        if rc is not None:
            cases.append(rc)
        if k % 3 == 0:
            J, tags = gen_direct_its(rng, with_symbols=False, good=rng.random() < 0.7)
            form = None
            if rng.random() < 0.15:
                J, form = as_variant(J, rng, VARIANT_KINDS)
            cases.append(split_case(J, tags, via_object=rng.random() < 0.3, form=form))
        if k % 7 == 2 and has_symbols(I):
            # history on one ITS object: split / to_smiles, then prune in place, then split again —
            # the second split must be the split of the graph the object holds NOW
            from fgutils.its import ITS
            obj = call_impl(ITS, I.copy())
            if not isinstance(obj, ImplError):
                call_impl(obj.split)
                call_impl(obj.to_smiles)
                pr = call_impl(obj.prune, radius=rng.randint(0, 2), insert_hydrogens=rng.random() < 0.5)
                if not isinstance(pr, ImplError) and obj.graph.number_of_nodes() > 0:
                    J = obj.graph
                    out = call_impl(impl_split, J, obj)
                    enc = enc_its(J)
                    cases.append(Case([Atom("C10"), Atom("split"), enc], out, in_domain=True,
                                      nontrivial_key=("split-after-prune", repr(enc)) if J.number_of_edges() > 0 else None,
                                      tags=("op_split", "via_ITS.split", "after_split_then_prune_on_same_object") + tuple(label_tags(J))))
        # split_its∘get_its
        full = rng.random() < 0.75
        G, H, tags = c09.gen_reaction(rng, big=big, full=full, ood=None if rng.random() < 0.9 else rng.choice(["zero", "neg", "dup", "bond0"]))
        cases.append(split_of_its_case(G, H, tags + (["fully_mapped"] if full else ["not_fully_mapped"])))
        # the legs through RDKit
        if k % 2 == 0:
            from fgutils.its import get_its
            I = None
            if k % 10 == 0:
                G, H, tags = gen_metal_reaction(rng)
            elif k % 10 == 4:
                G, H, tags = gen_aromatic_reaction(rng)
            elif k % 10 == 2:
                G, H, tags = gen_kekule_reaction(rng)          # Kekule-written rings, nitro / diazo / sulfone without charges
            elif k % 10 == 6:
                I, tags = gen_pruned_its(rng)                  # explicit H nodes as ITS.prune(insert_hydrogens=True) makes them
                if I is None:
                    G, H, tags = c09.gen_valid_reaction(rng, nmax=9, full=True, with_h=True)
            else:
                G, H, tags = c09.gen_valid_reaction(rng, nmax=14 if big else 9, full=rng.random() < 0.85, with_h=k % 10 == 8)
            if I is None:
                I = get_its(G, H)
                for n in I.nodes:
                    I.nodes[n].pop("idx_map", None)
                tags = ["library_made"] + tags
            v = rng.random()
            if v < 0.5:
                I = relabel_shuffled(I, rng)
                tags.append("relabelled")
                if v < 0.25:
                    # an ITS whose map is incomplete: the ITS constructor completes it
                    for n in list(I.nodes):
                        if rng.random() < 0.4:
                            I.nodes[n].pop("aam", None)
                    tags.append("map_completed_by_constructor")
            form = None
            if rng.random() < 0.15:
                I, form = as_variant(I, rng, SMILES_VARIANT_KINDS)
            sc = smiles_case(I, tags, r, form=form)
            if sc is not None:
                cases.append(sc)
            if k % 4 == 0 and k % 10 != 6:
                smi = call_impl(c09.reaction_smiles, G, H, rng)
                if not isinstance(smi, ImplError) and not c09.has_explicit_h_atom(smi):
                    # reference reaction = the two molecules RDKit builds from the string, read with RDKit ALONE (strings that write
                    # hydrogen ATOMS are judged on the to_smiles -> from_smiles leg only: reader settings, F17)
                    gh = c09.rdkit_alone_reaction(smi)
                    if gh is not None:
                        cases.append(split_of_its_case(gh[0], gh[1], tags, via_smiles=smi))
        flush()
    flush(force=True)
    r.assumptions = [
        "a networkx Graph enters split_its only through graph.copy(), graph.edges(data=True), remove_edge and item assignment; modelled on ordered node/edge lists",
        "RDKit-representable (checked per case with RDKit alone): RDKit's SMILES writer followed by its reader WITH NOTHING REWRITTEN (sanitize=False, "
        "removeHs=False) is a symbol-, bond- and map-preserving bijection on each side of the ITS and the default reader accepts the string "
        "(%d case(s) of this run broke it and were put outside the domain).  The reader SETTINGS are the library's choice: an ITS on which RDKit's "
        "defaults (sanitisation, hydrogen atoms removed) would lose something is in the domain; a sanitisation-rewritten side is known finding K9 only inside "
        "smiles_leg_scope; dropped hydrogen atoms (F17, fixed b76371e) and anything else are violations" % r.dist.get(
            "assumption_broken:rdkit_did_not_roundtrip_its_own_smiles", 0),
        "ITS graphs handed to get_its∘split_its have map numbers >= 1, pairwise distinct, and no label (0,0) / scalar 0; others are counted as out of domain",
        "which fresh numbers ITS(graph) gives to unmapped nodes is C20's subject: the round trip is compared against the graph after the constructor ran",
    ]
    r.extra_cov["known_finding_hits_by_id"] = dict(hits)
    r.extra_cov["known_finding_hits_by_effect"] = dict(sorted(hit_kinds.items()))
    r.extra_cov["smiles_leg_explicit_H_cases_in_domain"] = r.dist.get("tag:explicit_H_nodes:in_domain", 0)
    r.extra_cov["split_cases_by_entry_point"] = {k_[len("tag:entry:"):]: v for k_, v in sorted(r.dist.items()) if k_.startswith("tag:entry:")}
    if mismatches:
        print("ERROR property=C10 harness oracle and Lean domain predicate disagree on %d case(s)" % mismatches)
        r.finish(level="proof", rule="", checker_cmd="", explanation="domain flag mismatch")
        return 2
    return r.finish(
        level="proof",
        rule="ITS graphs as the library makes them (get_its of random reactions: ids = map numbers, unchanged bonds, orders 1/1.5/2/3), the same "
             "with shuffled ids/insertion orders, and hand-written ones (tuple, list and scalar labels, zero components, nodes without symbol/aam); "
             "operations split (every 5th plain call through the deprecated public duplicate fgutils.utils.split_its), get_its∘split_its, "
             "split_its∘get_its (75% fully mapped), ITS(I).to_smiles→ITS.from_smiles on valence-correct "
             "reactions over C,N,O,S,P,F,Cl,Br,H (per 10 SMILES-leg cases: 1 metal-metal multiple bond, 1 aromatic ring, 1 Kekule-written ring with optional "
             "nitro/diazo/sulfone/phosphine-oxide group written without charges, 1 ITS pruned by the library with inserted hydrogens, 1 reaction with explicit "
             "H nodes; 15% map numbers up to 10^6); 15% of the split / get_its∘split_its / ITS(I).split() / SMILES-leg inputs (and every corpus ITS) are "
             "handed over in another FORM (nx.freeze, sub-graph view of a larger graph, extra attributes, list labels, numpy ids/map numbers/orders; "
             "tags variant=*; numpy on the SMILES leg is out of domain: RDKit's SetAtomMapNum refuses numpy.int64); non-trivial = in-domain case with at least one edge, distinct by operation and wire form",
        checker_cmd="cd lean && lake build FGVerif.Proofs.C10 && lake env lean FGVerif/Audit/C10.lean",
        explanation="theorems in lean/FGVerif/Proofs/C10.lean about Model/C10.lean + Model/C09.lean (split_exact, its_of_split, split_of_its, "
                    "smiles_roundtrip_modulo_rdkit); models tied to fgutils.its by differential testing; executable specs applied to every "
                    "implementation output; the SMILES leg goes through RDKit with the writer/reader contract checked per case")
