"""Reading a data table from the RUNNING code instead of from the shape of its source text.

`capture(func, *args)` calls `func` once and returns every value the call could have looked a table up in:
the function's locals when it returns plus the module globals its code names.  `pairs(v)` turns a dict or
a sequence of 2-tuples into a list of (key, value).  The translators first try the literal they know
(`valence_dict = {...}` inside the function: keeps the source order, duplicates included) and fall back to
these helpers when the source was restructured (table hoisted to module level, written as a comprehension,
as a tuple of pairs, renamed ...)."""
import sys


def capture(func, *args, **kwargs):
    code = func.__code__
    seen = {}

    def tracer(frame, event, arg):
        if frame.f_code is code:
            def local(frame, event, arg):
                if event == "return":
                    seen.update(frame.f_locals)
                return local
            return local
        return None

    old = sys.gettrace()
    sys.settrace(tracer)
    try:
        try:
            func(*args, **kwargs)
        except Exception:
            pass
    finally:
        sys.settrace(old)
    out = {}
    g = func.__globals__
    for name in code.co_names:
        if name in g and not callable(g[name]) and not hasattr(g[name], "__path__") and not hasattr(g[name], "__loader__"):
            out[name] = g[name]
    out.update(seen)
    return out


def pairs(v):
    if isinstance(v, dict):
        return list(v.items())
    if isinstance(v, (list, tuple)) and v and all(isinstance(x, (list, tuple)) and len(x) == 2 for x in v):
        return [tuple(x) for x in v]
    return None


def module_values(module):
    return {k: v for k, v in vars(module).items() if not k.startswith("__") and not callable(v)}


def candidates(values, key_ok, val_ok, min_len=1):
    """[(name, [(k, v)])] of the captured values that look like a table of the wanted kind, largest first"""
    out = []
    for name, v in values.items():
        ps = pairs(v)
        if ps and len(ps) >= min_len and all(key_ok(k) and val_ok(x) for k, x in ps):
            out.append((name, ps))
    out.sort(key=lambda t: -len(t[1]))
    return out
