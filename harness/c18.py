"""C18 — tensor conversion round trips; tensor graph operators match their graph meaning.

Correspondence (model vs. fgutils.torch) + the executable specification applied to the
implementation's outputs.  torch / torch_geometric are runtime: real tensors are produced by the
library and travel as lists (`.tolist()`); bond orders are doubled on the wire.
"""
import itertools
import os
import warnings

import networkx as nx

from common import Atom, Case, Run, call_impl, prepare, ImplError, dbl, sx, sx_of, input_variant

warnings.filterwarnings("ignore")

PROOFS = ["FGVerif.Proofs.C18"]

# ---------------------------------------------------------------------------
# the three transform families (mirrors of C18.nfOf / efOf / nftOf in Model/C18.lean)
# ---------------------------------------------------------------------------


def _nf(tf):
    from fgutils.chem.ps import atomic_sym2num
    if tf == 1:
        return lambda d: [atomic_sym2num[d["symbol"]] + 100, 7]
    if tf == 2:
        return lambda d: [3, atomic_sym2num[d["symbol"]]]
    return None


def _ef(tf):
    if tf == 1:
        def f(d):
            g, h = d["bond"]
            g = 0 if g is None else g
            h = 0 if h is None else h
            return [h, g, g + h]
        return f
    return None


def _nft(tf):
    from fgutils.chem.ps import atomic_num2sym
    if tf == 1:
        return lambda x: atomic_num2sym[int(x[0]) - 100]
    if tf == 2:
        return lambda x: atomic_num2sym[int(x[1])]
    return None


# ---------------------------------------------------------------------------
# encoders
# ---------------------------------------------------------------------------
def as_graph(obj):
    from fgutils.its import ITS
    return obj.graph if isinstance(obj, ITS) else obj


def enc_its(obj):
    g = as_graph(obj)
    nodes = [[int(n), d.get("symbol")] for n, d in g.nodes(data=True)]
    edges = []
    for u, v, d in g.edges(data=True):
        b = d["bond"]
        edges.append([int(u), int(v), dbl(b[0]), dbl(b[1])])
    return [nodes, edges]


def _ints(rows):
    out = []
    for row in rows:
        r = []
        for v in row:
            if int(v) != v:
                raise ValueError("non-integral feature %r" % (v,))
            r.append(int(v))
        out.append(r)
    return out


def enc_tdata(t):
    """torch_geometric Data -> [x rows, columns, doubled attribute rows]"""
    x = _ints(t.x.tolist()) if t.x.dim() == 2 else [[int(v)] for v in t.x.tolist()]
    ei = t.edge_index
    cols = [] if ei.dim() < 2 else [[int(a), int(b)] for a, b in ei.T.tolist()]
    ea = t.edge_attr
    if ea is None or ea.dim() < 2:
        attrs = []
    else:
        attrs = [[dbl(v) for v in row] for row in ea.tolist()]
    return [x, cols, attrs]


def enc_nxg(G):
    nodes = [[int(n), d.get("symbol")] for n, d in G.nodes(data=True)]
    edges = []
    for u, v, d in G.edges(data=True):
        a, b = (u, v) if u <= v else (v, u)
        edges.append([int(a), int(b), [dbl(x) for x in d["bond"]]])
    edges.sort(key=lambda e: (e[0], e[1]))
    return [nodes, edges]


def mk_data(td):
    """[x, cols, doubled attrs] -> torch_geometric Data (int64 unless a half order occurs)"""
    import torch
    from torch_geometric.data import Data
    x, cols, attrs = td
    xt = torch.tensor(x, dtype=torch.long)
    ei = torch.tensor(cols, dtype=torch.long).T if cols else torch.tensor([]).T
    if any(v % 2 for row in attrs for v in row):
        ea = torch.tensor([[v / 2 for v in row] for row in attrs], dtype=torch.float32)
    else:
        ea = torch.tensor([[v // 2 for v in row] for row in attrs], dtype=torch.long)
    return Data(x=xt, edge_index=ei, edge_attr=ea)


# ---------------------------------------------------------------------------
# implementation calls
# ---------------------------------------------------------------------------
def impl_roundtrip(obj, tf):
    from fgutils.torch import its_to_torch, its_from_torch
    t = its_to_torch(obj, node_feature_transform=_nf(tf), edge_feature_transform=_ef(tf))
    G = its_from_torch(t, node_feature_transform=_nft(tf))
    return [enc_tdata(t), enc_nxg(G)]


def impl_dataset_member(ds, i, tf):
    from fgutils.torch import its_from_torch
    t = ds[i]
    G = its_from_torch(t, node_feature_transform=_nft(tf))
    return [enc_tdata(t), enc_nxg(G)]


def impl_batch(objs, tf):
    from fgutils.torch import its_to_torch, its_from_torch
    kw = dict(node_feature_transform=_nf(tf), edge_feature_transform=_ef(tf))
    tb = its_to_torch(list(objs), **kw)
    singles = [its_to_torch(o, **kw) for o in objs]
    Gs = its_from_torch(tb, node_feature_transform=_nft(tf))
    return [enc_tdata(tb), [int(b) for b in tb.batch.tolist()], [enc_tdata(s) for s in singles],
            [enc_nxg(G) for G in Gs]]


def impl_dataset_batch(ds, tf):
    from torch_geometric.data import Batch
    from fgutils.torch import its_from_torch
    singles = [ds[i] for i in range(len(ds))]
    tb = Batch.from_data_list(singles)
    Gs = its_from_torch(tb, node_feature_transform=_nft(tf))
    return [enc_tdata(tb), [int(b) for b in tb.batch.tolist()], [enc_tdata(s) for s in singles],
            [enc_nxg(G) for G in Gs]]


def impl_frombatch(td, bv, tf):
    import torch
    from fgutils.torch import its_from_torch
    d = mk_data(td)
    d.batch = torch.tensor(bv, dtype=torch.long)
    return [enc_nxg(G) for G in its_from_torch(d, node_feature_transform=_nft(tf))]


def impl_nodeind(obj, S, tf):
    from fgutils.torch import its_to_torch, node_induced_subgraph
    g = as_graph(obj)
    t = its_to_torch(obj, node_feature_transform=_nf(tf), edge_feature_transform=_ef(tf))
    order = list(g.nodes)
    return enc_tdata(node_induced_subgraph(t, [order.index(s) for s in S]))


def impl_edgeind(obj, E, tf, as_tensor=False):
    import torch
    from fgutils.torch import its_to_torch, edge_induced_subgraph
    t = its_to_torch(obj, node_feature_transform=_nf(tf), edge_feature_transform=_ef(tf))
    cols = [c for k in E for c in (2 * k, 2 * k + 1)]
    return enc_tdata(edge_induced_subgraph(t, torch.tensor(cols) if as_tensor else cols))


def impl_nodeind_t(td, nodes):
    from fgutils.torch import node_induced_subgraph
    return enc_tdata(node_induced_subgraph(mk_data(td), list(nodes)))


def impl_edgeind_t(td, cols):
    from fgutils.torch import edge_induced_subgraph
    return enc_tdata(edge_induced_subgraph(mk_data(td), list(cols)))


def impl_prune(td, starts, r):
    import torch
    from fgutils.torch import prune
    return enc_tdata(prune(mk_data(td), torch.tensor(list(starts), dtype=torch.long), radius=r))


def impl_prune_rc(td, r):
    from fgutils.torch.utils import prune_rc
    return enc_tdata(prune_rc(mk_data(td), radius=r))


# ---------------------------------------------------------------------------
# generators
# ---------------------------------------------------------------------------
RSMI = [
    "[CH3:1][C:2](=[O:3])[OH:4].[CH3:5][OH:6]>>[CH3:1][C:2](=[O:3])[O:6][CH3:5].[OH2:4]",
    "[CH2:1]=[CH:2][CH:3]=[CH2:4].[CH2:5]=[CH2:6]>>[CH2:1]1[CH:2]=[CH:3][CH2:4][CH2:5][CH2:6]1",
    "[CH3:1][Cl:2].[OH2:3]>>[CH3:1][OH:3].[ClH:2]",
    "[CH3:1][CH:2]=[O:3].[NH2:4][CH3:5]>>[CH3:1][CH:2]=[N:4][CH3:5].[OH2:3]",
    "[CH3:1][S:2][CH3:3].[Br:4][CH3:5]>>[CH3:1][S+:2]([CH3:3])[CH3:5].[Br-:4]",
    "[c:1]1[c:2][c:3][c:4][c:5][c:6]1[Br:7].[OH:8][B:9]([OH:10])[CH3:11]>>[c:1]1[c:2][c:3][c:4][c:5][c:6]1[CH3:11].[Br:7][B:9]([OH:8])[OH:10]",
    "[CH3:1][C:2]#[N:3].[OH2:4]>>[CH3:1][C:2](=[O:4])[NH2:3]",
    "[CH3:3][CH2:2][OH:1]>>[CH2:3]=[CH2:2].[OH2:1]",
    "[Se:1]([CH3:2])[CH3:3].[Br:4][Br:5]>>[Se:1]([CH3:2])([CH3:3])[Br:4].[Br-:5]",
]

PATTERNS = [
    "C<1,2>C", "C<1,2>C<2,1>O", "C1<0,1>C<1,0>C<0,1>C<1,0>1", "C(<1,0>Cl)<0,1>O", "CC(=O)<1,0>O<0,1>C",
    "C<2,1>C<1,2>C<2,1>C", "N<1,2>C(<2,1>O)C", "C:C<1,2>Se<2,1>Br", "C1<2,1>C<1,2>C<2,1>C<0,1>C<2,1>C<0,1>1",
    "S(<1,0>C)(<0,1>C)C", "C#C<1,0>Br", "P<1,2>O.C<0,1>Li",
]

COMMON = ["C", "C", "C", "N", "O", "S", "Cl", "Br", "Se", "H", "P", "F", "Si", "B", "I", "Li", "Mg", "Sn"]
ORDERS = [None, 0, 1, 1, 1, 1.5, 2, 2, 3]


def rand_graph(rng, n=None, symbols=COMMON, ids="any", extra=None, half=True):
    """random connected-ish ITS graph built directly (element symbols, arbitrary ids, >= 1 edge)"""
    n = n or rng.randint(2, 9)
    mode = rng.choice(["zero", "one", "shuffled", "sparse"]) if ids == "any" else ids
    if mode == "zero":
        idl = list(range(n))
    elif mode == "one":
        idl = list(range(1, n + 1))
    elif mode == "shuffled":
        idl = list(range(n))
        rng.shuffle(idl)
    else:
        idl = rng.sample(range(0, 4 * n + 5), n)
    g = nx.Graph()
    for i in idl:
        g.add_node(i, symbol=rng.choice(symbols))
    orders = ORDERS if half else [o for o in ORDERS if o != 1.5]
    pairs = []
    comp = rng.random() < 0.2
    for k in range(1, n):
        if comp and k == n // 2 and n >= 4:
            continue  # two components
        pairs.append((idl[k], idl[rng.randrange(0, k)]))
    m_extra = rng.randint(0, 3) if extra is None else extra
    for _ in range(m_extra):
        a, b = rng.sample(idl, 2)
        pairs.append((a, b))
    rng.shuffle(pairs)
    for a, b in pairs:
        if rng.random() < 0.5:
            a, b = b, a
        if not g.has_edge(a, b):
            g.add_edge(a, b, bond=(rng.choice(orders), rng.choice(orders)))
    return g


def rand_pattern(rng):
    atoms = ["C", "C", "C", "N", "O", "S", "Cl", "Br", "Se", "P", "F", "B", "I", "Si", "Li", "Mg"]
    bonds = ["<1,2>", "<2,1>", "<0,1>", "<1,0>", "", "=", "#", "<1,1>", "<2,3>", ":"]
    n = rng.randint(2, 8)
    s = rng.choice(atoms)
    depth = 0
    for k in range(n - 1):
        b = rng.choice(bonds[:4]) if k == 0 else rng.choice(bonds)   # >= 1 RC bond: ITS mode
        if rng.random() < 0.25:
            s += "(" + b + rng.choice(atoms) + ")"
        else:
            s += b + rng.choice(atoms)
    return s


def rand_tensor(rng, n=None, symmetric=None):
    """raw tensor graph (possibly directed, with parallel columns)"""
    n = n or rng.randint(2, 8)
    symmetric = rng.random() < 0.5 if symmetric is None else symmetric
    x = [[rng.choice([1, 6, 7, 8, 16, 17, 34, 35])] for _ in range(n)]
    cols, attrs = [], []
    m = rng.randint(1, 2 * n)
    for _ in range(m):
        if n < 2:
            break
        a, b = rng.sample(range(n), 2)
        at = [rng.choice([0, 2, 2, 3, 4, 6]), rng.choice([0, 2, 2, 3, 4, 6])]
        cols.append([a, b])
        attrs.append(at)
        if symmetric:
            cols.append([b, a])
            attrs.append(at)
        elif rng.random() < 0.15:
            cols.append([a, b])          # parallel column
            attrs.append(at)
    return [x, cols, attrs]


def library_objects():
    """(label, object) made by the library itself"""
    from fgutils.its import ITS
    from fgutils.parse import parse
    out = []
    for s in RSMI:
        out.append(("ITS.from_smiles", ITS.from_smiles(s)))
    for p in PATTERNS:
        out.append(("parse", parse(p)))
    return out


def tensor_of(obj):
    from fgutils.torch import its_to_torch
    return enc_tdata(its_to_torch(obj))


# ---------------------------------------------------------------------------
# case builders
# ---------------------------------------------------------------------------
def idkind(g):
    ids = list(g.nodes)
    n = len(ids)
    if ids == list(range(n)):
        return "ids=0..n-1"
    if ids == list(range(1, n + 1)):
        return "ids=1..n"
    if sorted(ids) == list(range(n)):
        return "ids=shuffled"
    return "ids=sparse"


# its_to_torch only READS the graph: it may be frozen, a sub-graph view of a larger graph, carry irrelevant extra
# attributes, have list instead of tuple labels, or numpy ids / numpy half orders
VARIANT_KINDS = ("extra_attrs", "numpy", "frozen", "view", "list_labels")
FORM_SHARE = 0.12


def as_variant(obj, rng, kinds=VARIANT_KINDS):
    """the graph of `obj` in another FORM (common.input_variant) -> (graph, tag); the request is that of the plain graph"""
    g = as_graph(obj)
    v, form = input_variant(g, rng, kinds)
    if sx(enc_its(v)) != sx(enc_its(g)):
        raise AssertionError("input_variant changed the wire form (harness defect)")
    return v, form


def case_roundtrip(obj, tf, origin, form_rng=None, form_kinds=VARIANT_KINDS):
    g = as_graph(obj)
    form = None
    if form_rng is not None:
        obj, form = as_variant(obj, form_rng, form_kinds)
    out = call_impl(impl_roundtrip, obj, tf)
    e = enc_its(g)
    dom = g.number_of_edges() >= 1
    return Case([Atom("C18"), Atom("roundtrip"), tf, e], out, in_domain=dom,
                meta={"origin": origin, "tf": tf, "variant": form}, nontrivial_key=("rt", tf, sx(e), form) if dom else None,
                tags=("roundtrip", "tf=%d" % tf, origin, idkind(g)) + (("input_form", form) if form else ()))


def case_batch(objs, tf, origin, form_rng=None):
    e = [enc_its(o) for o in objs]
    forms = None
    if form_rng is not None:
        vs = [as_variant(o, form_rng) for o in objs]
        objs, forms = [v for v, _ in vs], [f for _, f in vs]
    out = call_impl(impl_batch, objs, tf)
    return Case([Atom("C18"), Atom("batch"), tf, e], out, meta={"origin": origin, "tf": tf, "k": len(objs), "variant": forms},
                nontrivial_key=("b", tf, sx(e), tuple(forms or ())),
                tags=("batch", "tf=%d" % tf, "batch_k=%d" % len(objs), origin) + (("input_form",) + tuple(sorted(set(forms))) if forms else ()))


def small_subsets(rng, items, limit):
    subs = [list(c) for k in range(1, len(items) + 1) for c in itertools.combinations(items, k)]
    if len(subs) > limit:
        subs = rng.sample(subs, limit)
    return subs


def cases_induced(rng, obj, tf, origin, limit=40):
    g = as_graph(obj)
    e = enc_its(g)
    cases = []
    m = g.number_of_edges()
    for E in small_subsets(rng, list(range(m)), limit):
        if rng.random() < 0.3:
            rng.shuffle(E)
        out = call_impl(impl_edgeind, obj, E, tf, rng.random() < 0.5)
        cases.append(Case([Atom("C18"), Atom("edgeind"), tf, e, E], out, meta={"origin": origin},
                          nontrivial_key=("ei", tf, sx(e), tuple(E)),
                          tags=("edge_induced", "tf=%d" % tf, origin, "subset=%s" % ("all" if len(E) == m else "proper"))))
    nodes = list(g.nodes)
    for S in small_subsets(rng, nodes, limit):
        if not any(g.has_edge(a, b) for a in S for b in S):
            continue
        if rng.random() < 0.4:
            rng.shuffle(S)
        out = call_impl(impl_nodeind, obj, S, tf)
        cases.append(Case([Atom("C18"), Atom("nodeind"), tf, e, S], out, meta={"origin": origin},
                          nontrivial_key=("ni", tf, sx(e), tuple(S)),
                          tags=("node_induced", "tf=%d" % tf, origin,
                                "order=%s" % ("graph" if S == [x for x in nodes if x in S] else "permuted"))))
    return cases


def cases_prune(rng, td, origin, radii=(0, 1, 2, 3, 4), all_singles=True, n_sets=4):
    n = len(td[0])
    cases = []
    starts = [[i] for i in range(n)] if all_singles else [[rng.randrange(n)]]
    for _ in range(n_sets):
        k = rng.randint(1, max(1, min(n, 4)))
        starts.append(rng.sample(range(n), k))
    if rng.random() < 0.3:
        s = rng.choice(starts)
        starts.append(s + s[:1])          # a start node listed twice
    for S in starts:
        rs = list(radii)
        if rng.random() < 0.08:
            # radii far beyond the diameter: float32 walk counts would overflow (inf, nan) if the
            # implementation accumulated them; the property speaks of all radii
            rs.append(rng.choice([40, 110, 130, 300]))
        for r in rs:
            out = call_impl(impl_prune, td, S, r)
            cases.append(Case([Atom("C18"), Atom("prune"), td, S, r], out, meta={"origin": origin},
                              nontrivial_key=("p", sx(td), tuple(S), r),
                              tags=("prune", "radius=%d" % r, "starts=%s" % ("single" if len(S) == 1 else "set"), origin)))
    return cases


def has_rc(td):
    return any(a[0] != a[1] for a in td[2])


def cases_prune_rc(td, origin, radii=(0, 1, 2, 3, 4)):
    cases = []
    if not has_rc(td) or any(len(a) != 2 for a in td[2]):
        return cases
    for r in radii:
        out = call_impl(impl_prune_rc, td, r)
        cases.append(Case([Atom("C18"), Atom("prunerc"), td, r], out, meta={"origin": origin},
                          nontrivial_key=("prc", sx(td), r), tags=("prune_rc", "radius=%d" % r, origin)))
    return cases


def float32_probe(r):
    """dense, high radius: walk counts overflow float32 in the real prune (inf * 0 = nan).  Not
    modelled (the model counts in unbounded Nat); reported only, never decides the verdict."""
    n, rad = 24, 40
    x = [[6]] * n
    cols = [[a, b] for a in range(n) for b in range(n) if a != b]
    attrs = [[2, 2]] * len(cols)
    td = [x, cols, attrs]
    out = call_impl(impl_prune, td, [0], rad)
    kept = None if isinstance(out, ImplError) else len(out[0])
    r.notes["float32_saturation_probe"] = {
        "graph": "K_%d" % n, "radius": rad, "rows_kept_by_real_prune": kept, "rows_within_radius": n,
        "note": "before the repair 756ce97 float32 walk counts overflowed to inf and inf*0 = nan in torch.matmul (0 rows kept); the model counts in Nat"}
    r.extra_cov["float32_saturation_probe"] = r.notes["float32_saturation_probe"]
    # in domain since the repair 756ce97 (powers clamped to 0/1): "all start sets and radii"
    return Case([Atom("C18"), Atom("prune"), td, [0], rad], out, in_domain=True,
                meta={"origin": "float32-probe"}, tags=("probe_float32_dense_high_radius",),
                nontrivial_key=("p", "K24", 0, rad))


def element_sweep(r):
    """one two-atom ITS per element of the REFERENCE table (from the driver): the periodic-table
    clause of the statement on implementation outputs — this is the search that names the element
    when the regenerated table no longer equals the reference"""
    rep = r.get_driver().ask(sx([Atom("C18"), Atom("reftable")]))
    syms = [a[2:] for a in rep[1]]
    cases = []
    for k, s in enumerate(syms):
        g = nx.Graph()
        g.add_node(7, symbol=s)
        g.add_node(3, symbol="C")
        g.add_edge(7, 3, bond=(1, 2))
        c = case_roundtrip(g, 0, "element-sweep")
        c.meta["element"] = s
        c.meta["Z_reference"] = k + 1
        cases.append(c)
    return cases, syms


def table_diff(syms):
    """cell-by-cell comparison of the code's tables with the reference (for the evidence/replay)"""
    from fgutils.chem.ps import atomic_sym2num, atomic_num2sym
    bad = []
    for k, s in enumerate(syms):
        z = k + 1
        if atomic_sym2num.get(s) != z:
            bad.append({"symbol": s, "reference_Z": z, "atomic_sym2num": atomic_sym2num.get(s)})
        elif atomic_num2sym.get(z) != s:
            bad.append({"symbol": s, "reference_Z": z, "atomic_num2sym": atomic_num2sym.get(z)})
    extra = [s for s in atomic_sym2num if s not in syms]
    return bad, extra


def corpus_cases(rng):
    """corpus/C18/*.json -> cases (run first)"""
    import glob
    import json
    from fgutils.its import ITS
    from fgutils.parse import parse
    from common import CORPUS_DIR
    cases = []
    for path in sorted(glob.glob(os.path.join(CORPUS_DIR, "C18", "*.json"))):
        for c in json.load(open(path))["cases"]:
            def obj_of(c):
                if "rsmi" in c:
                    return ITS.from_smiles(c["rsmi"])
                if "pattern" in c:
                    return parse(c["pattern"])
                g = nx.Graph()
                for i, s in c["graph"]["nodes"]:
                    g.add_node(i, symbol=s)
                for u, v, a, b in c["graph"]["edges"]:
                    g.add_edge(u, v, bond=(a, b))
                return g
            op = c["op"]
            if op == "roundtrip":
                k = case_roundtrip(obj_of(c), c["tf"], "corpus")
            elif op == "batch":
                k = case_batch([parse(p) for p in c["patterns"]], c["tf"], "corpus")
            elif op == "prune":
                td = tensor_of(obj_of(c))
                out = call_impl(impl_prune, td, c["starts"], c["radius"])
                k = Case([Atom("C18"), Atom("prune"), td, c["starts"], c["radius"]], out, meta={"origin": "corpus"},
                         nontrivial_key=("p", sx(td), tuple(c["starts"]), c["radius"]),
                         tags=("prune", "corpus", "radius=%d" % c["radius"],
                               "starts=%s" % ("single" if len(c["starts"]) == 1 else "set")))
            elif op == "edgeind":
                o = obj_of(c)
                out = call_impl(impl_edgeind, o, c["edges"], c["tf"])
                k = Case([Atom("C18"), Atom("edgeind"), c["tf"], enc_its(o), c["edges"]], out, meta={"origin": "corpus"},
                         nontrivial_key=("ei", c["tf"], sx(enc_its(o)), tuple(c["edges"])), tags=("edge_induced", "corpus"))
            elif op == "nodeind":
                o = obj_of(c)
                out = call_impl(impl_nodeind, o, c["nodes"], c["tf"])
                k = Case([Atom("C18"), Atom("nodeind"), c["tf"], enc_its(o), c["nodes"]], out, meta={"origin": "corpus"},
                         nontrivial_key=("ni", c["tf"], sx(enc_its(o)), tuple(c["nodes"])), tags=("node_induced", "corpus"))
            else:
                raise ValueError("unknown corpus op %r" % op)
            k.meta["what"] = c.get("what")
            cases.append(k)
    return cases


# ---------------------------------------------------------------------------
def run(tier, seed):
    r = Run("C18", tier, seed)
    if not prepare(r, PROOFS, "C18"):
        return 2
    rng = r.rng
    quick = tier == "quick"
    cases = []

    # --- corpus: the witnesses of DESIGN §7 F11 and the §10 mutants -------------------------
    cases += corpus_cases(rng)
    lib = library_objects()
    for origin, obj in lib:                                   # ids from 1: F11a
        for tf in (0, 1, 2):
            cases.append(case_roundtrip(obj, tf, origin))
    for i, (origin, obj) in enumerate(lib):                   # every library object once in every other input form
        for j, kind in enumerate(VARIANT_KINDS):
            cases.append(case_roundtrip(obj, (i + j) % 3, origin, form_rng=rng, form_kinds=(kind,)))
    objs = [o for _, o in lib]
    for k in range(1, 7):                                     # F11b (transforms), m29 (k >= 3)
        for tf in (0, 1, 2):
            cases.append(case_batch(objs[:k], tf, "library"))
            cases.append(case_batch([objs[(3 * j + k) % len(objs)] for j in range(k)], tf, "library"))
    sweep, syms = element_sweep(r)                            # m30
    cases += sweep
    bad, extra = table_diff(syms)
    for c in sweep:                                           # name the disagreeing cell in the replay
        for b in bad:
            if b["symbol"] == c.meta["element"]:
                c.meta["periodic_table_cell"] = b
    r.extra_cov["periodic_table_cells_disagreeing_with_reference"] = bad
    r.extra_cov["symbols_not_in_reference"] = extra
    for origin, obj in lib[:4] + lib[len(RSMI):len(RSMI) + 4]:  # F11c: lone start nodes, r >= 1
        td = call_impl(tensor_of, obj)
        if isinstance(td, ImplError):
            continue
        cases += cases_prune(rng, td, origin, n_sets=2)
        cases += cases_prune_rc(td, origin)
    for origin, obj in lib:
        if as_graph(obj).number_of_edges() <= 5:
            cases += cases_induced(rng, obj, 0, origin, limit=64)
    cases.append(float32_probe(r))
    outs = r.evaluate(cases)
    if bad and r.build is not None and not r.build.proofs_ok:
        # the table obligation C18.periodic_table no longer builds: name the element and replay an
        # ITS that carries it (its node feature disagrees with the reference periodic table)
        for o in outs:
            if o.case.meta.get("periodic_table_cell") and o.spec_fail:
                payload = r.outcome_payload(o)
                payload["theorem_or_correspondence"] = ["C18.periodic_table (lake build FGVerif.Proofs.C18 failed)"]
                payload["periodic_table_cell"] = o.case.meta["periodic_table_cell"]
                path = r.write_replay("failing-input", "periodic_table_" + o.case.meta["element"], payload)
                r.violation_lines.append("VIOLATION property=C18 replay=%s" % path)
                break
    cases = []

    # --- ITSDataset --------------------------------------------------------------------------
    from fgutils.torch import ITSDataset
    for tf in (0, 1, 2):
        sel = [objs[rng.randrange(len(objs))] for _ in range(rng.randint(1, 6))]
        ds = call_impl(ITSDataset, sel, list(range(len(sel))), [10 + i for i in range(len(sel))], _nf(tf), _ef(tf))
        for i, o in enumerate(sel):
            e = enc_its(o)
            out = ds if isinstance(ds, ImplError) else call_impl(impl_dataset_member, ds, i, tf)
            cases.append(Case([Atom("C18"), Atom("roundtrip"), tf, e], out, meta={"origin": "ITSDataset", "tf": tf},
                              nontrivial_key=("ds", tf, sx(e)), tags=("roundtrip", "ITSDataset", "tf=%d" % tf)))
        out = ds if isinstance(ds, ImplError) else call_impl(impl_dataset_batch, ds, tf)
        cases.append(Case([Atom("C18"), Atom("batch"), tf, [enc_its(o) for o in sel]], out,
                          meta={"origin": "ITSDataset", "tf": tf, "k": len(sel)},
                          nontrivial_key=("dsb", tf, len(sel), sx(enc_its(sel[0]))),
                          tags=("batch", "ITSDataset", "tf=%d" % tf, "batch_k=%d" % len(sel))))

    # --- generated ---------------------------------------------------------------------------
    from fgutils.parse import parse
    n_rt = 600 if quick else 20000
    n_batch = 250 if quick else 8000
    n_ind = 50 if quick else 2000
    n_prune = 50 if quick else 2000
    n_raw = 300 if quick else 10000
    pool = []
    for k in range(n_rt):
        tf = rng.choice([0, 0, 1, 2])
        if k % 5 == 0:
            p = rand_pattern(rng)
            obj = call_impl(parse, p)
            if isinstance(obj, ImplError):
                continue
            origin = "parse-random"
        else:
            big = (not quick) and k % 50 == 1
            obj = rand_graph(rng, n=rng.randint(10, 40) if big else None,
                             symbols=syms if k % 7 == 0 else COMMON)
            origin = "random-graph"
        pool.append(obj)
        # the FORM of the input (12%): extra attributes / numpy ids and half orders / frozen / view / list labels
        cases.append(case_roundtrip(obj, tf, origin, form_rng=rng if rng.random() < FORM_SHARE else None))
    for k in range(n_batch):
        tf = rng.choice([0, 1, 1, 2])
        size = rng.randint(1, 6)
        members = [rng.choice(pool) if rng.random() < 0.7 else rng.choice(objs) for _ in range(size)]
        members = [m for m in members if as_graph(m).number_of_edges() >= 1] or [objs[0]]
        cases.append(case_batch(members, tf, "generated", form_rng=rng if rng.random() < FORM_SHARE else None))
    for k in range(n_ind):
        obj = rand_graph(rng, n=rng.randint(2, 5), extra=rng.randint(0, 2))
        cases += cases_induced(rng, obj, rng.choice([0, 0, 1, 2]), "random-graph", limit=31 if quick else 64)
    for k in range(n_prune):
        obj = rand_graph(rng, n=rng.randint(2, 10), half=rng.random() < 0.5)
        td = call_impl(tensor_of, obj)
        if isinstance(td, ImplError):
            continue
        cases += cases_prune(rng, td, "its_to_torch(random-graph)", all_singles=(k % 3 == 0), n_sets=2)
        cases += cases_prune_rc(td, "its_to_torch(random-graph)")
    for k in range(n_raw):
        td = rand_tensor(rng)
        n = len(td[0])
        # raw tensor graphs: directed, parallel columns, isolated rows
        S = rng.sample(range(n), rng.randint(1, min(n, 3)))
        rad = rng.randint(0, 4)
        out = call_impl(impl_prune, td, S, rad)
        cases.append(Case([Atom("C18"), Atom("prune"), td, S, rad], out, meta={"origin": "raw"},
                          nontrivial_key=("p", sx(td), tuple(S), rad),
                          tags=("prune", "radius=%d" % rad, "raw-tensor", "starts=%s" % ("single" if len(S) == 1 else "set"))))
        if k % 3 == 0 and all([b, a] in td[1] for a, b in td[1]):
            # prune_rc only on symmetric tensors (the form ITS graphs have): which end of a column
            # names the reaction-centre node is not observable there
            cases += cases_prune_rc(td, "raw-tensor", radii=(rng.randint(0, 4),))
        m = len(td[1])
        if m >= 1:
            E = [rng.randrange(m) for _ in range(rng.randint(1, min(m, 5)))]
            if rng.random() < 0.6:
                E = sorted(set(E))
            out = call_impl(impl_edgeind_t, td, E)
            cases.append(Case([Atom("C18"), Atom("edgeind_t"), td, E], out, meta={"origin": "raw"},
                              nontrivial_key=("eit", sx(td), tuple(E)), tags=("edge_induced", "raw-tensor")))
            nodes = rng.sample(range(n), rng.randint(2, n))
            if any(a in nodes and b in nodes for a, b in td[1]):
                out = call_impl(impl_nodeind_t, td, nodes)
                cases.append(Case([Atom("C18"), Atom("nodeind_t"), td, nodes], out, meta={"origin": "raw"},
                                  nontrivial_key=("nit", sx(td), tuple(nodes)), tags=("node_induced", "raw-tensor")))
        if k % 4 == 0:
            # raw batches: concatenate 1-6 symmetric raw tensors by hand and convert back
            parts = [rand_tensor(rng, n=rng.randint(2, 5), symmetric=True) for _ in range(rng.randint(1, 6))]
            x, cols, attrs, bv, off = [], [], [], [], 0
            for j, p in enumerate(parts):
                x += p[0]
                cols += [[a + off, b + off] for a, b in p[1]]
                attrs += p[2]
                bv += [j] * len(p[0])
                off += len(p[0])
            out = call_impl(impl_frombatch, [x, cols, attrs], bv, 0)
            cases.append(Case([Atom("C18"), Atom("frombatch"), 0, [x, cols, attrs], bv], out, meta={"origin": "raw"},
                              nontrivial_key=("fb", sx(cols), tuple(bv)),
                              tags=("from_batch", "raw-tensor", "batch_k=%d" % len(parts))))
    r.evaluate(cases)

    if os.environ.get("VERIF_DEBUG"):
        for o in r.spec_failures[:40]:
            print("SPEC", o.case.line()[:400], "| model", sx_of(o.model)[:200])
        for o in r.corr_failures[:40]:
            print("CORR", o.case.line()[:400], "| model", sx_of(o.model)[:300])
        for o in r.driver_errors[:10]:
            print("DRV", o.case.line()[:300], o.reply)
    r.assumptions = [
        "torch tensors are modelled as lists; values enter through .tolist() (bond orders doubled on the wire)",
        "Batch.from_data_list is assumed to concatenate x / edge_attr, shift edge_index by the running node count and "
        "emit the batch vector (C18.batchOf); exercised on every batch case",
        "networkx node / edge iteration order of the input graph is carried by the request; add_edge semantics of "
        "_build_its are modelled (C18.NxG.addEdge)",
        "the model counts walks in unbounded Nat; since the repair 756ce97 the implementation clamps each adjacency power to 0/1, so dense high-radius cases are in domain (K24 at radius 40 and "
        "radii 40-300 on generated graphs)",
        "custom feature transforms are exercised through three fixed families (C18.nfOf/efOf/nftOf and their Python "
        "mirrors in harness/c18.py); the theorems quantify over all transforms",
    ]
    return r.finish(
        level="proof",
        rule="library ITS objects (ITS.from_smiles, ids from 1), parsed ITS patterns, random element graphs (2-40 nodes; ids "
             "0..n-1 / 1..n / shuffled / sparse; None, 0, 1, 1.5, 2, 3 orders), one graph per element of the reference table; "
             "x transforms {default, 2 custom}; batches of 1-6; ITSDataset; 12% of the generated round-trip / batch inputs and every library object "
             "handed to its_to_torch in another FORM (extra attributes, numpy ids / half orders, nx.freeze, sub-graph view, list labels; tags variant=*); every edge subset / edge-inducing node subset of "
             "small graphs; prune from every single node and random start sets, radii 0-4, on converted and raw (directed, "
             "parallel-column) tensors; prune_rc; non-trivial = distinct (operation, input) with >= 1 edge",
        checker_cmd="cd lean && lake build FGVerif.Proofs.C18 && lake env lean FGVerif/Audit/C18.lean",
        explanation="theorems in lean/FGVerif/Proofs/C18.lean (+C18Reach.lean) about Model/C18.lean; model tied to fgutils.torch by "
                    "differential testing of real tensors; executable specs (round-trip isomorphism, reference periodic table, "
                    "tensor form of the induced subgraph, BFS ball for prune) applied to every implementation output")


# ---------------------------------------------------------------------------
# replay: re-run the request of a replay file against the current tree and the driver
# ---------------------------------------------------------------------------
def _dec_str(a):
    if a == "_":
        return None
    if a.startswith("s:"):
        return a[2:]
    if a.startswith("h:"):
        return bytes.fromhex(a[2:]).decode("utf-8")
    raise ValueError(a)


def _dec_half(a):
    if a == "_":
        return None
    v = int(a)
    return v // 2 if v % 2 == 0 else v / 2


def dec_its(x):
    g = nx.Graph()
    for i, s in x[0]:
        g.add_node(int(i), symbol=_dec_str(s))
    for u, v, a, b in x[1]:
        g.add_edge(int(u), int(v), bond=(_dec_half(a), _dec_half(b)))
    return g


def dec_td(x):
    return [[[int(v) for v in row] for row in x[0]], [[int(a), int(b)] for a, b in x[1]],
            [[int(v) for v in row] for row in x[2]]]


def replay(path):
    import json
    from common import parse_sx
    d = json.load(open(path))
    req = parse_sx(d["request_line"])
    op = req[1]
    r = Run("C18", "replay", d.get("seed", 0))
    if not prepare(r, PROOFS, "C18"):
        return 2
    ints = lambda l: [int(v) for v in l]
    form = (d.get("meta") or {}).get("variant")
    if op == "roundtrip" and isinstance(form, str) and form != "variant=plain":
        import random
        print("REPLAY re-applying the recorded input form: %s" % form)
        c = case_roundtrip(dec_its(req[3]), int(req[2]), "replay", form_rng=random.Random(d.get("seed", 0)),
                           form_kinds=(form.split("=")[1],))
    elif op == "roundtrip":
        c = case_roundtrip(dec_its(req[3]), int(req[2]), "replay")
    elif op == "batch":
        c = case_batch([dec_its(x) for x in req[3]], int(req[2]), "replay")
    elif op == "frombatch":
        td, bv = dec_td(req[3]), ints(req[4])
        c = Case([Atom("C18"), Atom("frombatch"), int(req[2]), td, bv], call_impl(impl_frombatch, td, bv, int(req[2])))
    elif op == "nodeind":
        g, S = dec_its(req[3]), ints(req[4])
        c = Case([Atom("C18"), Atom("nodeind"), int(req[2]), enc_its(g), S], call_impl(impl_nodeind, g, S, int(req[2])))
    elif op == "edgeind":
        g, E = dec_its(req[3]), ints(req[4])
        c = Case([Atom("C18"), Atom("edgeind"), int(req[2]), enc_its(g), E], call_impl(impl_edgeind, g, E, int(req[2])))
    elif op == "nodeind_t":
        td, ns = dec_td(req[2]), ints(req[3])
        c = Case([Atom("C18"), Atom("nodeind_t"), td, ns], call_impl(impl_nodeind_t, td, ns))
    elif op == "edgeind_t":
        td, es = dec_td(req[2]), ints(req[3])
        c = Case([Atom("C18"), Atom("edgeind_t"), td, es], call_impl(impl_edgeind_t, td, es))
    elif op == "prune":
        td, ss, rad = dec_td(req[2]), ints(req[3]), int(req[4])
        c = Case([Atom("C18"), Atom("prune"), td, ss, rad], call_impl(impl_prune, td, ss, rad))
    elif op == "prunerc":
        td, rad = dec_td(req[2]), int(req[3])
        c = Case([Atom("C18"), Atom("prunerc"), td, rad], call_impl(impl_prune_rc, td, rad))
    else:
        print("ERROR property=C18 cannot replay operation %r" % op)
        return 2
    o = r.evaluate([c])[0]
    print("REPLAY property=C18 request=%s" % c.line()[:300])
    print("REPLAY impl_output=%s" % sx_of(o.impl_c)[:300])
    print("REPLAY model_output=%s spec_impl=%s correspondence=%s" % (sx_of(o.model)[:300], o.spec_impl, "ok" if o.corr else "differs"))
    if r.driver is not None:
        r.driver.close()
    if o.driver_error:
        return 2
    return 1 if (o.spec_fail or not o.corr) else 0
