"""C18 — tensor conversion round trips; tensor graph operators match their graph meaning.

Correspondence (model vs. fgutils.torch) + the executable specification applied to the
implementation's outputs.  torch / torch_geometric are runtime: real tensors are produced by the
library and travel as lists (`.tolist()`); bond orders are doubled on the wire.
"""
import itertools
import os
import warnings

import networkx as nx

from common import Atom, Case, Run, call_impl, prepare, ImplError, dbl, sx, sx_of, input_variant

warnings.filterwarnings("ignore")

PROOFS = ["FGVerif.Proofs.C18"]

# ---------------------------------------------------------------------------
# the three transform families (mirrors of C18.nfOf / efOf / nftOf in Model/C18.lean)
# ---------------------------------------------------------------------------


def _nf(tf):
    from fgutils.chem.ps import atomic_sym2num
    if tf == 1:
        return lambda d: [atomic_sym2num[d["symbol"]] + 100, 7]
    if tf == 2:
        return lambda d: [3, atomic_sym2num[d["symbol"]]]
    return None


def _ef(tf):
    if tf == 1:
        def f(d):
            g, h = d["bond"]
            g = 0 if g is None else g
            h = 0 if h is None else h
            return [h, g, g + h]
        return f
    return None


def _nft(tf):
    from fgutils.chem.ps import atomic_num2sym
    if tf == 1:
        return lambda x: atomic_num2sym[int(x[0]) - 100]
    if tf == 2:
        return lambda x: atomic_num2sym[int(x[1])]
    return None


# ---------------------------------------------------------------------------
# encoders
# ---------------------------------------------------------------------------
def as_graph(obj):
    from fgutils.its import ITS
    return obj.graph if isinstance(obj, ITS) else obj


def enc_its(obj):
    g = as_graph(obj)
    nodes = [[int(n), d.get("symbol")] for n, d in g.nodes(data=True)]
    edges = []
    for u, v, d in g.edges(data=True):
        b = d["bond"]
        edges.append([int(u), int(v), dbl(b[0]), dbl(b[1])])
    return [nodes, edges]


def _ints(rows):
    out = []
    for row in rows:
        r = []
        for v in row:
            if int(v) != v:
                raise ValueError("non-integral feature %r" % (v,))
            r.append(int(v))
        out.append(r)
    return out


def enc_tdata(t):
    """torch_geometric Data -> [x rows, columns, doubled attribute rows]"""
    x = _ints(t.x.tolist()) if t.x.dim() == 2 else [[int(v)] for v in t.x.tolist()]
    ei = t.edge_index
    cols = [] if ei.dim() < 2 else [[int(a), int(b)] for a, b in ei.T.tolist()]
    ea = t.edge_attr
    if ea is None:
        attrs = [[] for _ in cols]      # edge_attr=None: one EMPTY attribute row per column (see is_none_attr)
    elif ea.dim() < 2:
        attrs = []
    else:
        attrs = [[dbl(v) for v in row] for row in ea.tolist()]
    return [x, cols, attrs]


def is_none_attr(td):
    """wire form of a Data object WITHOUT edge attributes (`edge_attr=None`): >= 1 column, one empty row per column.
    The model needs no special case: it carries the (empty) attribute row of every kept column along."""
    return len(td[1]) >= 1 and len(td[2]) == len(td[1]) and all(len(a) == 0 for a in td[2])


def strip_attr(td):
    return [td[0], td[1], [[] for _ in td[1]]]


def _ea_tensor(attrs):
    import torch
    if any(v % 2 for row in attrs for v in row):
        return torch.tensor([[v / 2 for v in row] for row in attrs], dtype=torch.float32)
    return torch.tensor([[v // 2 for v in row] for row in attrs], dtype=torch.long)


def _ei_tensor(cols):
    import torch
    return torch.tensor(cols, dtype=torch.long).T if cols else torch.tensor([]).T


def enc_nxg(G):
    nodes = [[int(n), d.get("symbol")] for n, d in G.nodes(data=True)]
    edges = []
    for u, v, d in G.edges(data=True):
        a, b = (u, v) if u <= v else (v, u)
        edges.append([int(a), int(b), [dbl(x) for x in d["bond"]]])
    edges.sort(key=lambda e: (e[0], e[1]))
    return [nodes, edges]


def mk_data(td):
    """[x, cols, doubled attrs] -> torch_geometric Data (int64 unless a half order occurs)"""
    import torch
    from torch_geometric.data import Data
    x, cols, attrs = td
    xt = torch.tensor(x, dtype=torch.long)
    ei = _ei_tensor(cols)
    ea = None if is_none_attr(td) else _ea_tensor(attrs)
    return Data(x=xt, edge_index=ei, edge_attr=ea)


# ---------------------------------------------------------------------------
# the FORM of the index argument (nodes / edges / start_nodes).  graph.py converts anything that is not a tensor with
# torch.tensor(...) (docstring: "a list of ..."); prune is annotated `start_nodes: torch.Tensor`, documented as "a list"
# and indexes with the argument.  The model does not see the form: the answer must be that of the list form.
# Fixed shares (chosen from r.rng; tag arg_form=*).
# ---------------------------------------------------------------------------
INDEX_FORMS = (("list", 35), ("tensor", 30), ("numpy", 15), ("tuple", 12), ("tensor_int32", 8))
# prune: a TUPLE is neither in the annotation nor in the docstring and is NOT a list of start nodes for tensor indexing
# (D_sum[(0, 1)] is the single entry D_sum[0, 1]): the unmutated library silently answers with row 0 alone.  Generated
# (5%) but out of the verdict (in_domain=False, tag arg_form=tuple:undocumented_for_prune); reported as a finding.
PRUNE_FORMS = (("tensor", 40), ("list", 30), ("numpy", 15), ("tensor_int32", 10), ("tuple", 5))


def pick_form(rng, table=INDEX_FORMS):
    t = rng.random() * sum(w for _, w in table)
    for f, w in table:
        t -= w
        if t < 0:
            return f
    return table[-1][0]


def as_form(vals, form):
    import torch
    vals = [int(v) for v in vals]
    if form == "list":
        return list(vals)
    if form == "tuple":
        return tuple(vals)
    if form == "tensor":
        return torch.tensor(vals, dtype=torch.long)
    if form == "tensor_int32":
        return torch.tensor(vals, dtype=torch.int32)
    if form == "numpy":
        import numpy as np
        return np.array(vals, dtype=np.int64)
    raise ValueError("unknown argument form %r" % (form,))


def form_tags(form, op=None):
    if op == "prune" and form == "tuple":
        return ("arg_form=tuple:undocumented_for_prune",)
    return ("arg_form=%s" % form,)


def form_in_domain(form, op=None):
    return not (op == "prune" and form == "tuple")


# ---------------------------------------------------------------------------
# implementation calls
# ---------------------------------------------------------------------------
def impl_roundtrip(obj, tf):
    from fgutils.torch import its_to_torch, its_from_torch
    t = its_to_torch(obj, node_feature_transform=_nf(tf), edge_feature_transform=_ef(tf))
    G = its_from_torch(t, node_feature_transform=_nft(tf))
    return [enc_tdata(t), enc_nxg(G)]


def impl_dataset_member(ds, i, tf):
    from fgutils.torch import its_from_torch
    t = ds[i]
    G = its_from_torch(t, node_feature_transform=_nft(tf))
    return [enc_tdata(t), enc_nxg(G)]


def impl_batch(objs, tf):
    from fgutils.torch import its_to_torch, its_from_torch
    kw = dict(node_feature_transform=_nf(tf), edge_feature_transform=_ef(tf))
    tb = its_to_torch(list(objs), **kw)
    singles = [its_to_torch(o, **kw) for o in objs]
    Gs = its_from_torch(tb, node_feature_transform=_nft(tf))
    return [enc_tdata(tb), [int(b) for b in tb.batch.tolist()], [enc_tdata(s) for s in singles],
            [enc_nxg(G) for G in Gs]]


def impl_dataset_batch(ds, tf):
    from torch_geometric.data import Batch
    from fgutils.torch import its_from_torch
    singles = [ds[i] for i in range(len(ds))]
    tb = Batch.from_data_list(singles)
    Gs = its_from_torch(tb, node_feature_transform=_nft(tf))
    return [enc_tdata(tb), [int(b) for b in tb.batch.tolist()], [enc_tdata(s) for s in singles],
            [enc_nxg(G) for G in Gs]]


def impl_frombatch(td, bv, tf):
    import torch
    from fgutils.torch import its_from_torch
    d = mk_data(td)
    d.batch = torch.tensor(bv, dtype=torch.long)
    return [enc_nxg(G) for G in its_from_torch(d, node_feature_transform=_nft(tf))]


def impl_nodeind(obj, S, tf, form="list"):
    from fgutils.torch import its_to_torch, node_induced_subgraph
    g = as_graph(obj)
    t = its_to_torch(obj, node_feature_transform=_nf(tf), edge_feature_transform=_ef(tf))
    order = list(g.nodes)
    return enc_tdata(node_induced_subgraph(t, as_form([order.index(s) for s in S], form)))


def impl_edgeind(obj, E, tf, form="list"):
    from fgutils.torch import its_to_torch, edge_induced_subgraph
    t = its_to_torch(obj, node_feature_transform=_nf(tf), edge_feature_transform=_ef(tf))
    cols = [c for k in E for c in (2 * k, 2 * k + 1)]
    return enc_tdata(edge_induced_subgraph(t, as_form(cols, form)))


def impl_nodeind_t(td, nodes, form="list"):
    from fgutils.torch import node_induced_subgraph
    return enc_tdata(node_induced_subgraph(mk_data(td), as_form(nodes, form)))


def impl_edgeind_t(td, cols, form="list"):
    from fgutils.torch import edge_induced_subgraph
    return enc_tdata(edge_induced_subgraph(mk_data(td), as_form(cols, form)))


def impl_prune(td, starts, r, form="tensor"):
    from fgutils.torch import prune
    return enc_tdata(prune(mk_data(td), as_form(starts, form), radius=r))


def impl_prune_rc(td, r):
    from fgutils.torch.utils import prune_rc
    return enc_tdata(prune_rc(mk_data(td), radius=r))


# ---------------------------------------------------------------------------
# generators
# ---------------------------------------------------------------------------
RSMI = [
    "[CH3:1][C:2](=[O:3])[OH:4].[CH3:5][OH:6]>>[CH3:1][C:2](=[O:3])[O:6][CH3:5].[OH2:4]",
    "[CH2:1]=[CH:2][CH:3]=[CH2:4].[CH2:5]=[CH2:6]>>[CH2:1]1[CH:2]=[CH:3][CH2:4][CH2:5][CH2:6]1",
    "[CH3:1][Cl:2].[OH2:3]>>[CH3:1][OH:3].[ClH:2]",
    "[CH3:1][CH:2]=[O:3].[NH2:4][CH3:5]>>[CH3:1][CH:2]=[N:4][CH3:5].[OH2:3]",
    "[CH3:1][S:2][CH3:3].[Br:4][CH3:5]>>[CH3:1][S+:2]([CH3:3])[CH3:5].[Br-:4]",
    "[c:1]1[c:2][c:3][c:4][c:5][c:6]1[Br:7].[OH:8][B:9]([OH:10])[CH3:11]>>[c:1]1[c:2][c:3][c:4][c:5][c:6]1[CH3:11].[Br:7][B:9]([OH:8])[OH:10]",
    "[CH3:1][C:2]#[N:3].[OH2:4]>>[CH3:1][C:2](=[O:4])[NH2:3]",
    "[CH3:3][CH2:2][OH:1]>>[CH2:3]=[CH2:2].[OH2:1]",
    "[Se:1]([CH3:2])[CH3:3].[Br:4][Br:5]>>[Se:1]([CH3:2])([CH3:3])[Br:4].[Br-:5]",
]

PATTERNS = [
    "C<1,2>C", "C<1,2>C<2,1>O", "C1<0,1>C<1,0>C<0,1>C<1,0>1", "C(<1,0>Cl)<0,1>O", "CC(=O)<1,0>O<0,1>C",
    "C<2,1>C<1,2>C<2,1>C", "N<1,2>C(<2,1>O)C", "C:C<1,2>Se<2,1>Br", "C1<2,1>C<1,2>C<2,1>C<0,1>C<2,1>C<0,1>1",
    "S(<1,0>C)(<0,1>C)C", "C#C<1,0>Br", "P<1,2>O.C<0,1>Li",
]

COMMON = ["C", "C", "C", "N", "O", "S", "Cl", "Br", "Se", "H", "P", "F", "Si", "B", "I", "Li", "Mg", "Sn"]
ORDERS = [None, 0, 1, 1, 1, 1.5, 2, 2, 3]


def rand_graph(rng, n=None, symbols=COMMON, ids="any", extra=None, half=True):
    """random connected-ish ITS graph built directly (element symbols, arbitrary ids, >= 1 edge)"""
    n = n or rng.randint(2, 9)
    mode = rng.choice(["zero", "one", "shuffled", "sparse"]) if ids == "any" else ids
    if mode == "zero":
        idl = list(range(n))
    elif mode == "one":
        idl = list(range(1, n + 1))
    elif mode == "shuffled":
        idl = list(range(n))
        rng.shuffle(idl)
    else:
        idl = rng.sample(range(0, 4 * n + 5), n)
    g = nx.Graph()
    for i in idl:
        g.add_node(i, symbol=rng.choice(symbols))
    orders = ORDERS if half else [o for o in ORDERS if o != 1.5]
    pairs = []
    comp = rng.random() < 0.2
    for k in range(1, n):
        if comp and k == n // 2 and n >= 4:
            continue  # two components
        pairs.append((idl[k], idl[rng.randrange(0, k)]))
    m_extra = rng.randint(0, 3) if extra is None else extra
    for _ in range(m_extra):
        a, b = rng.sample(idl, 2)
        pairs.append((a, b))
    rng.shuffle(pairs)
    for a, b in pairs:
        if rng.random() < 0.5:
            a, b = b, a
        if not g.has_edge(a, b):
            g.add_edge(a, b, bond=(rng.choice(orders), rng.choice(orders)))
    return g


def rand_pattern(rng):
    atoms = ["C", "C", "C", "N", "O", "S", "Cl", "Br", "Se", "P", "F", "B", "I", "Si", "Li", "Mg"]
    bonds = ["<1,2>", "<2,1>", "<0,1>", "<1,0>", "", "=", "#", "<1,1>", "<2,3>", ":"]
    n = rng.randint(2, 8)
    s = rng.choice(atoms)
    depth = 0
    for k in range(n - 1):
        b = rng.choice(bonds[:4]) if k == 0 else rng.choice(bonds)   # >= 1 RC bond: ITS mode
        if rng.random() < 0.25:
            s += "(" + b + rng.choice(atoms) + ")"
        else:
            s += b + rng.choice(atoms)
    return s


def rand_tensor(rng, n=None, symmetric=None):
    """raw tensor graph (possibly directed, with parallel columns)"""
    n = n or rng.randint(2, 8)
    symmetric = rng.random() < 0.5 if symmetric is None else symmetric
    x = [[rng.choice([1, 6, 7, 8, 16, 17, 34, 35])] for _ in range(n)]
    cols, attrs = [], []
    m = rng.randint(1, 2 * n)
    for _ in range(m):
        if n < 2:
            break
        a, b = rng.sample(range(n), 2)
        at = [rng.choice([0, 2, 2, 3, 4, 6]), rng.choice([0, 2, 2, 3, 4, 6])]
        cols.append([a, b])
        attrs.append(at)
        if symmetric:
            cols.append([b, a])
            attrs.append(at)
        elif rng.random() < 0.15:
            cols.append([a, b])          # parallel column
            attrs.append(at)
    return [x, cols, attrs]


def library_objects():
    """(label, object) made by the library itself"""
    from fgutils.its import ITS
    from fgutils.parse import parse
    out = []
    for s in RSMI:
        out.append(("ITS.from_smiles", ITS.from_smiles(s)))
    for p in PATTERNS:
        out.append(("parse", parse(p)))
    return out


def tensor_of(obj):
    from fgutils.torch import its_to_torch
    return enc_tdata(its_to_torch(obj))


# ---------------------------------------------------------------------------
# case builders
# ---------------------------------------------------------------------------
def idkind(g):
    ids = list(g.nodes)
    n = len(ids)
    if ids == list(range(n)):
        return "ids=0..n-1"
    if ids == list(range(1, n + 1)):
        return "ids=1..n"
    if sorted(ids) == list(range(n)):
        return "ids=shuffled"
    return "ids=sparse"


# its_to_torch only READS the graph: it may be frozen, a sub-graph view of a larger graph, carry irrelevant extra
# attributes, have list instead of tuple labels, or numpy ids / numpy half orders
VARIANT_KINDS = ("extra_attrs", "numpy", "frozen", "view", "list_labels")
FORM_SHARE = 0.12


def as_variant(obj, rng, kinds=VARIANT_KINDS):
    """the graph of `obj` in another FORM (common.input_variant) -> (graph, tag); the request is that of the plain graph"""
    g = as_graph(obj)
    v, form = input_variant(g, rng, kinds)
    if sx(enc_its(v)) != sx(enc_its(g)):
        raise AssertionError("input_variant changed the wire form (harness defect)")
    return v, form


def case_roundtrip(obj, tf, origin, form_rng=None, form_kinds=VARIANT_KINDS):
    g = as_graph(obj)
    form = None
    if form_rng is not None:
        obj, form = as_variant(obj, form_rng, form_kinds)
    out = call_impl(impl_roundtrip, obj, tf)
    e = enc_its(g)
    dom = g.number_of_edges() >= 1
    return Case([Atom("C18"), Atom("roundtrip"), tf, e], out, in_domain=dom,
                meta={"origin": origin, "tf": tf, "variant": form}, nontrivial_key=("rt", tf, sx(e), form) if dom else None,
                tags=("roundtrip", "tf=%d" % tf, origin, idkind(g)) + (("input_form", form) if form else ()))


def case_batch(objs, tf, origin, form_rng=None):
    e = [enc_its(o) for o in objs]
    forms = None
    if form_rng is not None:
        vs = [as_variant(o, form_rng) for o in objs]
        objs, forms = [v for v, _ in vs], [f for _, f in vs]
    out = call_impl(impl_batch, objs, tf)
    return Case([Atom("C18"), Atom("batch"), tf, e], out, meta={"origin": origin, "tf": tf, "k": len(objs), "variant": forms},
                nontrivial_key=("b", tf, sx(e), tuple(forms or ())),
                tags=("batch", "tf=%d" % tf, "batch_k=%d" % len(objs), origin) + (("input_form",) + tuple(sorted(set(forms))) if forms else ()))


def size_tag(n):
    return "nodes=%s" % ("<10" if n < 10 else "10-60" if n <= 60 else ">60")


def none_tag(td):
    return ("edge_attr=None",) if is_none_attr(td) else ()


def case_prune(td, S, r, form, origin, tags=(), meta=None):
    out = call_impl(impl_prune, td, S, r, form)
    return Case([Atom("C18"), Atom("prune"), td, S, r], out, in_domain=form_in_domain(form, "prune"),
                meta=dict(meta or {}, origin=origin, arg_form=form),
                nontrivial_key=("p", sx(td), tuple(S), r, form),
                tags=("prune", "radius=%s" % (r if r <= 6 else ">6"), "starts=%s" % ("single" if len(S) == 1 else "set"), origin,
                      size_tag(len(td[0]))) + form_tags(form, "prune") + none_tag(td) + tuple(tags))


def case_nodeind_t(td, nodes, form, origin, tags=()):
    out = call_impl(impl_nodeind_t, td, nodes, form)
    return Case([Atom("C18"), Atom("nodeind_t"), td, nodes], out, meta={"origin": origin, "arg_form": form},
                nontrivial_key=("nit", sx(td), tuple(nodes), form),
                tags=("node_induced", origin, size_tag(len(td[0]))) + form_tags(form) + none_tag(td) + tuple(tags))


def case_edgeind_t(td, E, form, origin, tags=()):
    out = call_impl(impl_edgeind_t, td, E, form)
    return Case([Atom("C18"), Atom("edgeind_t"), td, E], out, meta={"origin": origin, "arg_form": form},
                nontrivial_key=("eit", sx(td), tuple(E), form),
                tags=("edge_induced", origin, size_tag(len(td[0]))) + form_tags(form) + none_tag(td) + tuple(tags))


def case_nodeind(obj, S, tf, form, origin, tags=()):
    g = as_graph(obj)
    e = enc_its(g)
    out = call_impl(impl_nodeind, obj, S, tf, form)
    nodes = list(g.nodes)
    return Case([Atom("C18"), Atom("nodeind"), tf, e, S], out, meta={"origin": origin, "arg_form": form},
                nontrivial_key=("ni", tf, sx(e), tuple(S), form),
                tags=("node_induced", "tf=%d" % tf, origin, size_tag(len(nodes)),
                      "order=%s" % ("graph" if S == [x for x in nodes if x in set(S)] else "permuted")) + form_tags(form) + tuple(tags))


def case_edgeind(obj, E, tf, form, origin, tags=()):
    g = as_graph(obj)
    e = enc_its(g)
    out = call_impl(impl_edgeind, obj, E, tf, form)
    return Case([Atom("C18"), Atom("edgeind"), tf, e, E], out, meta={"origin": origin, "arg_form": form},
                nontrivial_key=("ei", tf, sx(e), tuple(E), form),
                tags=("edge_induced", "tf=%d" % tf, origin, size_tag(g.number_of_nodes()),
                      "subset=%s" % ("all" if len(set(E)) == g.number_of_edges() else "proper")) + form_tags(form) + tuple(tags))


def small_subsets(rng, items, limit):
    subs = [list(c) for k in range(1, len(items) + 1) for c in itertools.combinations(items, k)]
    if len(subs) > limit:
        subs = rng.sample(subs, limit)
    return subs


def cases_induced(rng, obj, tf, origin, limit=40):
    g = as_graph(obj)
    e = enc_its(g)
    cases = []
    m = g.number_of_edges()
    for E in small_subsets(rng, list(range(m)), limit):
        if rng.random() < 0.3:
            rng.shuffle(E)
        cases.append(case_edgeind(obj, E, tf, pick_form(rng), origin))
    nodes = list(g.nodes)
    for S in small_subsets(rng, nodes, limit):
        if not any(g.has_edge(a, b) for a in S for b in S):
            continue
        if rng.random() < 0.4:
            rng.shuffle(S)
        cases.append(case_nodeind(obj, S, tf, pick_form(rng), origin))
    return cases


def cases_induced_big(rng, obj, tf, origin, k=2):
    """graphs too large for all subsets: `k` random node subsets that induce >= 1 edge and `k` random edge subsets"""
    g = as_graph(obj)
    nodes, m = list(g.nodes), g.number_of_edges()
    cases = []
    for _ in range(k):
        E = rng.sample(range(m), rng.randint(1, m))
        if rng.random() < 0.5:
            E.sort()
        cases.append(case_edgeind(obj, E, tf, pick_form(rng), origin))
        u, v = rng.choice(list(g.edges))
        S = set(rng.sample(nodes, rng.randint(2, len(nodes)))) | {u, v}
        S = [x for x in nodes if x in S]
        if rng.random() < 0.5:
            rng.shuffle(S)
        cases.append(case_nodeind(obj, S, tf, pick_form(rng), origin))
    return cases


NONE_SHARE = 0.15


def cases_prune(rng, td, origin, radii=(0, 1, 2, 3, 4), all_singles=True, n_sets=4, none_share=NONE_SHARE):
    n = len(td[0])
    cases = []
    starts = [[i] for i in range(n)] if all_singles else [[rng.randrange(n)]]
    for _ in range(n_sets):
        k = rng.randint(1, max(1, min(n, 4)))
        starts.append(rng.sample(range(n), k))
    if rng.random() < 0.3:
        s = rng.choice(starts)
        starts.append(s + s[:1])          # a start node listed twice
    for S in starts:
        rs = list(radii)
        if rng.random() < 0.08:
            # radii far beyond the diameter: float32 walk counts would overflow (inf, nan) if the
            # implementation accumulated them; the property speaks of all radii
            rs.append(rng.choice([40, 110, 130, 300]))
        for r in rs:
            # edge_attr=None (15%): prune documents / handles samples without edge attributes
            t = strip_attr(td) if (none_share and rng.random() < none_share) else td
            cases.append(case_prune(t, S, r, pick_form(rng, PRUNE_FORMS), origin))
    return cases


# ---------------------------------------------------------------------------
# same-object histories: the operators are modelled as stateless functions of the Data object AS IT IS WHEN THE CALL IS
# MADE.  A history is one Data object, a list of steps (JSON lists) applied in order to that one object:
#   edits  ["set_ei", cols]            sample.edge_index = <new tensor>      (same number of columns)
#          ["set_graph", cols, attrs]  edge_index and edge_attr re-assigned together (attrs [[]..] = None)
#          ["set_x", x]                sample.x = <new tensor>               (same or more rows)
#          ["set_ea", attrs]           sample.edge_attr = <new tensor> / None
#          ["ip_ei", k, a, b]          sample.edge_index[0, k] = a; sample.edge_index[1, k] = b   (in place)
#          ["ip_x", i, row]            sample.x[i] = tensor(row)                                  (in place)
#          ["ip_ea", k, row]           sample.edge_attr[k] = tensor(row)                          (in place, doubled ints)
#   calls  ["prune", starts, r, form] / ["prunerc", r] / ["nodeind", nodes, form] / ["edgeind", cols, form]
# Every call becomes a normal Case whose request is read off the object immediately before the call (enc_tdata);
# meta["history"] = {td0, steps up to and including the call}: replay re-runs all of it on one object.
# ---------------------------------------------------------------------------
EDITS = ("set_ei", "set_graph", "set_x", "set_ea", "ip_ei", "ip_x", "ip_ea")
CALLS = ("prune", "prunerc", "nodeind", "edgeind")


def apply_step(sample, st):
    """apply one step to the one Data object; for a call -> (request, implementation output), for an edit -> None"""
    import torch
    from fgutils.torch import prune, node_induced_subgraph, edge_induced_subgraph
    from fgutils.torch.utils import prune_rc
    k = st[0]
    if k == "set_ei":
        sample.edge_index = _ei_tensor(st[1])
    elif k == "set_graph":
        sample.edge_index = _ei_tensor(st[1])
        sample.edge_attr = None if is_none_attr([None, st[1], st[2]]) else _ea_tensor(st[2])
    elif k == "set_x":
        sample.x = torch.tensor(st[1], dtype=torch.long)
    elif k == "set_ea":
        sample.edge_attr = None if st[1] is None else _ea_tensor(st[1])
    elif k == "ip_ei":
        sample.edge_index[0, st[1]] = st[2]
        sample.edge_index[1, st[1]] = st[3]
    elif k == "ip_x":
        sample.x[st[1]] = torch.tensor(st[2], dtype=sample.x.dtype)
    elif k == "ip_ea":
        sample.edge_attr[st[1]] = torch.tensor([v / 2 for v in st[2]]).to(sample.edge_attr.dtype)
    else:
        before = enc_tdata(sample)
        if k == "prune":
            out = call_impl(lambda: enc_tdata(prune(sample, as_form(st[1], st[3]), radius=st[2])))
            return [Atom("C18"), Atom("prune"), before, list(st[1]), st[2]], out
        if k == "prunerc":
            out = call_impl(lambda: enc_tdata(prune_rc(sample, radius=st[1])))
            return [Atom("C18"), Atom("prunerc"), before, st[1]], out
        if k == "nodeind":
            out = call_impl(lambda: enc_tdata(node_induced_subgraph(sample, as_form(st[1], st[2]))))
            return [Atom("C18"), Atom("nodeind_t"), before, list(st[1])], out
        if k == "edgeind":
            out = call_impl(lambda: enc_tdata(edge_induced_subgraph(sample, as_form(st[1], st[2]))))
            return [Atom("C18"), Atom("edgeind_t"), before, list(st[1])], out
        raise ValueError("unknown history step %r" % (st,))
    return None


def run_history(td0, steps):
    """re-run a recorded history on ONE fresh Data object -> (request, output) of the LAST step (a call)"""
    sample = mk_data(td0)
    res = None
    for st in steps:
        res = apply_step(sample, st)
    return res


def _rand_cols(rng, n, m, symmetric):
    cols = []
    while len(cols) < m:
        a, b = rng.sample(range(n), 2)
        cols.append([a, b])
        if symmetric and len(cols) < m:
            cols.append([b, a])
    return cols


def gen_edit(rng, td):
    """one random in-place edit that keeps the object well formed (td = its state now)"""
    x, cols, attrs = td
    n, m, none = len(x), len(cols), is_none_attr(td)
    vals = [0, 2, 2, 4, 6]
    kind = rng.choice(EDITS)
    if kind == "ip_ea" and none:
        kind = "ip_ei"
    if kind == "set_ei":
        return ["set_ei", _rand_cols(rng, n, m, rng.random() < 0.6)]
    if kind == "set_graph":
        m2 = rng.randint(1, 2 * n)
        cols2 = _rand_cols(rng, n, m2, rng.random() < 0.6)
        attrs2 = [[] for _ in cols2] if rng.random() < 0.2 else [[rng.choice(vals), rng.choice(vals)] for _ in cols2]
        return ["set_graph", cols2, attrs2]
    if kind == "set_x":
        return ["set_x", [[rng.choice([1, 6, 7, 8, 16, 17, 35])] for _ in range(n + rng.choice([0, 0, 1, 3]))]]
    if kind == "set_ea":
        if rng.random() < 0.25:
            return ["set_ea", None]
        return ["set_ea", [[rng.choice(vals), rng.choice(vals)] for _ in range(m)]]
    if kind == "ip_ei":
        a, b = rng.sample(range(n), 2)
        return ["ip_ei", rng.randrange(m), a, b]
    if kind == "ip_x":
        return ["ip_x", rng.randrange(n), [rng.choice([1, 6, 7, 8, 16, 17, 35])]]
    return ["ip_ea", rng.randrange(m), [rng.choice(vals), rng.choice(vals)]]


def gen_call(rng, td):
    x, cols, attrs = td
    n, m = len(x), len(cols)
    op = rng.choice(["prune", "prune", "prune", "prunerc", "nodeind", "nodeind", "edgeind", "edgeind"])
    if op == "prunerc" and (is_none_attr(td) or not has_rc(td) or any(len(a) != 2 for a in attrs)
                            or not all([b, a] in cols for a, b in cols)):
        op = "prune"
    if op == "prune":
        form = pick_form(rng, PRUNE_FORMS)
        if form == "tuple":
            form = "list"            # the tuple probe of prune is out of the verdict: not inside histories
        return ["prune", rng.sample(range(n), rng.randint(1, min(n, 3))), rng.randint(0, 4), form]
    if op == "prunerc":
        return ["prunerc", rng.randint(0, 3)]
    if op == "nodeind":
        # the property speaks of node subsets that induce >= 1 edge: the ends of one column are always selected
        u, v = rng.choice(cols)
        rest = [i for i in range(n) if i not in (u, v)]
        nodes = [u, v] + rng.sample(rest, rng.randint(0, len(rest)))
        rng.shuffle(nodes)
        return ["nodeind", nodes, pick_form(rng)]
    E = [rng.randrange(m) for _ in range(rng.randint(1, min(m, 5)))]
    return ["edgeind", E, pick_form(rng)]


def history_cases(rng, td0, n_calls=3):
    sample = mk_data(td0)
    steps, cases, edits = [], [], []
    for c in range(n_calls):
        if c > 0:
            for _ in range(rng.randint(1, 3)):
                st = gen_edit(rng, enc_tdata(sample))
                apply_step(sample, st)
                steps.append(st)
                edits.append(st[0])
        st = gen_call(rng, enc_tdata(sample))
        req, out = apply_step(sample, st)
        steps.append(st)
        td = req[2]
        form = st[-1] if st[0] != "prunerc" else None
        cases.append(Case(req, out, meta={"origin": "history", "arg_form": form,
                                          "history": {"td0": td0, "steps": [list(s) for s in steps], "call_index": len(steps) - 1}},
                          nontrivial_key=("h", sx(req), form, c > 0),
                          tags=("same_object_history", st[0] if st[0] != "prunerc" else "prune_rc",
                                "history:%s" % ("first_call" if c == 0 else "later_call_after_in_place_edit"), size_tag(len(td[0])))
                          + tuple("edit_before=" + e for e in sorted(set(edits)))
                          + (form_tags(form) if form else ()) + none_tag(td)))
        edits = []
    return cases


def has_rc(td):
    return any(a[0] != a[1] for a in td[2])


def cases_prune_rc(td, origin, radii=(0, 1, 2, 3, 4)):
    cases = []
    if not has_rc(td) or any(len(a) != 2 for a in td[2]):
        return cases
    for r in radii:
        out = call_impl(impl_prune_rc, td, r)
        cases.append(Case([Atom("C18"), Atom("prunerc"), td, r], out, meta={"origin": origin},
                          nontrivial_key=("prc", sx(td), r), tags=("prune_rc", "radius=%d" % r, origin)))
    return cases


def float32_probe(r):
    """dense, high radius: walk counts overflow float32 in the real prune (inf * 0 = nan).  Not
    modelled (the model counts in unbounded Nat); reported only, never decides the verdict."""
    n, rad = 24, 40
    x = [[6]] * n
    cols = [[a, b] for a in range(n) for b in range(n) if a != b]
    attrs = [[2, 2]] * len(cols)
    td = [x, cols, attrs]
    out = call_impl(impl_prune, td, [0], rad)
    kept = None if isinstance(out, ImplError) else len(out[0])
    r.notes["float32_saturation_probe"] = {
        "graph": "K_%d" % n, "radius": rad, "rows_kept_by_real_prune": kept, "rows_within_radius": n,
        "note": "before the repair 756ce97 float32 walk counts overflowed to inf and inf*0 = nan in torch.matmul (0 rows kept); the model counts in Nat"}
    r.extra_cov["float32_saturation_probe"] = r.notes["float32_saturation_probe"]
    # in domain since the repair 756ce97 (powers clamped to 0/1): "all start sets and radii"
    return Case([Atom("C18"), Atom("prune"), td, [0], rad], out, in_domain=True,
                meta={"origin": "float32-probe"}, tags=("probe_float32_dense_high_radius",),
                nontrivial_key=("p", "K24", 0, rad))


def element_sweep(r):
    """one two-atom ITS per element of the REFERENCE table (from the driver): the periodic-table
    clause of the statement on implementation outputs — this is the search that names the element
    when the regenerated table no longer equals the reference"""
    rep = r.get_driver().ask(sx([Atom("C18"), Atom("reftable")]))
    syms = [a[2:] for a in rep[1]]
    cases = []
    for k, s in enumerate(syms):
        g = nx.Graph()
        g.add_node(7, symbol=s)
        g.add_node(3, symbol="C")
        g.add_edge(7, 3, bond=(1, 2))
        c = case_roundtrip(g, 0, "element-sweep")
        c.meta["element"] = s
        c.meta["Z_reference"] = k + 1
        cases.append(c)
    return cases, syms


def table_diff(syms):
    """cell-by-cell comparison of the code's tables with the reference (for the evidence/replay)"""
    from fgutils.chem.ps import atomic_sym2num, atomic_num2sym
    bad = []
    for k, s in enumerate(syms):
        z = k + 1
        if atomic_sym2num.get(s) != z:
            bad.append({"symbol": s, "reference_Z": z, "atomic_sym2num": atomic_sym2num.get(s)})
        elif atomic_num2sym.get(z) != s:
            bad.append({"symbol": s, "reference_Z": z, "atomic_num2sym": atomic_num2sym.get(z)})
    extra = [s for s in atomic_sym2num if s not in syms]
    return bad, extra


def corpus_cases(rng):
    """corpus/C18/*.json -> cases (run first)"""
    import glob
    import json
    from fgutils.its import ITS
    from fgutils.parse import parse
    from common import CORPUS_DIR
    cases = []
    for path in sorted(glob.glob(os.path.join(CORPUS_DIR, "C18", "*.json"))):
        for c in json.load(open(path))["cases"]:
            def obj_of(c):
                if "rsmi" in c:
                    return ITS.from_smiles(c["rsmi"])
                if "pattern" in c:
                    return parse(c["pattern"])
                g = nx.Graph()
                for i, s in c["graph"]["nodes"]:
                    g.add_node(i, symbol=s)
                for u, v, a, b in c["graph"]["edges"]:
                    g.add_edge(u, v, bond=(a, b))
                return g
            op = c["op"]
            if op == "roundtrip":
                k = case_roundtrip(obj_of(c), c["tf"], "corpus")
            elif op == "batch":
                k = case_batch([parse(p) for p in c["patterns"]], c["tf"], "corpus")
            elif op == "prune":
                td = tensor_of(obj_of(c))
                ks = [case_prune(t, c["starts"], c["radius"], f, "corpus")
                      for f, _ in PRUNE_FORMS if form_in_domain(f, "prune") for t in (td, strip_attr(td))]
            elif op == "edgeind":
                ks = [case_edgeind(obj_of(c), c["edges"], c["tf"], f, "corpus") for f, _ in INDEX_FORMS]
            elif op == "nodeind":
                ks = [case_nodeind(obj_of(c), c["nodes"], c["tf"], f, "corpus") for f, _ in INDEX_FORMS]
            else:
                raise ValueError("unknown corpus op %r" % op)
            for k in ([k] if op in ("roundtrip", "batch") else ks):
                k.meta["what"] = c.get("what")
                cases.append(k)
    return cases


# ---------------------------------------------------------------------------
def run(tier, seed):
    r = Run("C18", tier, seed)
    if not prepare(r, PROOFS, "C18"):
        return 2
    rng = r.rng
    quick = tier == "quick"
    cases = []

    # --- corpus: the witnesses of DESIGN §7 F11 and the §10 mutants -------------------------
    cases += corpus_cases(rng)
    lib = library_objects()
    for origin, obj in lib:                                   # ids from 1: F11a
        for tf in (0, 1, 2):
            cases.append(case_roundtrip(obj, tf, origin))
    for i, (origin, obj) in enumerate(lib):                   # every library object once in every other input form
        for j, kind in enumerate(VARIANT_KINDS):
            cases.append(case_roundtrip(obj, (i + j) % 3, origin, form_rng=rng, form_kinds=(kind,)))
    objs = [o for _, o in lib]
    for k in range(1, 7):                                     # F11b (transforms), m29 (k >= 3)
        for tf in (0, 1, 2):
            cases.append(case_batch(objs[:k], tf, "library"))
            cases.append(case_batch([objs[(3 * j + k) % len(objs)] for j in range(k)], tf, "library"))
    sweep, syms = element_sweep(r)                            # m30
    cases += sweep
    bad, extra = table_diff(syms)
    for c in sweep:                                           # name the disagreeing cell in the replay
        for b in bad:
            if b["symbol"] == c.meta["element"]:
                c.meta["periodic_table_cell"] = b
    r.extra_cov["periodic_table_cells_disagreeing_with_reference"] = bad
    r.extra_cov["symbols_not_in_reference"] = extra
    for origin, obj in lib[:4] + lib[len(RSMI):len(RSMI) + 4]:  # F11c: lone start nodes, r >= 1
        td = call_impl(tensor_of, obj)
        if isinstance(td, ImplError):
            continue
        cases += cases_prune(rng, td, origin, n_sets=2)
        cases += cases_prune_rc(td, origin)
    for origin, obj in lib:
        if as_graph(obj).number_of_edges() <= 5:
            cases += cases_induced(rng, obj, 0, origin, limit=64)
    cases.append(float32_probe(r))
    outs = r.evaluate(cases)
    if bad and r.build is not None and not r.build.proofs_ok:
        # the table obligation C18.periodic_table no longer builds: name the element and replay an
        # ITS that carries it (its node feature disagrees with the reference periodic table)
        for o in outs:
            if o.case.meta.get("periodic_table_cell") and o.spec_fail:
                payload = r.outcome_payload(o)
                payload["theorem_or_correspondence"] = ["C18.periodic_table (lake build FGVerif.Proofs.C18 failed)"]
                payload["periodic_table_cell"] = o.case.meta["periodic_table_cell"]
                path = r.write_replay("failing-input", "periodic_table_" + o.case.meta["element"], payload)
                r.violation_lines.append("VIOLATION property=C18 replay=%s" % path)
                break
    cases = []

    # --- ITSDataset --------------------------------------------------------------------------
    from fgutils.torch import ITSDataset
    for tf in (0, 1, 2):
        sel = [objs[rng.randrange(len(objs))] for _ in range(rng.randint(1, 6))]
        ds = call_impl(ITSDataset, sel, list(range(len(sel))), [10 + i for i in range(len(sel))], _nf(tf), _ef(tf))
        for i, o in enumerate(sel):
            e = enc_its(o)
            out = ds if isinstance(ds, ImplError) else call_impl(impl_dataset_member, ds, i, tf)
            cases.append(Case([Atom("C18"), Atom("roundtrip"), tf, e], out, meta={"origin": "ITSDataset", "tf": tf},
                              nontrivial_key=("ds", tf, sx(e)), tags=("roundtrip", "ITSDataset", "tf=%d" % tf)))
        out = ds if isinstance(ds, ImplError) else call_impl(impl_dataset_batch, ds, tf)
        cases.append(Case([Atom("C18"), Atom("batch"), tf, [enc_its(o) for o in sel]], out,
                          meta={"origin": "ITSDataset", "tf": tf, "k": len(sel)},
                          nontrivial_key=("dsb", tf, len(sel), sx(enc_its(sel[0]))),
                          tags=("batch", "ITSDataset", "tf=%d" % tf, "batch_k=%d" % len(sel))))

    # --- generated ---------------------------------------------------------------------------
    from fgutils.parse import parse
    n_rt = 600 if quick else 20000
    n_batch = 250 if quick else 8000
    n_ind = 50 if quick else 2000
    n_prune = 50 if quick else 2000
    n_raw = 300 if quick else 10000
    n_big = 40 if quick else 1500
    n_hist = 150 if quick else 5000
    pool = []
    for k in range(n_rt):
        tf = rng.choice([0, 0, 1, 2])
        if k % 5 == 0:
            p = rand_pattern(rng)
            obj = call_impl(parse, p)
            if isinstance(obj, ImplError):
                continue
            origin = "parse-random"
        else:
            big = (not quick) and k % 50 == 1
            obj = rand_graph(rng, n=rng.randint(10, 40) if big else None,
                             symbols=syms if k % 7 == 0 else COMMON)
            origin = "random-graph"
        pool.append(obj)
        # the FORM of the input (12%): extra attributes / numpy ids and half orders / frozen / view / list labels
        cases.append(case_roundtrip(obj, tf, origin, form_rng=rng if rng.random() < FORM_SHARE else None))
    for k in range(n_batch):
        tf = rng.choice([0, 1, 1, 2])
        size = rng.randint(1, 6)
        members = [rng.choice(pool) if rng.random() < 0.7 else rng.choice(objs) for _ in range(size)]
        members = [m for m in members if as_graph(m).number_of_edges() >= 1] or [objs[0]]
        cases.append(case_batch(members, tf, "generated", form_rng=rng if rng.random() < FORM_SHARE else None))
    for k in range(n_ind):
        obj = rand_graph(rng, n=rng.randint(2, 5), extra=rng.randint(0, 2))
        cases += cases_induced(rng, obj, rng.choice([0, 0, 1, 2]), "random-graph", limit=31 if quick else 64)
    for k in range(n_prune):
        obj = rand_graph(rng, n=rng.randint(2, 10), half=rng.random() < 0.5)
        td = call_impl(tensor_of, obj)
        if isinstance(td, ImplError):
            continue
        cases += cases_prune(rng, td, "its_to_torch(random-graph)", all_singles=(k % 3 == 0), n_sets=2)
        cases += cases_prune_rc(td, "its_to_torch(random-graph)")
    for k in range(n_big):
        # graphs of 10-60 nodes: induced sub-graphs on random subsets, prune with radii 0-6 and larger start sets
        obj = rand_graph(rng, n=rng.randint(10, 60), extra=rng.randint(0, 8), half=rng.random() < 0.5)
        cases += cases_induced_big(rng, obj, rng.choice([0, 0, 1, 2]), "random-graph", k=2)
        td = call_impl(tensor_of, obj)
        if isinstance(td, ImplError):
            continue
        n = len(td[0])
        for _ in range(3):
            S = rng.sample(range(n), rng.randint(1, 5))
            t = strip_attr(td) if rng.random() < NONE_SHARE else td
            cases.append(case_prune(t, S, rng.randint(0, 6), pick_form(rng, PRUNE_FORMS), "its_to_torch(random-graph)"))
        if k % 4 == 0:
            cases += cases_prune_rc(td, "its_to_torch(random-graph)", radii=(rng.randint(0, 4),))
    for k in range(n_hist):
        # ONE Data object, several operator calls, in-place edits between them (no state kept per object)
        big = k % 5 == 0
        td = rand_tensor(rng, n=rng.randint(10, 30) if big else rng.randint(3, 9), symmetric=rng.random() < 0.7)
        if rng.random() < NONE_SHARE:
            td = strip_attr(td)
        cases += history_cases(rng, td, n_calls=rng.randint(2, 4))
    for k in range(n_raw):
        # raw tensor graphs: directed, parallel columns, isolated rows; every 8th of 10-60 rows
        td = rand_tensor(rng, n=rng.randint(10, 60) if k % 8 == 1 else None)
        n = len(td[0])
        tdn = strip_attr(td) if rng.random() < NONE_SHARE else td        # edge_attr=None (15%)
        S = rng.sample(range(n), rng.randint(1, min(n, 3)))
        rad = rng.randint(0, 4)
        cases.append(case_prune(tdn, S, rad, pick_form(rng, PRUNE_FORMS), "raw-tensor"))
        if k % 3 == 0 and all([b, a] in td[1] for a, b in td[1]):
            # prune_rc only on symmetric tensors (the form ITS graphs have): which end of a column
            # names the reaction-centre node is not observable there
            cases += cases_prune_rc(td, "raw-tensor", radii=(rng.randint(0, 4),))
        m = len(td[1])
        if m >= 1:
            E = [rng.randrange(m) for _ in range(rng.randint(1, min(m, 5)))]
            if rng.random() < 0.6:
                E = sorted(set(E))
            tdn = strip_attr(td) if rng.random() < NONE_SHARE else td
            cases.append(case_edgeind_t(tdn, E, pick_form(rng), "raw-tensor"))
            nodes = rng.sample(range(n), rng.randint(2, n))
            if any(a in nodes and b in nodes for a, b in td[1]):
                tdn = strip_attr(td) if rng.random() < NONE_SHARE else td
                cases.append(case_nodeind_t(tdn, nodes, pick_form(rng), "raw-tensor"))
        if k % 4 == 0:
            # raw batches: concatenate 1-6 symmetric raw tensors by hand and convert back
            parts = [rand_tensor(rng, n=rng.randint(2, 5), symmetric=True) for _ in range(rng.randint(1, 6))]
            x, cols, attrs, bv, off = [], [], [], [], 0
            for j, p in enumerate(parts):
                x += p[0]
                cols += [[a + off, b + off] for a, b in p[1]]
                attrs += p[2]
                bv += [j] * len(p[0])
                off += len(p[0])
            out = call_impl(impl_frombatch, [x, cols, attrs], bv, 0)
            cases.append(Case([Atom("C18"), Atom("frombatch"), 0, [x, cols, attrs], bv], out, meta={"origin": "raw"},
                              nontrivial_key=("fb", sx(cols), tuple(bv)),
                              tags=("from_batch", "raw-tensor", "batch_k=%d" % len(parts))))
    r.evaluate(cases)

    if os.environ.get("VERIF_DEBUG"):
        for o in r.spec_failures[:40]:
            print("SPEC", o.case.line()[:400], "| model", sx_of(o.model)[:200])
        for o in r.corr_failures[:40]:
            print("CORR", o.case.line()[:400], "| model", sx_of(o.model)[:300])
        for o in r.driver_errors[:10]:
            print("DRV", o.case.line()[:300], o.reply)
    r.assumptions = [
        "torch tensors are modelled as lists; values enter through .tolist() (bond orders doubled on the wire)",
        "Batch.from_data_list is assumed to concatenate x / edge_attr, shift edge_index by the running node count and "
        "emit the batch vector (C18.batchOf); exercised on every batch case",
        "networkx node / edge iteration order of the input graph is carried by the request; add_edge semantics of "
        "_build_its are modelled (C18.NxG.addEdge)",
        "the model counts walks in unbounded Nat; since the repair 756ce97 the implementation clamps each adjacency power to 0/1, so dense high-radius cases are in domain (K24 at radius 40 and "
        "radii 40-300 on generated graphs)",
        "the tensor operators are modelled as stateless functions of the Data object as it is when the call is made; the model does not see the "
        "FORM of the index argument (list / tensor / tuple / numpy array): the answer must be that of the list form; edge_attr=None travels as one empty "
        "attribute row per column (harness/c18.py is_none_attr), which the model carries along like any other row",
        "a tuple as start_nodes of prune is outside the documented forms (annotation torch.Tensor, docstring 'a list'): tensor indexing reads it as ONE "
        "matrix entry, the library silently prunes around row 0 only; generated at 5% but never decides the verdict (tag arg_form=tuple:undocumented_for_prune)",
        "custom feature transforms are exercised through three fixed families (C18.nfOf/efOf/nftOf and their Python "
        "mirrors in harness/c18.py); the theorems quantify over all transforms",
    ]
    return r.finish(
        level="proof",
        rule="library ITS objects (ITS.from_smiles, ids from 1), parsed ITS patterns, random element graphs (2-40 nodes; ids "
             "0..n-1 / 1..n / shuffled / sparse; None, 0, 1, 1.5, 2, 3 orders), one graph per element of the reference table; "
             "x transforms {default, 2 custom}; batches of 1-6; ITSDataset; 12% of the generated round-trip / batch inputs and every library object "
             "handed to its_to_torch in another FORM (extra attributes, numpy ids / half orders, nx.freeze, sub-graph view, list labels; tags variant=*); every edge subset / edge-inducing node subset of "
             "small graphs, random edge / node subsets of graphs of 10-60 nodes; prune from every single node and random start sets, "
             "radii 0-4 (0-6 on 10-60 nodes), on converted and raw (directed, parallel-column, every 8th of 10-60 rows) tensors; prune_rc; "
             "the index argument of every operator in every accepted FORM at fixed shares (nodes / edges: list 35, int64 tensor 30, numpy 15, tuple 12, "
             "int32 tensor 8; start_nodes: tensor 40, list 30, numpy 15, int32 tensor 10, tuple 5 = out of domain; tags arg_form=*), the corpus operator "
             "cases in every form; 15% of the prune / raw induced inputs with edge_attr=None (tag edge_attr=None); same-object histories: 2-4 operator "
             "calls (prune / prune_rc / node_induced / edge_induced, mixed) on ONE Data object of 3-30 rows with 1-3 in-place edits between calls "
             "(edge_index / x / edge_attr re-assigned or written in place; tags same_object_history, edit_before=*), each call judged for the object as it is at call time; "
             "non-trivial = distinct (operation, input, argument form) with >= 1 edge",
        checker_cmd="cd lean && lake build FGVerif.Proofs.C18 && lake env lean FGVerif/Audit/C18.lean",
        explanation="theorems in lean/FGVerif/Proofs/C18.lean (+C18Reach.lean) about Model/C18.lean; model tied to fgutils.torch by "
                    "differential testing of real tensors; executable specs (round-trip isomorphism, reference periodic table, "
                    "tensor form of the induced subgraph, BFS ball for prune) applied to every implementation output")


# ---------------------------------------------------------------------------
# replay: re-run the request of a replay file against the current tree and the driver
# ---------------------------------------------------------------------------
def _dec_str(a):
    if a == "_":
        return None
    if a.startswith("s:"):
        return a[2:]
    if a.startswith("h:"):
        return bytes.fromhex(a[2:]).decode("utf-8")
    raise ValueError(a)


def _dec_half(a):
    if a == "_":
        return None
    v = int(a)
    return v // 2 if v % 2 == 0 else v / 2


def dec_its(x):
    g = nx.Graph()
    for i, s in x[0]:
        g.add_node(int(i), symbol=_dec_str(s))
    for u, v, a, b in x[1]:
        g.add_edge(int(u), int(v), bond=(_dec_half(a), _dec_half(b)))
    return g


def dec_td(x):
    return [[[int(v) for v in row] for row in x[0]], [[int(a), int(b)] for a, b in x[1]],
            [[int(v) for v in row] for row in x[2]]]


def replay(path):
    import json
    from common import parse_sx
    d = json.load(open(path))
    req = parse_sx(d["request_line"])
    op = req[1]
    r = Run("C18", "replay", d.get("seed", 0))
    if not prepare(r, PROOFS, "C18"):
        return 2
    ints = lambda l: [int(v) for v in l]
    meta = d.get("meta") or {}
    form = meta.get("variant")
    af = meta.get("arg_form")
    if af:
        print("REPLAY re-applying the recorded argument form: arg_form=%s" % af)
    if meta.get("history"):
        h = meta["history"]
        print("REPLAY re-running the recorded history (%d steps) on ONE Data object; judging its last call" % len(h["steps"]))
        rq, out = run_history(h["td0"], h["steps"])
        c = Case(rq, out)
    elif op == "roundtrip" and isinstance(form, str) and form != "variant=plain":
        import random
        print("REPLAY re-applying the recorded input form: %s" % form)
        c = case_roundtrip(dec_its(req[3]), int(req[2]), "replay", form_rng=random.Random(d.get("seed", 0)),
                           form_kinds=(form.split("=")[1],))
    elif op == "roundtrip":
        c = case_roundtrip(dec_its(req[3]), int(req[2]), "replay")
    elif op == "batch":
        c = case_batch([dec_its(x) for x in req[3]], int(req[2]), "replay")
    elif op == "frombatch":
        td, bv = dec_td(req[3]), ints(req[4])
        c = Case([Atom("C18"), Atom("frombatch"), int(req[2]), td, bv], call_impl(impl_frombatch, td, bv, int(req[2])))
    elif op == "nodeind":
        g, S = dec_its(req[3]), ints(req[4])
        c = Case([Atom("C18"), Atom("nodeind"), int(req[2]), enc_its(g), S], call_impl(impl_nodeind, g, S, int(req[2]), af or "list"))
    elif op == "edgeind":
        g, E = dec_its(req[3]), ints(req[4])
        c = Case([Atom("C18"), Atom("edgeind"), int(req[2]), enc_its(g), E], call_impl(impl_edgeind, g, E, int(req[2]), af or "list"))
    elif op == "nodeind_t":
        td, ns = dec_td(req[2]), ints(req[3])
        c = Case([Atom("C18"), Atom("nodeind_t"), td, ns], call_impl(impl_nodeind_t, td, ns, af or "list"))
    elif op == "edgeind_t":
        td, es = dec_td(req[2]), ints(req[3])
        c = Case([Atom("C18"), Atom("edgeind_t"), td, es], call_impl(impl_edgeind_t, td, es, af or "list"))
    elif op == "prune":
        td, ss, rad = dec_td(req[2]), ints(req[3]), int(req[4])
        c = Case([Atom("C18"), Atom("prune"), td, ss, rad], call_impl(impl_prune, td, ss, rad, af or "tensor"))
    elif op == "prunerc":
        td, rad = dec_td(req[2]), int(req[3])
        c = Case([Atom("C18"), Atom("prunerc"), td, rad], call_impl(impl_prune_rc, td, rad))
    else:
        print("ERROR property=C18 cannot replay operation %r" % op)
        return 2
    o = r.evaluate([c])[0]
    print("REPLAY property=C18 request=%s" % c.line()[:300])
    print("REPLAY impl_output=%s" % sx_of(o.impl_c)[:300])
    print("REPLAY model_output=%s spec_impl=%s correspondence=%s" % (sx_of(o.model)[:300], o.spec_impl, "ok" if o.corr else "differs"))
    if r.driver is not None:
        r.driver.close()
    if o.driver_error:
        return 2
    return 1 if (o.spec_fail or not o.corr) else 0
