"""C07 — the group hierarchy is the specificity order, however the list is given.

Implementation side: `FGConfigProvider.get_tree` / `build_config_tree_from_list` run in *fresh
interpreter subprocesses* (harness/worker_seed.py) under several PYTHONHASHSEED values, on
permutations of the default list (31 groups in the code under verification) and of generated lists of connected
patterns, anti-pattern free AND with anti-patterns that really exclude would-be descendants (corpus + generator
`gen_anti_list`; the expected relation is the oracle's: true embedding order with the anti-pattern veto).
Every list is SUBMITTED IN ALL ITS DOCUMENTED FORMS (one form per order of the list, rotating): a list of FGConfig objects,
a list of dictionaries with every anti-pattern written as a LIST / with every one-element anti-pattern written as a plain
STRING (`anti_pattern: str | list[str]`), `build_config_tree_from_list` directly, a single FGConfig (one-element lists),
`FGConfigProvider()` (default list), with the mapper given or left to the provider's identical default — every form is
judged against the same model and specification, so all forms must yield the same hierarchy.
Observable: the set of (parent, child) links and the set of roots.
Compared with (i) the Lean model (`C07.buildTreeE` over the matcher model) and (ii) the Hasse diagram
of the TRUE embedding order (`C07.specCheck`, embeddings enumerated in Lean; cross-checked against
an independent enumeration in Python) — the property itself.
"""
import itertools
import json
import os
import subprocess
import sys
import time
from concurrent.futures import ThreadPoolExecutor

import networkx as nx

import common
from common import Atom, Case, Run, ImplError, prepare, enc_graph, enc_mapper

PROOFS = ["FGVerif.Proofs.C07", "FGVerif.Proofs.C07Default", "FGVerif.Proofs.C07Key", "FGVerif.Proofs.C07Bridge",
          "FGVerif.Proofs.C07Strings", "FGVerif.Proofs.C07KeyGraph", "FGVerif.Proofs.C07Embeds", "FGVerif.Proofs.C07Anti"]
WORKER = os.path.join(os.path.dirname(os.path.abspath(__file__)), "worker_seed.py")
MAPPER = enc_mapper("R", True, [])


# ---------------------------------------------------------------------------
# fresh-interpreter workers
# ---------------------------------------------------------------------------
LAST_TIMES = []     # (wall seconds, hash seed, number of jobs) of every worker process of this run (diagnostics only)


def run_workers(batches, timeout=3000):
    """batches: list of (hashseed, [job, …]) -> list of [result, …] (same order).
    Every batch runs in its own fresh interpreter with PYTHONHASHSEED=<hashseed>."""
    def one(b):
        seed, jobs = b
        if not jobs:
            return []
        env = dict(os.environ)
        env["PYTHONHASHSEED"] = str(seed)
        env["FGUTILS_REPO"] = common.REPO
        inp = "".join(json.dumps(j) + "\n" for j in jobs)
        t0 = time.time()
        p = subprocess.run([sys.executable, WORKER], input=inp, stdout=subprocess.PIPE, stderr=subprocess.PIPE,
                           text=True, env=env, timeout=timeout)
        LAST_TIMES.append((round(time.time() - t0, 1), seed, len(jobs)))
        lines = [ln for ln in p.stdout.split("\n") if ln.strip()]
        if p.returncode != 0 or len(lines) != len(jobs):
            raise RuntimeError("worker (PYTHONHASHSEED=%s) failed: rc=%s, %d/%d answers\n%s" % (
                seed, p.returncode, len(lines), len(jobs), p.stderr[-1500:]))
        return [json.loads(ln) for ln in lines]
    with ThreadPoolExecutor(max_workers=min(16, max(1, len(batches)))) as ex:
        return list(ex.map(one, batches))


# ---------------------------------------------------------------------------
# pattern generator: graphs -> pattern strings
# ---------------------------------------------------------------------------
INNER = ["C"] * 7 + ["O"] * 3 + ["N"] * 2 + ["S", "R", "R"]
LEAF = ["C"] * 4 + ["O"] * 3 + ["N", "S", "R", "R", "R", "H", "H", "Cl", "Br"]
BOND_SYM = {1: "-", 2: "=", 3: "#", 1.5: ":"}


def gen_graph(rng, n, kind):
    """-> (syms: list, edges: dict (u,v)->order with u<v), connected, nodes 0..n-1"""
    if n < 3:
        kind = "tree"
    ring_a = ring_b = 0
    if kind == "ring":
        core = rng.choice([3, 3, 4, 5, 6])
    elif kind == "aromatic":
        core = rng.choice([5, 6, 6])
    elif kind == "fused":
        ring_a = rng.choice([3, 4, 5])
        ring_b = rng.choice([1, 2, 3])        # new atoms of the second ring (shares the edge 0-1)
        core = ring_a + ring_b
    else:
        core = 1
    n = max(n, core)
    edges = {}
    deg = [0] * n

    def add(u, v, o=1):
        edges[(min(u, v), max(u, v))] = o
        deg[u] += 1
        deg[v] += 1

    if kind in ("ring", "aromatic"):
        for i in range(core):
            add(i, (i + 1) % core, 1.5 if kind == "aromatic" else 1)
    elif kind == "fused":
        for i in range(ring_a):
            add(i, (i + 1) % ring_a)
        prev = 0
        for j in range(ring_b):
            add(prev, ring_a + j)
            prev = ring_a + j
        add(prev, 1)
    for i in range(max(core, 1), n):
        cands = [j for j in range(i) if deg[j] < 4]
        j = rng.choice(cands)
        o = rng.choice([1, 1, 1, 1, 1, 2, 2, 3]) if deg[j] < 3 else 1
        add(j, i, o)
    syms = []
    for i in range(n):
        if kind == "aromatic" and i < core:
            syms.append(rng.choice(["c", "c", "c", "c", "n"]))
        elif deg[i] <= 1 and n > 1:
            syms.append(rng.choice(LEAF))
        else:
            syms.append(rng.choice(INNER))
    return syms, edges


def sub_graph(rng, syms, edges):
    """a random connected proper sub-pattern (induced on a connected node subset, optionally with
    one ring bond removed)"""
    n = len(syms)
    adj = {i: set() for i in range(n)}
    for (u, v) in edges:
        adj[u].add(v)
        adj[v].add(u)
    m = rng.randint(1, max(1, n - 1)) if rng.random() < 0.8 else n
    start = rng.randrange(n)
    chosen = [start]
    frontier = set(adj[start])
    while len(chosen) < m and frontier:
        x = rng.choice(sorted(frontier))
        chosen.append(x)
        frontier |= adj[x]
        frontier -= set(chosen)
    idx = {x: i for i, x in enumerate(chosen)}
    e2 = {}
    for (u, v), o in edges.items():
        if u in idx and v in idx:
            a, b = idx[u], idx[v]
            e2[(min(a, b), max(a, b))] = o
    s2 = [syms[x] for x in chosen]
    # open a ring: remove an edge that keeps the graph connected
    if rng.random() < 0.5:
        g = nx.Graph(list(e2))
        g.add_nodes_from(range(len(s2)))
        cyc = [e for e in e2 if not _is_bridge(g, e)]
        if cyc:
            e = rng.choice(sorted(cyc))
            o = e2.pop(e)
            if o == 1.5:
                pass
    return s2, e2


def _is_bridge(g, e):
    h = g.copy()
    h.remove_edge(*e)
    return not nx.has_path(h, e[0], e[1])


def blur(rng, syms, edges):
    s2 = list(syms)
    for _ in range(rng.choice([1, 1, 2])):
        i = rng.randrange(len(s2))
        if s2[i] in ("H",):
            continue
        s2[i] = "R"
    return s2, dict(edges)


def case_variant(rng, syms, edges):
    s2 = list(syms)
    cand = [i for i, s in enumerate(s2) if s in ("C", "N", "O", "S", "c", "n", "o", "s")]
    if cand:
        i = rng.choice(cand)
        s2[i] = s2[i].lower() if s2[i].isupper() else s2[i].upper()
    return s2, dict(edges)


def write_pattern(rng, syms, edges, explicit=0.2):
    """a string of the pattern language for the (connected or not) labelled graph; components are
    joined by '.'"""
    n = len(syms)
    adj = {i: [] for i in range(n)}
    for (u, v), o in edges.items():
        adj[u].append(v)
        adj[v].append(u)
    for i in adj:
        rng.shuffle(adj[i])
    order_of = lambda u, v: edges[(min(u, v), max(u, v))]
    visited = set()
    parent = {}
    ring_open = {}      # node -> list of (digit, other, order)
    ring_close = {}
    counter = [0]
    # first pass: DFS tree and back edges
    tree_children = {i: [] for i in range(n)}
    seen_edges = set()

    def dfs(u):
        visited.add(u)
        for v in adj[u]:
            e = (min(u, v), max(u, v))
            if e in seen_edges:
                continue
            if v not in visited:
                seen_edges.add(e)
                parent[v] = u
                tree_children[u].append(v)
                dfs(v)
            else:
                seen_edges.add(e)
                counter[0] += 1
                d = counter[0]
                # v was visited earlier (ancestor): it opens, u closes
                ring_open.setdefault(v, []).append(d)
                ring_close.setdefault(u, []).append((d, order_of(u, v), v))

    def bond_text(u, v, o, force=False):
        both_lower = syms[u].islower() and syms[v].islower()
        default = 1.5 if both_lower else 1
        if o == default and not force and rng.random() >= explicit:
            return ""
        return BOND_SYM[o]

    def emit(u):
        out = syms[u]
        last_digit = False
        for d, o, v in ring_close.get(u, []):
            b = bond_text(u, v, o, force=last_digit)
            out += b + str(d)
            last_digit = True
        for d in ring_open.get(u, []):
            if last_digit:
                out += "-"          # separator; overridden by the explicit bond written next
            out += str(d)
            last_digit = True
        kids = tree_children[u]
        # after a separator every following bond must be written explicitly
        force = "-" in out[len(syms[u]):] and any(ch.isdigit() for ch in out)
        for k, v in enumerate(kids):
            b = bond_text(u, v, order_of(u, v), force=force)
            if k < len(kids) - 1:
                out += "(" + b + emit(v) + ")"
            else:
                out += b + emit(v)
        return out

    parts = []
    starts = list(range(n))
    first = rng.randrange(n)
    starts.remove(first)
    starts.insert(0, first)
    for s in starts:
        if s not in visited:
            dfs(s)
            parts.append(s)
    if counter[0] > 9:
        return None
    return ".".join(emit(s) for s in parts)


TEMPLATES = [
    ["CCC", "C1CC1"], ["CCCC", "C1CCC1"], ["CCCO", "C1CCO1"], ["CC(C)C", "C1CC1C"], ["CCCCC", "C1CCCC1"],
    ["ROR", "COH", "CCOH", "C(C)(C)OH"], ["C(=O)", "RC(=O)R", "RC(=O)OR", "RC(=O)OH"],
    ["c1ccccc1", "c1ccccc1O", "C:COH", "cO"], ["RN(R)R", "CN", "CNC", "RC(=O)N(R)R"],
    ["C=C", "C=CC", "C=CC=C", "C1=CC=CC1"], ["RC#N", "C#N", "CC#N"],
]


def _PARSER():
    from fgutils.parse import Parser
    return Parser()


def gen_list(rng):
    """-> (list of pattern strings, tags)"""
    tags = set()
    k = rng.randint(3, 8)
    pats = []
    parsed = []
    allow_mutual = rng.random() < 0.03
    style = rng.random()
    if style < 0.12:
        t = rng.choice(TEMPLATES)
        pats = list(t)
        parsed = [_PARSER().parse(x) for x in pats]
        tags.add("template")
    kind = rng.choice(["tree", "tree", "ring", "ring", "fused", "aromatic"])
    n = rng.randint(3, 7)
    base = gen_graph(rng, n, kind)
    tags.add("base:" + kind)
    pool = [base]
    tries = 0
    while len(pats) < k and tries < 60:
        tries += 1
        x = rng.random()
        src = rng.choice(pool)
        if not pats and "template" not in tags:
            g = base
        elif x < 0.45:
            g = sub_graph(rng, *src)
        elif x < 0.6:
            g = blur(rng, *src)
        elif x < 0.66:
            g = case_variant(rng, *src)
        elif x < 0.8:
            # the same atoms as a chain / with a ring closed: equal sizes, different edge sets
            s2, e2 = sub_graph(rng, *src)
            g = (s2, e2)
        else:
            g = gen_graph(rng, rng.randint(1, 6), rng.choice(["tree", "tree", "ring", "fused", "aromatic"]))
        s = write_pattern(rng, g[0], g[1], explicit=rng.choice([0.0, 0.0, 0.3, 1.0]))
        if s is None or s in pats or len(s) == 0:
            continue
        try:
            pg = _PARSER().parse(s)
        except Exception:
            continue
        # two mutually embeddable entries (the same pattern written twice) are outside the domain:
        # keep them only in a small, tagged stream
        if any(true_embeds(pg, q) and true_embeds(q, pg) for q in parsed):
            if not allow_mutual:
                continue
            tags.add("mutual-pair")
        pats.append(s)
        parsed.append(pg)
        pool.append(g)
    rng.shuffle(pats)
    return pats, tags


def gen_disconnected(rng):
    pats, tags = gen_list(rng)
    i = rng.randrange(len(pats))
    pats[i] = pats[i] + "." + rng.choice(["C", "O", "CC", "R"])
    tags.add("disconnected")
    return pats, tags


# ---------------------------------------------------------------------------
# lists WITH anti-patterns (the veto clause of the statement; beyond the "anti-pattern free" quantifier text,
# tested because the clause is part of the statement)
# ---------------------------------------------------------------------------
# (parent pattern, anti-patterns of the parent, candidate other entries): families in which the veto really
# removes would-be descendants
ANTI_FAMILIES = [
    ("CO", ["COC"], ["COC", "COCC", "COH", "CCOH", "C(C)OC", "CCOCC", "COO", "C", "O"]),
    ("C=O", ["OC=O"], ["CC(=O)C", "RC(=O)OR", "RC(=O)OH", "CC=O", "RC(=O)H", "NC=O", "CC(=O)OC", "RC(=O)Cl", "C(=O)OO"]),
    ("C(=O)", ["C(=O)O", "C(=O)N"], ["RC(=O)N(R)R", "RC(=O)OR", "CC(=O)C", "RC(=O)H", "RC(=O)SR", "ROC(=O)N(R)R"]),
    ("RN(R)R", ["NC=O", "N=O"], ["RC(=O)N(R)R", "CN(C)C", "RN=O", "C:CN(R)R", "RN(=O)O", "CNC"]),
    ("COH", ["CC(O)O"], ["CCOH", "CC(O)OH", "CC(C)OH", "CC(OH)OH", "C(C)(C)(C)OH", "C=COH", "RC(OC)(OH)H"]),
    ("CC", ["CCC"], ["CCC", "CCO", "CCCO", "C=CC", "CCN", "CC(C)C", "C"]),
    ("ROR", ["C(=O)O", "OO"], ["RC(=O)OR", "COC", "ROOR", "RC(=O)OC(=O)R", "CCOCC", "RC(OC)(OC)H"]),
    ("c:c", ["cO"], ["c1ccccc1", "c1ccccc1O", "C:COH", "c1ccccc1N", "c:cC"]),
]


def graph_to_se(g):
    """parsed pattern (nodes 0..n-1) -> (syms, edges) as the generators use them"""
    nodes = list(g.nodes)
    idx = {x: i for i, x in enumerate(nodes)}
    syms = [g.nodes[x]["symbol"] for x in nodes]
    edges = {}
    for u, v, d in g.edges(data=True):
        a, b = idx[u], idx[v]
        edges[(min(a, b), max(a, b))] = d["bond"]
    return syms, edges


def gen_anti_list(rng):
    """-> (list of config dicts with `anti_pattern` on at least one entry, tags).  Whether the veto is effective and
    whether the resulting relation is still a strict order is decided afterwards by the oracle (ListInfo)."""
    tags = {"anti-patterns"}
    if rng.random() < 0.45:
        parent, anti, others = rng.choice(ANTI_FAMILIES)
        k = rng.randint(2, min(6, len(others)))
        pats = [parent] + rng.sample(others, k)
        antis = {0: list(anti) if rng.random() < 0.7 else [rng.choice(anti)]}
        if rng.random() < 0.35:
            # a further, larger anti-pattern (one of the family's bigger members): anti-patterns of different sizes
            big = rng.choice(sorted(others, key=len)[len(others) // 2:])
            if big not in antis[0]:
                antis[0].insert(rng.randrange(len(antis[0]) + 1), big)
        if rng.random() < 0.3:        # a second carrier taken from another family
            p2, a2, o2 = rng.choice(ANTI_FAMILIES)
            if p2 not in pats:
                pats.append(p2)
                antis[len(pats) - 1] = [rng.choice(a2)]
                for x in rng.sample(o2, 2):
                    if x not in pats:
                        pats.append(x)
        tags.add("anti:family")
    else:
        pats, t = gen_list(rng)
        tags |= set(t)
        parsed = [_PARSER().parse(x) for x in pats]
        n = len(pats)
        desc = {i: [j for j in range(n) if j != i and true_embeds(parsed[i], parsed[j]) and not true_embeds(parsed[j], parsed[i])]
                for i in range(n)}
        carriers = [i for i in range(n) if desc[i]]
        antis = {}
        if not carriers:
            # no comparable pair: the anti-pattern loop is never reached for a would-be descendant
            i = rng.randrange(n)
            antis[i] = [pats[rng.randrange(n)]]
            tags.add("anti:no-comparable-pair")
        for i in rng.sample(carriers, min(len(carriers), rng.choice([1, 1, 2]))):
            j = rng.choice(desc[i])
            se = graph_to_se(parsed[j])
            cands = []
            x = rng.random()
            if x < 0.35:
                cands.append(pats[j])                       # exactly the descendant
            else:
                for _ in range(6):                          # a connected piece of the descendant
                    sub = sub_graph(rng, *se)
                    if len(sub[0]) >= 2:
                        w = write_pattern(rng, sub[0], sub[1], explicit=rng.choice([0.0, 0.3]))
                        if w:
                            cands.append(w)
                            break
                if not cands:
                    cands.append(pats[j])
            if rng.random() < 0.3:                          # plus one that (most likely) matches nothing here
                g2 = gen_graph(rng, rng.randint(2, 4), "tree")
                w = write_pattern(rng, g2[0], g2[1], explicit=0.0)
                if w:
                    cands.insert(rng.randrange(len(cands) + 1), w)
            if rng.random() < 0.45:
                # plus a LARGER anti-pattern (more atoms than the descendant the first one is cut from): several
                # anti-patterns of different sizes on one carrier — in whatever order the code keeps them, the small
                # one must still be consulted for the small descendant
                big = None
                bigger = [k for k in desc[i] if parsed[k].number_of_nodes() > parsed[j].number_of_nodes()]
                if bigger and rng.random() < 0.5:
                    big = pats[rng.choice(bigger)]
                else:
                    syms2, edges2 = list(se[0]), dict(se[1])
                    for _ in range(rng.randint(1, 3)):
                        deg = [sum(1 for e in edges2 if x in e) for x in range(len(syms2))]
                        at = rng.choice([x for x in range(len(syms2)) if deg[x] < 4] or [0])
                        syms2.append(rng.choice(LEAF))
                        edges2[(at, len(syms2) - 1)] = 1
                    big = write_pattern(rng, syms2, edges2, explicit=0.0)
                if big and big not in cands:
                    cands.insert(rng.randrange(len(cands) + 1), big)
            antis[i] = cands
        tags.add("anti:derived-from-descendant")
    dicts = []
    for i, p in enumerate(pats):
        d = {"name": "g%d" % i, "pattern": p}
        if i in antis:
            a = antis[i]
            d["anti_pattern"] = a[0] if len(a) == 1 and rng.random() < 0.3 else list(a)   # a plain string is accepted too
        dicts.append(d)
    order = list(range(len(dicts)))
    rng.shuffle(order)
    dicts = [dict(dicts[i], name="g%d" % k) for k, i in enumerate(order)]
    return dicts, tags


# ---------------------------------------------------------------------------
# forms in which one configuration list can be submitted (worker_seed.job_tree)
# ---------------------------------------------------------------------------
def submission(form, anti_as=None, mapper_omitted=False):
    return {"form": form, "anti_as": anti_as, "mapper_omitted": bool(mapper_omitted)}


def forms_for(info, n_orders, rot, rng):
    """one submission per order of the list; every documented form of THIS list occurs (lists with anti-patterns get
    one order per form), the rotation `rot` decides which order meets which form"""
    if info.is_default:
        fs = [submission("default-none"), submission("dicts", "list"), submission("objs"), submission("direct"),
              submission("dicts", "str"), submission("objs", mapper_omitted=True)]
        # the default list in its own order can be asked for without naming it; the other orders need the list
        return [fs[0]] + [fs[1 + (k + rot) % (len(fs) - 1)] for k in range(n_orders - 1)]
    if info.n == 1:
        fs = [submission("single"), submission("objs"), submission("dicts", "str"), submission("direct"), submission("dicts", "list")]
    elif info.has_anti:
        fs = [submission("objs"), submission("dicts", "str"), submission("dicts", "list"), submission("direct")]
    else:
        fs = [submission("objs"), submission("dicts"), submission("direct")]
    out = [dict(fs[(k + rot) % len(fs)]) for k in range(n_orders)]
    for f in out:
        if f["form"] != "direct" and rng.random() < 0.15:
            f["mapper_omitted"] = True
    return out


def form_tags(info, sub):
    f = sub["form"]
    t = {"form:" + {"objs": "list-of-FGConfig", "dicts": "list-of-dicts", "single": "single-FGConfig",
                    "default-none": "FGConfigProvider()", "direct": "build_config_tree_from_list"}[f]}
    if f == "dicts" and info.has_anti:
        import worker_seed
        written = [d.get("anti_pattern") for d in worker_seed.anti_as(info.dicts, sub.get("anti_as"))]
        if any(isinstance(a, str) for a in written):
            t.add("form:anti-pattern-as-plain-string")
        if any(isinstance(a, list) for a in written):
            t.add("form:anti-pattern-as-list")
    if sub.get("mapper_omitted"):
        t.add("form:mapper-left-to-the-provider")
    return t


def tree_job(info, order, sub):
    return {"op": "tree", "cfgs": None if info.is_default else info.dicts, "order": order, "direct": sub["form"] == "direct",
            "form": sub["form"], "anti_as": sub.get("anti_as"), "mapper_omitted": bool(sub.get("mapper_omitted"))}


# ---------------------------------------------------------------------------
# oracle: true embedding order by enumeration (independent of fgutils' matcher and of Lean)
# ---------------------------------------------------------------------------
def sym_ok(ps, hs):
    ps = (ps or "").lower()
    hs = (hs or "").lower()
    return ps == "r" or ps == hs


def true_embeds(P, H):
    """is there an injective map P.nodes -> H.nodes, symbol-admitted, every pattern bond present in
    H with the same order?"""
    pn = list(P.nodes)
    hn = list(H.nodes)
    if len(pn) > len(hn):
        return False
    psym = {p: P.nodes[p].get("symbol") for p in pn}
    hsym = {h: H.nodes[h].get("symbol") for h in hn}
    asg = {}
    used = set()

    def rec(i):
        if i == len(pn):
            return True
        p = pn[i]
        for h in hn:
            if h in used or not sym_ok(psym[p], hsym[h]):
                continue
            ok = True
            for q in P.adj[p]:
                if q in asg:
                    hq = asg[q]
                    if not H.has_edge(h, hq) or H.edges[h, hq].get("bond") != P.edges[p, q].get("bond"):
                        ok = False
                        break
            if ok:
                asg[p] = h
                used.add(h)
                if rec(i + 1):
                    return True
                del asg[p]
                used.discard(h)
        return False
    return rec(0)


class ListInfo:
    """everything about one configuration list that does not depend on its order"""

    def __init__(self, cfg_dicts):
        from fgutils.fgconfig import FGConfig, _default_fg_config
        from fgutils.permutation import PermutationMapper
        from fgutils.algorithm.subgraph import map_subgraph_to_graph
        self.is_default = cfg_dicts is None
        self.dicts = cfg_dicts if cfg_dicts is not None else list(_default_fg_config)
        self.objs = [FGConfig(**c) for c in self.dicts]
        n = self.n = len(self.objs)
        mapper = PermutationMapper(wildcard="R", ignore_case=True)
        self.enc = [[o.name, o.pattern_str, enc_graph(o.pattern), [enc_graph(a) for a in o.anti_pattern]]
                    for o in self.objs]
        emb = self.emb = [[i != j and true_embeds(self.objs[i].pattern, self.objs[j].pattern)
                           for j in range(n)] for i in range(n)]
        anti = self.anti = [[any(true_embeds(a, self.objs[j].pattern) for a in self.objs[i].anti_pattern)
                             for j in range(n)] for i in range(n)]
        self.connected = all(o.pattern.number_of_nodes() > 0 and nx.is_connected(o.pattern) and
                             all(nx.is_connected(a) for a in o.anti_pattern) for o in self.objs)
        self.mutual = any(emb[i][j] and emb[j][i] for i in range(n) for j in range(n) if i != j)
        self.has_cycle = any(o.pattern.number_of_edges() >= o.pattern.number_of_nodes() for o in self.objs) or \
            any(a.number_of_edges() >= a.number_of_nodes() for o in self.objs for a in o.anti_pattern)
        self.has_anti = any(o.anti_pattern for o in self.objs)
        self.anti_sizes_differ = any(len({a.number_of_nodes() for a in o.anti_pattern}) > 1 for o in self.objs)
        lt = self.lt = [[i != j and emb[i][j] and not emb[j][i] and not anti[i][j] for j in range(n)]
                        for i in range(n)]
        self.cover = sorted([i, j] for i in range(n) for j in range(n)
                            if lt[i][j] and not any(lt[i][z] and lt[z][j] for z in range(n)))
        self.minimal = [j for j in range(n) if not any(lt[i][j] for i in range(n))]
        # the anti-pattern veto: pairs it removes from the embedding order, whether that changes the hierarchy,
        # and whether the vetoed relation is still transitive (the statement speaks of an ORDER: a list on which
        # the veto leaves a non-transitive relation is outside the domain, counted and logged)
        self.veto_pairs = [[i, j] for i in range(n) for j in range(n)
                           if i != j and emb[i][j] and not emb[j][i] and anti[i][j]]
        lt0 = [[i != j and emb[i][j] and not emb[j][i] for j in range(n)] for i in range(n)]
        cover0 = sorted([i, j] for i in range(n) for j in range(n)
                        if lt0[i][j] and not any(lt0[i][z] and lt0[z][j] for z in range(n)))
        minimal0 = [j for j in range(n) if not any(lt0[i][j] for i in range(n))]
        self.veto_changes_hierarchy = (cover0, minimal0) != (self.cover, self.minimal)
        self.transitive = all(lt[i][k] for i in range(n) for j in range(n) if lt[i][j] for k in range(n) if lt[j][k])
        # the real matcher's answers on the same pairs (for the K2b scope decision)
        self.matcher_differs = False
        self.matcher_error = None
        try:
            for i in range(n):
                for j in range(n):
                    if i == j:
                        continue
                    if bool(map_subgraph_to_graph(self.objs[j].pattern, self.objs[i].pattern, mapper)) != emb[i][j]:
                        self.matcher_differs = True
                    for a in self.objs[i].anti_pattern:
                        if bool(map_subgraph_to_graph(self.objs[j].pattern, a, mapper)) != true_embeds(a, self.objs[j].pattern):
                            self.matcher_differs = True
        except Exception as e:  # noqa
            self.matcher_error = repr(e)
        self.in_domain = self.connected and not self.mutual and self.transitive
        keys = [(o.pattern_len, len(o.pattern), o.pattern.number_of_edges()) for o in self.objs]
        self.tie_pair = any(lt[i][j] and keys[i][:2] == keys[j][:2] for i in range(n) for j in range(n))


def canon_result(res, inv):
    """worker answer -> canonical impl output over the positions of the permuted list"""
    if "raised" in res:
        return ("raised", res["raised"])
    if "raised_in_config" in res or "worker_error" in res or "error" in res:
        return ("raised", "Harness")
    if res["links"] != res["links_by_parents"] or res["reached"] != list(range(res["n"])):
        return ("raised", "InconsistentTree")
    links = tuple(sorted((inv[i], inv[j]) for i, j in res["links"]))
    roots = tuple(sorted(inv[i] for i in res["roots"]))
    if len(set(roots)) != len(roots) or len(set(links)) != len(links):
        return ("raised", "DuplicateLinks")
    return (links, roots)


class RaisedOut(ImplError):
    def __init__(self, kind, text=""):
        self.kind = kind
        self.text = text or kind


def make_cases(info, order, results_by_seed, envseed, sub, tags):
    """one Case per distinct implementation answer among the seeds; sub = the form in which the list was submitted"""
    if not isinstance(sub, dict):
        sub = submission("direct" if sub else "objs")
    direct = sub["form"] == "direct"
    tags = set(tags) | form_tags(info, sub)
    n = info.n
    inv = {b: p for p, b in enumerate(order)}
    groups = {}
    for seed, res in results_by_seed:
        groups.setdefault(canon_result(res, inv), []).append((seed, res))
    cases = []
    cfgs_perm = [info.enc[b] for b in order]
    for out, members in sorted(groups.items(), key=lambda kv: str(kv[0])):
        if out[0] == "raised":
            impl = RaisedOut(out[1], members[0][1].get("text", ""))
        else:
            impl = [[list(l) for l in out[0]], list(out[1])]
        req = [Atom("C07"), Atom("tree"), MAPPER, cfgs_perm, envseed]
        meta = {"cfgs": None if info.is_default else info.dicts, "patterns": [d["pattern"] for d in info.dicts],
                "order": list(order), "hashseeds": [s for s, _ in members], "direct": direct, "submitted_as": sub,
                "has_cycle": info.has_cycle, "matcher_differs": info.matcher_differs,
                "anti_patterns": [d.get("anti_pattern") for d in info.dicts] if info.has_anti else None,
                "pairs_removed_by_the_anti_pattern_veto": [[inv[i], inv[j]] for i, j in info.veto_pairs],
                "expected_links": [[inv[i], inv[j]] for i, j in info.cover],
                "expected_roots": sorted(inv[i] for i in info.minimal),
                "distinct_answers_among_seeds": len(groups)}
        nontrivial = (tuple(meta["patterns"]), tuple(order)) if info.cover else None
        t = set(tags)
        t.add("in_domain" if info.in_domain else "out_of_domain")
        if info.has_cycle:
            t.add("cyclic-pattern")
        if info.matcher_differs:
            t.add("matcher!=oracle")
        if info.tie_pair:
            t.add("comparable-pair-with-equal-(len,size)")
        if info.has_anti:
            t.add("has-anti-pattern")
            if info.anti_sizes_differ:
                t.add("anti:several-anti-patterns-of-different-sizes-on-one-group")
            if info.veto_pairs:
                t.add("anti:veto-removes-a-would-be-descendant")
            if info.veto_changes_hierarchy:
                t.add("anti:veto-changes-links-or-roots")
            if not info.transitive:
                t.add("anti:vetoed-relation-not-transitive(out-of-domain)")
        if out[0] == "raised":
            t.add("impl-raised:" + out[1])
        if len(groups) > 1:
            t.add("answers-differ-between-seeds")
        c = Case(req, impl, in_domain=info.in_domain, meta=meta, nontrivial_key=nontrivial, tags=sorted(t))
        c.meta["_py_hasse"] = [sorted([inv[i], inv[j]] for i, j in info.cover), sorted(inv[i] for i in info.minimal)]
        cases.append(c)
    return cases


# ---------------------------------------------------------------------------
def load_corpus():
    """fixed regression inputs: corpus/C07/lists.json (every witness of DESIGN section 7 for C07, replays of
    the mutants), run first"""
    p = os.path.join(common.CORPUS_DIR, "C07", "lists.json")
    return [corpus_dicts(e) for e in json.load(open(p))]


# one-element lists: the provider also accepts a single FGConfig object instead of a list
SINGLETONS = [[{"name": "g0", "pattern": "ROR", "anti_pattern": "ROH"}], [{"name": "g0", "pattern": "CCOH", "anti_pattern": ["CC(O)O"]}],
              [{"name": "g0", "pattern": "RC(=O)OR"}], [{"name": "g0", "pattern": "c1ccccc1O", "anti_pattern": ["cOC", "C=O"]}]]


def corpus_dicts(e):
    """a corpus entry is either {"patterns": [...]} (anti-pattern free) or {"cfgs": [{"pattern": …, "anti_pattern": …} …]}"""
    if "cfgs" in e:
        return [dict(c, name=c.get("name", "g%d" % i)) for i, c in enumerate(e["cfgs"])]
    return [{"name": "g%d" % i, "pattern": p} for i, p in enumerate(e["patterns"])]


def plan(rng, tier):
    """-> list of (cfg dicts | None, [orders], tags)"""
    plans = []
    n_default = 6 if tier == "quick" else 60
    from fgutils.fgconfig import _default_fg_config
    nd = len(_default_fg_config)
    orders = [list(range(nd)), list(reversed(range(nd)))]
    for _ in range(n_default - 2):
        o = list(range(nd))
        rng.shuffle(o)
        orders.append(o)
    for dicts in load_corpus() + SINGLETONS:
        os_ = [list(range(len(dicts))), list(reversed(range(len(dicts))))]
        # one order per documented form of the list (forms_for): three without, four with anti-patterns, five for singletons
        for _ in range(3 if len(dicts) == 1 else 2 if any("anti_pattern" in d for d in dicts) else 1):
            o = list(range(len(dicts)))
            rng.shuffle(o)
            os_.append(o)
        plans.append((dicts, os_, {"corpus"} | ({"single-config"} if len(dicts) == 1 else set())))
    plans.append((None, orders, {"default-list"}))
    # lists with anti-patterns: generated until enough of them are in the domain (connected, no mutual pair, vetoed
    # relation still transitive) AND have a veto that removes a would-be descendant; everything generated on the way
    # is run as well (out-of-domain ones are counted and logged, never decide the verdict)
    want = 40 if tier == "quick" else 1500
    got = 0
    tries = 0
    while got < want and tries < 6 * want:
        tries += 1
        dicts, tags = gen_anti_list(rng)
        if len(dicts) < 2:
            continue
        try:
            info = ListInfo(dicts)
        except Exception:
            continue
        if info.in_domain and info.veto_pairs:
            got += 1
        os_ = [list(range(len(dicts)))]
        for _ in range(3):              # four orders: one per documented form of a list with anti-patterns
            o = list(range(len(dicts)))
            rng.shuffle(o)
            os_.append(o)
        plans.append((dicts, os_, set(tags) | {"generated"}, info))
    n_lists = 300 if tier == "quick" else 20000
    for k in range(n_lists):
        if k % 12 == 11:
            pats, tags = gen_disconnected(rng)
        else:
            pats, tags = gen_list(rng)
        if len(pats) < 2:
            continue
        dicts = [{"name": "g%d" % i, "pattern": p} for i, p in enumerate(pats)]
        os_ = [list(range(len(pats)))]
        for _ in range(2):
            o = list(range(len(pats)))
            rng.shuffle(o)
            os_.append(o)
        tags = set(tags)
        tags.add("generated")
        plans.append((dicts, os_, tags))
    return plans


def classify_known_factory(findings):
    k2b = next((f for f in findings if f["id"] == "K2b" and f["status"] == "open"), None)

    def classify(o):
        if k2b is None:
            return None
        m = o.case.meta
        # scope: a list with a cyclic pattern on which the real matcher's subgroup answers differ from
        # the true embedding order, and the implementation did exactly what the (proved) algorithm does
        # on those answers (implementation == model over the matcher model)
        if m.get("has_cycle") and m.get("matcher_differs") and o.corr:
            return k2b
        return None
    return classify


def hash_seeds(rng, tier):
    extra = [rng.randrange(5, 2 ** 32 - 1) for _ in range(1 if tier == "quick" else 3)]
    return [0, 1, 2, 3, 4] + extra


def run(tier, seed):
    r = Run("C07", tier, seed)
    if not prepare(r, PROOFS, "C07"):
        return 2
    rng = r.rng
    t0 = time.time()
    plans = plan(rng, tier)
    seeds = hash_seeds(rng, tier)
    # ---- per-list information (parsing, oracle, real matcher relation), in-process -------------
    infos = []
    skipped = 0
    for pl in plans:
        dicts, orders, tags = pl[:3]
        try:
            info = pl[3] if len(pl) > 3 else ListInfo(dicts)
        except Exception as e:  # generator produced something the parser refuses
            skipped += 1
            r.count("generator:pattern-refused-by-parser:" + type(e).__name__)
            continue
        infos.append((info, orders, tags))
    # ---- jobs ----------------------------------------------------------------------------------
    jobs = []
    index = []
    for li, (info, orders, tags) in enumerate(infos):
        # every list goes through ALL its documented forms, one per order (which order meets which form rotates)
        subs = forms_for(info, len(orders), li, rng)
        for oi, order in enumerate(orders):
            jobs.append(tree_job(info, order, subs[oi]))
            index.append((li, oi, subs[oi]))
    # quick: every job under every seed; thorough: the jobs are dealt round-robin into 16 shards and every
    # shard is answered by two fresh interpreters with different seeds (default-list jobs: four)
    batches = []
    assign = []
    if tier == "quick":
        for s in seeds:
            batches.append((s, jobs))
            assign.append(list(range(len(jobs))))
    else:
        shards = 16
        for sh in range(shards):
            jis = [ji for ji in range(len(jobs)) if ji % shards == sh]
            for t in range(2):
                s = seeds[(sh + t * (1 + sh // len(seeds))) % len(seeds)] if t == 0 else seeds[(sh + 1 + sh // len(seeds)) % len(seeds)]
                batches.append((s, [jobs[ji] for ji in jis]))
                assign.append(jis)
            heavy = [ji for ji in jis if infos[index[ji][0]][0].is_default]
            for t in range(2):
                s = seeds[(sh + 2 + t) % len(seeds)]
                batches.append((s, [jobs[ji] for ji in heavy]))
                assign.append(heavy)
    results = run_workers(batches)
    by_job = {}
    for (s, _), jis, res in zip(batches, assign, results):
        for ji, one in zip(jis, res):
            by_job.setdefault(ji, []).append((s, one))
    r.notes["worker_wall_s"] = round(time.time() - t0, 1)
    # ---- cases -----------------------------------------------------------------------------------
    cases = []
    for ji, (li, oi, sub) in enumerate(index):
        info, orders, tags = infos[li]
        cases += make_cases(info, orders[oi], by_job[ji], envseed=(ji % 5), sub=sub, tags=tags)
    outs = r.evaluate(cases, classify_known=classify_known_factory(common.load_known_findings()))
    # ---- cross-checks of the oracles and of the theorem's hypotheses ------------------------------
    oracle_mismatch = []
    hyps_fail = []
    pure_ne = 0
    for o in outs:
        if not o.ok_reply:
            continue
        hasse = o.extra[0]
        py = common.canon(o.case.meta["_py_hasse"])
        if hasse != py:
            oracle_mismatch.append(o)
        if o.case.in_domain and o.extra[2] != "1":
            hyps_fail.append(o)
        if o.case.in_domain and o.extra[3] != "1":
            oracle_mismatch.append(o)
        if o.extra[4] != "1":
            pure_ne += 1
    for o in outs:
        o.case.meta.pop("_py_hasse", None)
    r.extra_cov.update({
        "hash_seeds": seeds, "lists": len(infos), "tree_jobs": len(jobs), "lists_refused_by_parser": skipped,
        "oracle_python_vs_lean_mismatches": len(oracle_mismatch),
        "hypotheses_of_hasse_fail_on_in_domain_generated_list": len(hyps_fail),
        "model_with_assertion_vs_pure_model_mismatches": pure_ne,
        "worker_wall_s": r.notes["worker_wall_s"],
    })
    anti_infos = [i for i, _, _ in infos if i.has_anti and not i.is_default]
    nontrans = [i for i in anti_infos if not i.transitive]
    r.extra_cov.update({
        "lists_with_anti_patterns": len(anti_infos),
        "lists_with_anti_patterns_in_domain_with_a_veto_that_removes_a_would_be_descendant":
            sum(1 for i in anti_infos if i.in_domain and i.veto_pairs),
        "…_of_these_the_veto_changes_links_or_roots": sum(1 for i in anti_infos if i.in_domain and i.veto_changes_hierarchy),
        "pairs_removed_by_a_veto_in_domain": sum(len(i.veto_pairs) for i in anti_infos if i.in_domain),
        "lists_with_anti_patterns_out_of_domain_because_the_vetoed_relation_is_not_transitive": len(nontrans),
        "…_logged_examples": [[[d["pattern"], d.get("anti_pattern")] for d in i.dicts] for i in nontrans[:5]],
    })
    r.assumptions = [
        "Python's iteration order over the `parents` set (objects hashed by address) is an explicit permutation parameter of the model (C07.Env); exercised with fresh interpreters under PYTHONHASHSEED " + str(seeds),
        "the matcher is the frozen model Sub.mapSubgraphToGraph (validated against fgutils.algorithm.subgraph); on lists with cyclic patterns its answers may differ from true embedding (known finding K2/K2b)",
        "the true embedding order is computed by exhaustive enumeration in Lean (C07.embeds) and cross-checked against an independent enumeration in Python on every case",
        "domain: lists of connected patterns without two mutually embeddable entries on which the relation 'embeds, not conversely, not vetoed by an anti-pattern of the "
        "ancestor' is transitive (always so without anti-patterns; lists on which the veto leaves a non-transitive relation are run, counted and logged but never decide the verdict: "
        "the statement speaks of an order); the default list (31 groups in the code) carries its three anti-patterns, which exclude no listed group; corpus and generated lists with "
        "anti-patterns that DO exclude would-be descendants go beyond the quantifier text ('anti-pattern free') because the veto clause is part of the statement",
    ]
    rc = r.finish(
        level="proof",
        rule="permutations of the default list (31 groups) and of generated lists of 3-8 connected patterns (random trees, rings, fused rings, aromatic rings, "
             "sub-patterns of a common super-pattern, wildcard-blurred and case variants, ring-opened variants with equal node counts, templates), plus lists WITH anti-patterns "
             "(chemistry families such as CO/anti COC, C=O/anti OC=O, and generated lists in which an entry gets a piece of one of its descendants as anti-pattern; one or several "
             "anti-patterns of different sizes per group; generated until 40 (quick) / 1500 (thorough) in-domain lists with an effective veto exist), each built in fresh "
             "interpreters under several PYTHONHASHSEED values. EVERY list is submitted in ALL its documented forms, one per order of the list (tags form:*): list of FGConfig objects, "
             "list of dictionaries (anti-patterns all written as lists / every one-element anti-pattern written as a plain string), build_config_tree_from_list directly, "
             "a single FGConfig (one-element lists), FGConfigProvider() for the default list, mapper given or left to the provider's identical default (15%); all forms are judged "
             "against the same model and specification; one case per distinct answer; non-trivial = list with at least one covering pair, distinct by (patterns, order)",
        checker_cmd="cd lean && lake build " + " ".join(PROOFS) + " && lake env lean FGVerif/Audit/C07.lean",
        explanation="theorems in lean/FGVerif/Proofs/C07.lean about Model/C07.lean (order-theoretic core: buildTree computes the Hasse diagram for every list order and every set-iteration order; "
                    "default list instance by kernel decision on the regenerated table; Proofs/C07Anti.lean: on the corpus lists whose anti-patterns really exclude would-be descendants the model's "
                    "is_subgroup (veto branch included) equals the real is_subgroup by kernel decision on the regenerated table, and the Hasse theorem is instantiated for those on which the vetoed relation is an order); model tied to fgutils.fgconfig by differential testing in subprocesses; executable spec C07.specCheck "
                    "(Hasse diagram of the enumerated true embedding order) applied to every implementation output")
    if oracle_mismatch or hyps_fail:
        o = (oracle_mismatch or hyps_fail)[0]
        p = r.write_replay("machinery", "oracle_mismatch", r.outcome_payload(o))
        print("ERROR property=C07 the two embedding oracles (or the hypotheses of C07.hasse on an in-domain list) disagree on %d case(s); first: %s" % (
            len(oracle_mismatch) + len(hyps_fail), p))
        return 2 if rc == 0 else rc
    return rc


def replay(path):
    """re-run the implementation on the recorded list/order/seeds and ask the driver again"""
    payload = json.load(open(path))
    meta = payload.get("meta") or {}
    r = Run("C07", "replay", payload.get("seed", 0))
    if not prepare(r, PROOFS, "C07"):
        return 2
    if "order" not in meta:
        print("replay file names a proof obligation / has no input: rebuilding the proofs is the replay;",
              "proofs_ok=%s" % r.build.proofs_ok)
        return 0 if r.build.proofs_ok and not r.audit_bad else 1
    info = ListInfo(meta.get("cfgs"))
    seeds = meta.get("hashseeds") or [0]
    sub = meta.get("submitted_as") or submission("direct" if meta.get("direct") else "objs")
    job = tree_job(info, meta["order"], sub)
    # object addresses (hence set iteration order) vary from process to process even under one hash seed:
    # every recorded seed is replayed in four fresh interpreters
    runs = [(s, [job]) for s in seeds for _ in range(4)]
    res = run_workers(runs)
    cases = make_cases(info, meta["order"], [(s, x[0]) for (s, _), x in zip(runs, res)], 0, sub, {"replay"})
    outs = r.evaluate(cases, classify_known=classify_known_factory(common.load_known_findings()))
    for o in outs:
        o.case.meta.pop("_py_hasse", None)
        print("replay: submitted as %s" % (sub,))
        print("replay: patterns=%s anti_patterns=%s order=%s hashseeds=%s\n  impl=%s\n  model=%s\n  expected(hasse)=%s spec_impl=%s" % (
            meta.get("patterns"), o.case.meta.get("anti_patterns"), meta["order"], o.case.meta["hashseeds"], common.sx_of(o.impl_c),
            common.sx_of(o.model), common.sx_of(o.extra[0]) if o.extra else "?", o.spec_impl))
    return r.finish(level="proof", rule="replay", checker_cmd="", explanation="replay of " + path)
