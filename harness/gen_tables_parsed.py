#!/venv/bin/python
"""Translator for the parse obligations (lean/FGVerif/Proofs/GenParsed.lean): what the other generated
files do not carry next to their parsed data -> lean/FGVerif/Generated/Parsed.lean.

Kernel evaluation of `String` operations is slow in Lean (a `String` is a UTF-8 byte array), the parser
model's lexer works on `List Char`.  So every table whose pattern strings are parsed inside Lean is
emitted a second time with its pattern strings (and group keys) spelled as character lists; the proof
file first proves (kernel evaluation) that the `String` tables of Generated/Tables.lean /
Generated/C14.lean are exactly these tables with `String.ofList` applied, and then evaluates the parser
model on the character lists.

* `stuckConfig`: the pattern STRINGS of the user configuration whose tree gen_tables_c05.py emits as
  `Gen.C05.stuckTreeNodes` (same row shape as `Gen.defaultFgConfig`), read from that translator.
* `defaultConfigC`, `stuckConfigC`: `_default_fg_config` / that configuration with patterns and
  anti-patterns as character lists: (name, pattern, group_atoms?, anti_patterns).
* `daPosC`, `daPosCoresC`, `daNegC`, `daNegCoresC`, `commonC`: the tables of Generated/C14.lean (computed
  with the functions of gen_tables_c14.py) with keys and patterns as character lists.
* `proxyPatternsC`: every distinct pattern of the shipped proxy collections (character list) together with
  the graph the REAL parser the proxies use (`Parser(use_multigraph=True)`) makes of it.  A pattern the
  real parser refuses is listed in `proxyUnparsed` (the obligations then fail).

Reads /repo's current working tree ($FGUTILS_REPO); output is plain Lean data, rewritten only when its
content changed; nothing is cached between runs.
"""
import os
import sys

VERIF = os.path.dirname(os.path.dirname(os.path.abspath(__file__)))
REPO = os.environ.get("FGUTILS_REPO", "/repo")
if REPO not in sys.path:
    sys.path.insert(0, REPO)
sys.path.insert(1, os.path.join(VERIF, "harness"))
OUT = os.path.join(VERIF, "lean", "FGVerif", "Generated")


def lstr(s):
    return '"' + s.replace("\\", "\\\\").replace('"', '\\"') + '"'


def llist(xs, f=str):
    return "[" + ", ".join(f(x) for x in xs) + "]"


def lchar(c):
    if c == "'":
        return "'\\''"
    if c == "\\":
        return "'\\\\'"
    if 32 <= ord(c) < 127:
        return "'%s'" % c
    return "(Char.ofNat %d)" % ord(c)


def lchars(s):
    """a Python str as a Lean `List Char` literal"""
    return "[" + ", ".join(lchar(c) for c in s) + "]"


def dbl(x):
    d = x * 2
    assert int(d) == d, x
    return int(d)


def lint(i):
    i = int(i)
    return str(i) if i >= 0 else "(%d)" % i


def llabel(b):
    if b is None:
        return "Label.nil"
    if isinstance(b, (tuple, list)):
        return "Label.p %s %s" % (lint(dbl(b[0])), lint(dbl(b[1])))
    return "Label.s %s" % lint(dbl(b))


def lgraph(g):
    """networkx Graph / MultiGraph -> Lean `Graph` literal (node order, adjacency order, key order kept)"""
    import networkx as nx
    multi = isinstance(g, nx.MultiGraph)
    nodes = []
    for n, d in g.nodes(data=True):
        fields = []
        if d.get("symbol") is not None:
            fields.append("symbol := some %s" % lstr(d["symbol"]))
        if d.get("labels") is not None:
            fields.append("labels := some [%s]" % ", ".join(lstr(x) for x in d["labels"]))
        if d.get("is_labeled") is not None:
            fields.append("isLabeled := some %s" % ("true" if d["is_labeled"] else "false"))
        if d.get("aam") is not None:
            fields.append("aam := some %s" % lint(d["aam"]))
        nodes.append("(%s, { %s })" % (lint(n), ", ".join(fields)))
    adj = []
    for n in g.nodes:
        row = []
        for v, dd in g.adj[n].items():
            if multi:
                keyed = ", ".join("(%s, %s)" % (lint(k), llabel(e.get("bond"))) for k, e in dd.items())
            else:
                keyed = "(0, %s)" % llabel(dd.get("bond"))
            row.append("(%s, [%s])" % (lint(v), keyed))
        adj.append("(%s, [%s])" % (lint(n), ", ".join(row)))
    return "{ multi := %s, nodes := [%s], adj := [%s] }" % (
        "true" if multi else "false", ", ".join(nodes), ", ".join(adj))


def cfg_parts(c):
    ga = c.get("group_atoms")
    ap = c.get("anti_pattern", [])
    ap = ap if isinstance(ap, list) else [ap]
    return c["name"], c["pattern"], ga, ap


def cfg_row(c):
    name, pat, ga, ap = cfg_parts(c)
    return "(%s, %s, %s, %s)" % (lstr(name), lstr(pat), "none" if ga is None else "some " + llist(ga), llist(ap, lstr))


def cfg_row_c(c):
    name, pat, ga, ap = cfg_parts(c)
    return "(%s, %s, %s, %s)" % (lstr(name), lchars(pat), "none" if ga is None else "some " + llist(ga), llist(ap, lchars))


def graph_row_c(g):
    pattern, anchors, refs = g
    return "(%s, %s, %s)" % (lchars(pattern), llist(anchors), llist(refs, lambda ls: llist(ls, lstr)))


def group_table_c(name, doc, rows):
    body = ",\n  ".join("(%s, %s, %s)" % (lchars(k), lstr(n), llist(gs, graph_row_c)) for k, n, gs in rows)
    return "/-- %s -/\ndef %s : List (List Char × String × List (List Char × List Nat × List (List String))) := [\n  %s]\n" % (doc, name, body)


def main():
    import gen_tables_c05
    import gen_tables_c14 as T14
    import fgutils.fgconfig as FC
    from fgutils.parse import Parser
    from fgutils.proxy import Proxy
    from fgutils.proxy_collection.common import common_groups
    from fgutils.proxy_collection.diels_alder_proxy import DielsAlderProxy

    cfg_type = "List (String × List Char × Option (List Nat) × List (List Char))"
    lines = ["import FGVerif.Model.Graph",
             "/- GENERATED by harness/gen_tables_parsed.py from /repo's working tree. Do not edit. -/",
             "namespace Gen.Parsed", "",
             "/-- the user configuration whose tree is `Gen.C05.stuckTreeNodes`: (name, pattern, group_atoms?, anti_patterns) -/",
             "def stuckConfig : List (String × String × Option (List Nat) × List String) := " +
             llist(gen_tables_c05.STUCK_CONFIG, cfg_row), "",
             "/-- `stuckConfig` with the patterns as character lists -/",
             "def stuckConfigC : %s := %s" % (cfg_type, llist(gen_tables_c05.STUCK_CONFIG, cfg_row_c)), "",
             "/-- `_default_fg_config` with the patterns as character lists -/",
             "def defaultConfigC : %s := %s" % (cfg_type, llist(FC._default_fg_config, cfg_row_c)), ""]

    # the tables of Generated/C14.lean (same objects, same functions) with keys / patterns as character lists
    patterns, seen = [], set()

    def note(rows_or_graphs, grouped):
        for x in rows_or_graphs:
            for g in (x[2] if grouped else [x]):
                if g[0] not in seen:
                    seen.add(g[0])
                    patterns.append(g[0])

    for neg, nm in ((False, "daPos"), (True, "daNeg")):
        p = DielsAlderProxy(neg_sample=neg)
        groups = T14.effective_groups(p)
        rows = T14.table(groups)
        keys = set(groups.keys())
        cores = [(pg.pattern, [int(a) for a in pg.anchor], T14.refs_of(pg.pattern, keys)) for pg in p.core.graphs]
        lines.append(group_table_c(nm + "C", "`Gen.C14.%s` with keys and patterns as character lists" % nm, rows))
        lines.append("/-- `Gen.C14.%sCores` with patterns as character lists -/\ndef %sCoresC : List (List Char × List Nat × List (List String)) := %s\n"
                     % (nm, nm, llist(cores, graph_row_c)))
        note(rows, True)
        note(cores, False)
    rows = T14.table(T14.effective_groups(Proxy("C", list(common_groups))))
    lines.append(group_table_c("commonC", "`Gen.C14.common` with keys and patterns as character lists", rows))
    note(rows, True)

    prow, bad = [], []
    for s in patterns:
        try:
            g = Parser(use_multigraph=True).parse(s)
            prow.append("  (%s, %s)" % (lchars(s), lgraph(g)))
        except Exception as e:  # noqa
            bad.append("%s: %s" % (s, type(e).__name__))
    lines.append("/-- every distinct pattern of the shipped proxy collections (character list) with the graph")
    lines.append("    `Parser(use_multigraph=True).parse` makes of it -/")
    lines.append("def proxyPatternsC : List (List Char × Graph) := [")
    lines.append(",\n".join(prow) + "]")
    lines.append("")
    lines.append("/-- shipped patterns the real parser refused -/")
    lines.append("def proxyUnparsed : List String := " + llist(bad, lstr))
    lines.append("")
    lines.append("end Gen.Parsed")
    content = "\n".join(lines) + "\n"
    os.makedirs(OUT, exist_ok=True)
    path = os.path.join(OUT, "Parsed.lean")
    old = open(path).read() if os.path.exists(path) else None
    if old != content:
        with open(path, "w") as f:
            f.write(content)
        print("gen_tables_parsed: rewrote", path)
    else:
        print("gen_tables_parsed: unchanged")


if __name__ == "__main__":
    main()
