"""C03 — anchored subgraph matching never misses an embedding (fails only on clause `c03_missed`)."""
import c03_common

PROOFS = c03_common.PROOFS


def run(tier, seed):
    return c03_common.run("C03", tier, seed)


def replay(path):
    return c03_common.replay("C03", path)
