"""C05 — functional-group query results are justified, most specific and covering.

Two comparisons per case:
  (i)  exact end-to-end output, Lean model (`C05.getFunctionalGroups`, tree passed as data) vs
       `FGQuery(...).get(graph)`;
  (ii) the executable specification with TRUE embeddings (`C05.specFailures`, `Witnessed⋆`) applied to
       the implementation's output.
A failing clause is inside the scope of known finding K3 iff it is an unwitnessed entry whose witness
mapping, as returned by the real `map_subgraph`, is not an embedding (decided per case by re-running the
query with `fgutils.query.is_functional_group` / `map_subgraph` wrapped); anything else is a VIOLATION.

ENTRY POINTS / INPUT FORMS (tags cfg_entry:*, cfg_repr:*, cfg_flavour:*, mol_form:*, entry:get(*)): the configuration reaches
FGQuery as provider object, list of dicts, list of FGConfig objects, single FGConfig or not at all; generated lists come in
three flavours (H/R anywhere, H/R ONLY in anti-patterns, none at all; anti-pattern as string or list, several sizes per
group); the molecule is handed to `get` as plain graph, with extra attributes, numpy ids, frozen, as sub-graph view, or as
the SMILES string; `get` runs on a private copy whose observable state must be unchanged afterwards.
"""
import copy
import os
import sys

import networkx as nx

from common import Atom, Case, Run, call_impl, prepare, ImplError, enc_graph, enc_mapper, load_known_findings, canon
import gen_tables_c05 as gt
from c03_common import apply_forms, choose_forms          # FORMS of a graph object: extra attributes, numpy ids, frozen, view

import genparsed

# GenParsed: the generated parsed tables this check consumes are what the parser model makes of the
# generated pattern strings (a parser change that alters how a shipped pattern parses breaks it)
PROOFS = ["FGVerif.Proofs.C05", "FGVerif.Proofs.C05Bridge", "FGVerif.Proofs.GraphWF", "FGVerif.Proofs.C12Forest",
          "FGVerif.Proofs.C05Input", genparsed.MODULE]

# ---------------------------------------------------------------------------
# encoders
# ---------------------------------------------------------------------------


def enc_tree_node(n, ch):
    c = n.fgconfig
    return [c.name, enc_graph(c.pattern), [int(x) for x in c.group_atoms], [enc_graph(a) for a in c.anti_pattern],
            int(c.max_pattern_size), list(ch)]


def enc_tree(roots):
    nodes, rs = gt.extract_tree(roots)
    return [[enc_tree_node(n, ch) for n, ch in nodes], rs]


# ---------------------------------------------------------------------------
# molecules: fragment assembly -> SMILES -> RDKit -> graph
# ---------------------------------------------------------------------------
SUBST = ['O', 'O', 'OC', 'OCC', '=O', 'N', 'NC', 'N(C)C', 'C(=O)O', 'C(=O)OC', 'C(=O)N', 'C(=O)NC', 'C(=O)N(C)C',
         'C(=O)C', 'C=O', 'OO', 'OOC', 'C#N', 'Cl', 'Br', 'F', 'I', 'S', 'SC', 'C(=O)Cl', 'N=O', '[N+](=O)[O-]',
         'C(=O)SC', 'OC(=O)C', 'OC(=O)N', 'OC(=O)NC', 'C(=O)OO', 'C(O)OC', 'C(OC)OC', 'C(O)O', 'C=C=O', 'C=C', 'C=CO',
         'OC(=O)OC', 'C(=O)OC(=O)C', 'C(C)(C)O', 'C(C)O', 'CO', 'C(C)(OC)OC', 'C(C)(O)OC']
# {r} = ring closure digit of this nesting depth, {} = slot
ACYCLIC_T = ['C{}', 'C{}', 'C{}', 'C({})C{}', 'C({})C{}', 'C({})({})C{}', 'CC{}', 'CC({})C{}', 'N({})C{}', 'O{}', 'S{}',
             'C(={})C{}', 'C=C{}', 'C#C{}', 'C(=O)({}){}', 'OO{}', 'C({})O{}', 'C({})N{}', 'C(=O)O{}', 'C(=O)N({}){}']
TEMPLATES = ACYCLIC_T + ACYCLIC_T + [
             'c{r}ccc({})cc{r}{}', 'c{r}ccccc{r}{}', 'c{r}cc({})ccc{r}{}', 'C{r}CC{r}{}', 'C{r}CC{r}({}){}', 'C{r}CCC{r}{}',
             'C{r}CCCC{r}{}', 'C{r}CCCCC{r}{}', 'C{r}CCC({})CC{r}{}', 'C{r}CCOC{r}{}', 'C{r}CO{r}{}', 'C{r}OC{r}{}',
             'C{r}(C)OC{r}{}', 'C{r}COC{r}{}', 'C{r}CCOCC{r}{}', 'C{r}COCCO{r}', 'C{r}CC(=O)C{r}{}', 'C{r}CCC(=O)O{r}',
             'C{r}CCN({})C{r}', 'C{r}CCN{r}C(=O){}', 'c{r}ccoc{r}{}', 'c{r}ccsc{r}{}', 'c{r}ccncc{r}{}', 'c{r}cc[nH]c{r}',
             'C{r}CCSC{r}', 'C{r}C=CC{r}{}', 'C{r}OC{r}O{}', 'C{r}CC(O{r})O{}', 'C=C{}', 'C#C{}', 'C(=O)({}){}', 'OO{}']


def _fill(rng, depth):
    p = rng.random()
    if depth >= 3 or p < 0.30:
        return '' if rng.random() < 0.5 else rng.choice(SUBST)
    if p < 0.55:
        return rng.choice(SUBST)
    t = rng.choice(TEMPLATES)
    out = ''
    i = 0
    while i < len(t):
        if t.startswith('{r}', i):
            out += str(depth + 1)
            i += 3
        elif t.startswith('{}', i):
            out += _fill(rng, depth + 1)
            i += 2
        else:
            out += t[i]
            i += 1
    return out


_rd_quiet = False


def _rdkit_quiet():
    global _rd_quiet
    if not _rd_quiet:
        from rdkit import RDLogger
        RDLogger.DisableLog('rdApp.*')
        _rd_quiet = True


def gen_smiles(rng):
    """random SMILES with 3-25 heavy atoms that RDKit accepts"""
    import rdkit.Chem as Chem
    _rdkit_quiet()
    for _ in range(200):
        t = rng.choice(TEMPLATES)
        s = ''
        i = 0
        while i < len(t):
            if t.startswith('{r}', i):
                s += '1'
                i += 3
            elif t.startswith('{}', i):
                s += _fill(rng, 1)
                i += 2
            else:
                s += t[i]
                i += 1
        s = s.replace('()', '')
        if '(=)' in s or s.endswith('='):
            continue
        mol = Chem.MolFromSmiles(s)
        if mol is None:
            continue
        if 3 <= mol.GetNumHeavyAtoms() <= 25:
            return s
    return 'CCO'


def relabel(g, rng, style):
    """hand-built variant of a molecule graph with sparse / offset / shuffled ids (fresh nx.Graph,
    nodes and edges inserted in a chosen order)"""
    ids = list(g.nodes)
    n = len(ids)
    if style == 'offset':
        k = rng.randint(1, 40)
        new = {v: v + k for v in ids}
    elif style == 'sparse':
        pool = rng.sample(range(0, 4 * n + 10), n)
        pool.sort()
        new = dict(zip(ids, pool))
    elif style == 'shuffled':
        pool = rng.sample(range(0, 3 * n + 5), n)
        new = dict(zip(ids, pool))
    elif style == 'negative':
        k = rng.randint(1, n + 3)
        new = {v: v - k for v in ids}
    else:
        new = {v: v for v in ids}
    h = nx.Graph()
    order = list(ids)
    if style == 'shuffled' and rng.random() < 0.5:
        rng.shuffle(order)
    for v in order:
        h.add_node(new[v], **copy.deepcopy(g.nodes[v]))
    edges = list(g.edges(data=True))
    if style == 'shuffled' and rng.random() < 0.5:
        rng.shuffle(edges)
    for u, v, d in edges:
        if rng.random() < 0.5 and style == 'shuffled':
            u, v = v, u
        h.add_edge(new[u], new[v], **copy.deepcopy(d))
    return h


# ---------------------------------------------------------------------------
# configurations
# ---------------------------------------------------------------------------
POOL = ['C(=O)', 'RC(=O)H', 'RC(=O)R', 'RC(=O)OH', 'RC(=O)N(R)R', 'COH', 'CCOH', 'C(C)(C)OH', 'C=COH', 'RC(OC)(OC)H',
        'RC(OR)(OR)R', 'ROR', 'RSR', 'RC(=O)OR', 'RC(=O)SR', 'RC(=O)OC(=O)R', 'RN(R)R', 'RC#N', 'RN=O', 'RN(=O)O',
        'ROOR', 'RC(=O)OOH', 'RC(OH)(OR)R', 'C:COH', 'C:CN(R)R', 'ROC(=O)N(R)R', 'RC(=O)Cl', 'RO', 'CO', 'C=O', 'RN',
        'CN', 'RCl', 'CCl', 'RS', 'ROH', 'NC=O', 'RC(=O)O', 'OO', 'CBr', 'RF', 'CN(C)C', 'COC', 'CC(O)O', 'NH', 'OH',
        'CSC', 'RC=C', 'C=CO', 'N(H)H', 'CC(=O)C', 'COC(=O)', 'N#C', 'O=CO', 'CC(O)C', 'C(Cl)Cl']
SYMS = ['C', 'C', 'C', 'O', 'O', 'N', 'S', 'R', 'R', 'H', 'Cl']


# patterns without any `H` / `R` node, and anti-patterns (of different sizes) that need a hydrogen or a wildcard
POOL_NOHR = ['C=O', 'CO', 'CN', 'CCl', 'COC', 'CC(=O)C', 'NC=O', 'OO', 'N#C', 'O=CO', 'CC(O)C', 'CSC', 'C(Cl)Cl', 'CC(O)O', 'CBr', 'CC=O',
             'COC(=O)', 'CN(C)C', 'C=CO', 'CS', 'O', 'N', 'S', 'Cl', 'C(=O)O', 'C(=O)N', 'CC(=O)O', 'CC(=O)OC', 'C#N', 'CNC', 'CF', 'OC=O',
             'CC(=O)N', 'COO', 'CC(=O)Cl', 'NC', 'OC', 'CSC(=O)', 'C=CN']
ANTI_HR = ['OH', 'NH', 'SH', 'N(H)H', 'C(=O)H', 'COH', 'C(=O)OH', 'OC(H)', 'C(H)(H)(H)O', 'CN(H)H', 'CC(=O)H', 'C(=O)N(H)H', 'OOH', 'C(O)OH',
           'C(H)=O', 'NC(H)', 'C(H)(H)Cl', 'ROR', 'RN(R)R', 'RC(=O)R', 'RC(=O)OR', 'OR', 'RS', 'N(R)H', 'RC(R)(R)O', 'RC=O', 'C(=O)(R)H',
           'H', 'CH']
ANTI_NOHR = ['CC(O)O', 'C=O', 'OC', 'CO', 'N', 'C(=O)O', 'COC', 'CCl', 'CN', 'OO', 'CC(=O)C', 'C(=O)N', 'O=CO', 'CC(C)O', 'S']
SYMS_NOHR = ['C', 'C', 'C', 'O', 'O', 'N', 'S', 'Cl']


def has_hr(pattern_graph):
    return any(sym in ('H', 'R') for _, sym in pattern_graph.nodes(data='symbol'))


def gen_tree_pattern(rng, size, syms=None):
    """random acyclic connected pattern string with `size` nodes"""
    parent = [None] + [rng.randrange(i) for i in range(1, size)]
    kids = {i: [] for i in range(size)}
    for i in range(1, size):
        kids[parent[i]].append(i)
    sym = [rng.choice(syms or SYMS) for _ in range(size)]
    if all(s in 'RH' for s in sym):
        sym[0] = rng.choice(['O', 'N', 'C'])

    def emit(i):
        s = sym[i]
        ks = kids[i]
        for j, k in enumerate(ks):
            b = rng.choice(['', '', '', '', '=', '#'] if sym[i] not in 'RH' and sym[k] not in 'RH' else [''])
            sub = b + emit(k)
            if j < len(ks) - 1:
                s += '(' + sub + ')'
            else:
                s += sub
        return s

    return emit(0)


CONFIG_FLAVOURS = ["mixed", "mixed", "mixed", "mixed", "HR_only_in_anti_patterns", "HR_only_in_anti_patterns", "HR_only_in_anti_patterns",
                   "no_HR_at_all", "no_HR_at_all"]


def gen_config_list(rng, flavour="mixed"):
    """1-8 acyclic connected patterns with group_atoms and anti-patterns; returns the list of dicts.
    flavour: "mixed" — `H` / `R` anywhere; "HR_only_in_anti_patterns" — NO pattern of the list has an `H` or `R` node, the
    anti-patterns (1-3 per group, different sizes) do; "no_HR_at_all" — neither patterns nor anti-patterns.
    An anti-pattern is given as a plain string (one) or as a list."""
    from fgutils.parse import parse
    k = rng.choice([1, 2, 3, 3, 4, 4, 5, 6, 7, 8]) if flavour != "mixed" else rng.randint(3, 8)
    pats = []
    while len(pats) < k:
        if flavour == "mixed":
            p = rng.choice(POOL) if rng.random() < 0.65 else gen_tree_pattern(rng, rng.randint(1, 6))
        else:
            p = rng.choice(POOL_NOHR) if rng.random() < 0.7 else gen_tree_pattern(rng, rng.randint(1, 5), SYMS_NOHR)
        if p not in pats:
            pats.append(p)
    cfgs = []
    for i, p in enumerate(pats):
        g = parse(p)
        n = g.number_of_nodes()
        c = {"name": "g%d_%s" % (i, p), "pattern": p}
        q = rng.random()
        if q < 0.35:
            pass                                   # default: all nodes
        elif q < 0.75:
            hetero = [v for v, s in g.nodes(data='symbol') if s not in ('C', 'H', 'R')]
            ga = sorted(set(hetero + [v for v in g.nodes if rng.random() < 0.3]))
            if ga:
                c["group_atoms"] = ga
        else:
            ga = sorted(v for v in g.nodes if rng.random() < 0.5)
            if ga:
                c["group_atoms"] = ga
        if flavour == "mixed":
            if rng.random() < 0.2:
                aps = []
                for _ in range(rng.randint(1, 2)):
                    aps.append(rng.choice(['CC(O)O', 'C=O', 'OC', 'CO', 'N', 'C(=O)O', 'COC', 'CCl', p + 'C', p + 'O', 'CN', 'OO']))
                c["anti_pattern"] = aps if rng.random() < 0.8 else aps[0]
        elif rng.random() < (0.7 if flavour == "HR_only_in_anti_patterns" else 0.4):
            pool = (ANTI_HR + [p + 'H', p + 'R']) if flavour == "HR_only_in_anti_patterns" else (ANTI_NOHR + [p + 'C', p + 'O'])
            aps = rng.sample(pool, rng.choice([1, 1, 2, 3]))
            c["anti_pattern"] = aps[0] if len(aps) == 1 and rng.random() < 0.6 else aps
        cfgs.append(c)
    if flavour == "HR_only_in_anti_patterns" and not any("anti_pattern" in c for c in cfgs):
        c = rng.choice(cfgs)
        c["anti_pattern"] = rng.choice(ANTI_HR)
    return cfgs


class Config:
    """a configuration = provider + its tree in wire form (built once)"""

    def __init__(self, label, cfg_dicts=None, ignore_case=True, representation="dicts", flavour=None):
        """representation: the provider is built from the list of dicts or from a list of FGConfig OBJECTS"""
        from fgutils.fgconfig import FGConfigProvider, FGConfig
        from fgutils.permutation import PermutationMapper
        self.label = label
        self.cfg_dicts = cfg_dicts
        self.ignore_case = ignore_case
        self.representation = representation
        self.flavour = flavour
        self.mapper = PermutationMapper(wildcard="R", ignore_case=ignore_case)
        self.wire_mapper = enc_mapper("R", ignore_case, [])
        if cfg_dicts is None:
            self.provider = FGConfigProvider(mapper=self.mapper)
        elif representation == "objects":
            self.provider = FGConfigProvider([FGConfig(**copy.deepcopy(d)) for d in cfg_dicts], mapper=self.mapper)
        else:
            self.provider = FGConfigProvider(copy.deepcopy(cfg_dicts), mapper=self.mapper)
        self.roots = self.provider.get_tree()
        self.nodes, self.root_idx = gt.extract_tree(self.roots)
        self.wire_tree = [[enc_tree_node(n, ch) for n, ch in self.nodes], self.root_idx]
        self.n_anti = sum(len(n.fgconfig.anti_pattern) for n, _ in self.nodes)
        self.hr_in_patterns = any(has_hr(n.fgconfig.pattern) for n, _ in self.nodes)
        self.hr_in_anti = any(has_hr(a) for n, _ in self.nodes for a in n.fgconfig.anti_pattern)
        self.anti_sizes = sorted({a.number_of_nodes() for n, _ in self.nodes for a in n.fgconfig.anti_pattern})
        self.anti_as_string = cfg_dicts is not None and any(isinstance(d.get("anti_pattern"), str) for d in cfg_dicts)
        self.anti_several = any(len(n.fgconfig.anti_pattern) > 1 for n, _ in self.nodes)


def make_generated_config(rng, k):
    flavour = CONFIG_FLAVOURS[k % len(CONFIG_FLAVOURS)]
    for _ in range(50):
        cfgs = gen_config_list(rng, flavour)
        try:
            c = Config("gen%d" % k, cfgs, ignore_case=rng.random() < 0.85, representation=rng.choice(["dicts", "dicts", "objects"]),
                       flavour=flavour)
        except Exception:      # tree builder refused (assertion "matches in both directions", parse error …)
            continue
        if flavour != "mixed" and c.hr_in_patterns:
            continue
        return c
    return None


# ---------------------------------------------------------------------------
# implementation calls
# ---------------------------------------------------------------------------
IMPL_TIMEOUT_S = 20


class ImplTimeout(Exception):
    pass


def with_timeout(f, *a):
    """an implementation call that does not return (a defective hydrogen completion can create
    hub atoms on which the matcher's permutations explode) is reported as a raised call"""
    import signal

    def on_alarm(signum, frame):
        raise ImplTimeout("no answer within %d s" % IMPL_TIMEOUT_S)

    old = signal.signal(signal.SIGALRM, on_alarm)
    signal.setitimer(signal.ITIMER_REAL, IMPL_TIMEOUT_S)
    try:
        return f(*a)
    finally:
        signal.setitimer(signal.ITIMER_REAL, 0)
        signal.signal(signal.SIGALRM, old)


class InputModified(Exception):
    pass


def snapshot(g):
    """everything a caller can observe of a graph object: node order and attributes, adjacency order and edge attributes,
    graph attributes"""
    return ([(n, copy.deepcopy(d)) for n, d in g.nodes(data=True)],
            [(u, [(v, copy.deepcopy(dd)) for v, dd in g.adj[u].items()]) for u in g.nodes], copy.deepcopy(dict(g.graph)))


ENTRIES_GENERATED = ["provider", "provider", "provider", "provider", "list_of_dicts", "list_of_objects"]
# without a configuration FGQuery builds the default tree anew (0.5 s per query): 3.5% + 3.5% of the default-configuration queries (+ corpus)
ENTRIES_DEFAULT = ["provider"] * 26 + ["config_omitted", "all_defaults"]
ENTRIES_DEFAULT_THOROUGH = ["provider"] * 198 + ["config_omitted", "all_defaults"]      # ~200 rebuilt default trees in 20000 queries
LAST_TREE = [None]


def make_query(cfg, require_h, entry):
    """the ways a configuration reaches FGQuery: an FGConfigProvider object ("provider"), a list of dicts, a list of
    FGConfig objects, a single FGConfig object, nothing at all (default configuration; "all_defaults": no mapper either)"""
    from fgutils.query import FGQuery
    from fgutils.fgconfig import FGConfig
    if entry == "provider":
        return FGQuery(mapper=cfg.mapper, config=cfg.provider, require_implicit_hydrogen=require_h)
    if entry == "config_omitted":
        return FGQuery(mapper=cfg.mapper, require_implicit_hydrogen=require_h)
    if entry == "all_defaults":
        return FGQuery(require_implicit_hydrogen=require_h) if require_h is not True else FGQuery()
    if entry == "list_of_dicts":
        return FGQuery(mapper=cfg.mapper, config=copy.deepcopy(cfg.cfg_dicts), require_implicit_hydrogen=require_h)
    if entry == "list_of_objects":
        return FGQuery(mapper=cfg.mapper, config=[FGConfig(**copy.deepcopy(d)) for d in cfg.cfg_dicts], require_implicit_hydrogen=require_h)
    if entry == "single_object":
        return FGQuery(mapper=cfg.mapper, config=FGConfig(**copy.deepcopy(cfg.cfg_dicts[0])), require_implicit_hydrogen=require_h)
    raise ValueError(entry)


def impl_get(cfg, graph, require_h, entry="provider", smiles=None):
    """`FGQuery(...).get(value)`; value = a private copy of `graph` (whose observable state must be the same after the
    call: InputModified otherwise) or, with `smiles`, the SMILES string itself.  For the entries in which FGQuery builds
    its own provider, LAST_TREE[0] is the wire form of the tree THAT query used."""
    LAST_TREE[0] = None
    q = make_query(cfg, require_h, entry)
    if entry != "provider":
        nodes, rs = gt.extract_tree(q.config_provider.get_tree())
        LAST_TREE[0] = [[enc_tree_node(n, ch) for n, ch in nodes], rs]
    if smiles is not None:
        out = q.get(smiles)
    else:
        h = copy.deepcopy(graph)
        before = snapshot(h)
        out = q.get(h)
        if snapshot(h) != before:
            raise InputModified("FGQuery.get changed the graph it was given")
    return [[name, [int(i) for i in ids]] for name, ids in out]


def impl_isfg(cfg, node, graph, index, max_id):
    from fgutils.query import is_functional_group
    is_fg, ids = is_functional_group(graph, index, node.fgconfig, mapper=cfg.mapper, max_id=max_id)
    return [bool(is_fg), [int(i) for i in ids]]


# ---------------------------------------------------------------------------
# K3 oracle: trace the real query, test the witness mapping with an independent embedding check
# ---------------------------------------------------------------------------
def sym_ok(ps, hs, ignore_case):
    if ignore_case:
        ps, hs = ps.lower(), hs.lower()
        return ps == 'r' or ps == hs
    return ps == 'R' or ps == hs


def is_embedding(mapping, pattern, host, ignore_case):
    """mapping: list of (host id, pattern id).  total function on the pattern's nodes, injective,
    symbols admitted, every pattern bond present with the same order"""
    f = {}
    for h, p in mapping:
        if p in f and f[p] != h:
            return False
        f[p] = h
    if set(f) != set(pattern.nodes):
        return False
    if len(set(f.values())) != len(f):
        return False
    for p, h in f.items():
        if h not in host.nodes:
            return False
        if not sym_ok(pattern.nodes[p]['symbol'], host.nodes[h]['symbol'], ignore_case):
            return False
    for p, q, d in pattern.edges(data=True):
        if not host.has_edge(f[p], f[q]):
            return False
        if host.edges[f[p], f[q]].get('bond') != d.get('bond'):
            return False
    return True


def trace_query(cfg, graph, require_h):
    """re-run the real query with is_functional_group / map_subgraph of fgutils.query wrapped.
    returns list of records {index, name, result, calls:[(pattern, results)], graph}"""
    import fgutils.query as Q
    records = []
    orig_isfg, orig_map = Q.is_functional_group, Q.map_subgraph
    current = []

    def map_wrap(graph, anchor, subgraph, mapper, *a, **k):
        res = orig_map(graph, anchor, subgraph, mapper, *a, **k)
        if current:
            current[-1]["calls"].append((subgraph, res))
        return res

    def isfg_wrap(graph, index, config, mapper, max_id=None):
        rec = {"index": index, "config": config, "calls": [], "graph": graph, "max_id": max_id}
        current.append(rec)
        try:
            r = orig_isfg(graph, index, config, mapper, max_id=max_id)
        finally:
            current.pop()
        rec["result"] = (bool(r[0]), [int(i) for i in r[1]])
        records.append(rec)
        return r

    Q.is_functional_group, Q.map_subgraph = isfg_wrap, map_wrap
    try:
        out = with_timeout(impl_get, cfg, graph, require_h)
    finally:
        Q.is_functional_group, Q.map_subgraph = orig_isfg, orig_map
    return out, records


def entry_traces_to_non_embedding(cfg, graph, require_h, entry):
    """K3 scope test for one returned entry (name, atoms)"""
    name, atoms = entry
    out, records = trace_query(cfg, graph, require_h)
    hits = [r for r in records if r["config"].name == name and r["result"] == (True, list(atoms))]
    if not hits:
        return False
    for r in hits:
        pattern = r["config"].pattern
        max_id = r["max_id"] if r["max_id"] is not None else max(r["graph"].nodes)
        witness = None
        for patt, res in r["calls"]:
            if patt is not pattern:
                continue
            for ok, mp in res:
                if not ok:
                    continue
                ids = [m for m, p in mp if p in r["config"].group_atoms and m <= max_id]
                if r["index"] in ids:
                    witness = mp
                    break
            break
        if witness is None:
            return False
        if is_embedding(witness, pattern, r["graph"], cfg.mapper.ignore_case):
            return False        # genuine embedding: the failure has another cause
    return True


# ---------------------------------------------------------------------------
# K4 oracle: true embeddings by networkx's monomorphism enumeration (independent of matcher and model)
# ---------------------------------------------------------------------------
def true_embeddings(pattern, host, ignore_case):
    from networkx.algorithms.isomorphism import GraphMatcher
    gm = GraphMatcher(host, pattern,
                      node_match=lambda dh, dp: sym_ok(dp['symbol'], dh['symbol'], ignore_case),
                      edge_match=lambda a, b: a.get('bond') == b.get('bond'))
    for mm in gm.subgraph_monomorphisms_iter():
        yield {p: h for h, p in mm.items()}          # pattern -> host


def true_witness_sets(config, host, a, max_id, ignore_case):
    """atom lists of the true embeddings of the group's pattern that put a group atom on `a`;
    empty when an anti-pattern embeds on `a`"""
    res = set()
    if a > max_id:
        return res
    for mm in true_embeddings(config.pattern, host, ignore_case):
        ga = sorted(mm[p] for p in config.pattern.nodes if p in config.group_atoms and mm[p] <= max_id)
        if any(mm[p] == a for p in config.pattern.nodes if p in config.group_atoms):
            res.add(tuple(ga))
    if not res:
        return res
    for ap in config.anti_pattern:
        for mm in true_embeddings(ap, host, ignore_case):
            if a in mm.values():
                return set()
    return res


def entry_is_stuck_descent(cfg, graph, require_h, entry):
    """K4 scope test for one returned entry (name, atoms): at every listed atom where the entry is
    witnessed, some strict descendant group is witnessed — and at one of them no CHILD is (the greedy
    descent had nowhere to go).  Decided with true embeddings."""
    from fgutils.utils import add_implicit_hydrogens
    name, atoms = entry
    max_id = max(graph.nodes)
    host = add_implicit_hydrogens(copy.deepcopy(graph)) if require_h else graph
    ic = cfg.mapper.ignore_case
    idx = [k for k, (n, _) in enumerate(cfg.nodes) if n.fgconfig.name == name]
    children = {k: ch for k, (_, ch) in enumerate(cfg.nodes)}

    def desc(k):
        seen, stack = [], list(children[k])
        while stack:
            x = stack.pop()
            if x not in seen:
                seen.append(x)
                stack.extend(children[x])
        return seen

    stuck = False
    for k in idx:
        node = cfg.nodes[k][0]
        for a in atoms:
            if tuple(atoms) not in true_witness_sets(node.fgconfig, host, a, max_id, ic):
                continue
            wd = [d for d in desc(k) if true_witness_sets(cfg.nodes[d][0].fgconfig, host, a, max_id, ic)]
            if not wd:
                return False            # a clean anchoring atom exists: the clause fails for another reason
            wc = [c for c in children[k] if true_witness_sets(cfg.nodes[c][0].fgconfig, host, a, max_id, ic)]
            if not wc:
                stuck = True
    return stuck


def entry_blocked_by_non_embedding_anti_pattern(cfg, graph, require_h, entry):
    """K3 scope test for a `morespecific` failure of one returned entry (name, atoms) — the same matcher defect acting on
    an ANTI-pattern: at a listed atom where the entry is truly witnessed, the real query examined a strict descendant
    group, found its pattern there, and rejected it ONLY because map_subgraph reported an anti-pattern match whose
    mapping is not an embedding, while (true-embedding oracle) the descendant is witnessed there: its pattern embeds and
    no anti-pattern embeds on the atom.  Anything else: not in scope."""
    name, atoms = entry
    out, records = trace_query(cfg, graph, require_h)
    ic = cfg.mapper.ignore_case
    idx = [k for k, (n, _) in enumerate(cfg.nodes) if n.fgconfig.name == name]
    children = {k: ch for k, (_, ch) in enumerate(cfg.nodes)}

    def desc(k):
        seen, stack = [], list(children[k])
        while stack:
            x = stack.pop()
            if x not in seen:
                seen.append(x)
                stack.extend(children[x])
        return seen
    desc_cfgs = {id(cfg.nodes[d][0].fgconfig) for k in idx for d in desc(k)}
    for r in records:
        if id(r["config"]) not in desc_cfgs or r["index"] not in atoms:
            continue
        if r["result"][0] or r["index"] not in r["result"][1]:
            continue                      # accepted, or the pattern itself was not found on this atom
        host = r["graph"]
        max_id = r["max_id"] if r["max_id"] is not None else max(host.nodes)
        anti_hits = [(patt, mp) for patt, res in r["calls"] if any(patt is a for a in r["config"].anti_pattern)
                     for ok, mp in res if ok]
        if not anti_hits or any(is_embedding(mp, patt, host, ic) for patt, mp in anti_hits):
            continue                      # rejected by a genuine anti-pattern embedding
        if not true_witness_sets(r["config"], host, r["index"], max_id, ic):
            continue                      # the descendant is not witnessed here anyway
        entry_cfgs = [cfg.nodes[k][0].fgconfig for k in idx]
        if any(tuple(atoms) in true_witness_sets(c, host, r["index"], max_id, ic) for c in entry_cfgs):
            return True
    return False


# ---------------------------------------------------------------------------
# corpus
# ---------------------------------------------------------------------------
K3_WITNESSES = ['C1CCOC1', 'C12OC1O2']
TEST_QUERY_SMILES = ['C=O', 'C(=O)N', 'NC(=O)CC(N)C(=O)O', '[Cl]C(=O)C', 'COC(C)=O', 'CC(=O)O', 'NCC(=O)O',
                     'CNC(C)C(=O)c1ccccc1', 'CCSCC', 'CSC(=O)c1ccccc1', 'O=C(C)Oc1ccccc1C(=O)O', '[NH]1cccc1O',
                     'CC(C)(C)OO', 'CC(=O)OO', 'CCO', 'CC(C)O', 'CC(C)(C)O', 'C(O)(O)C=CO', 'C=CO', 'C1CO1',
                     'CC(=O)[Cl]', 'COOC']
PROBE_SMILES = ['CC(=O)Cl', 'O=CCl', 'CC(=O)SC(=O)OC', 'C1OC1', 'C1CC1O', 'OC1CC1', 'CC(O)(O)C', 'NC(=O)OC',
                'CC(=O)OC(=O)C', 'OO', 'C=C=O', 'CC(C)=C=O', 'c1ccccc1O', 'c1ccccc1N', 'CN(C)C', 'CC#N', 'CN=O',
                'C[N+](=O)[O-]', 'OCC(O)CO', 'C1COCCO1', 'O=C1CCC1', 'O=C1OCC1', 'CC(=O)N1CCCC1', 'S1CCCC1', 'CSC', 'CS',
                'O', 'N', 'C(=O)=O', 'OC(=O)O', 'CC(O)OC', 'CC(OC)OC', 'CC(C)(OC)OC', 'CC(C)(O)OC', 'ClC(Cl)Cl',
                'FC(F)(F)C(=O)O', 'N#CC(=O)C', 'O=C(N)N', 'OC=C', 'C=COC', 'O=S(=O)(O)O', 'CS(=O)C', 'NC(N)=N',
                'C1=COC=C1', 'c1ccoc1', 'c1ccsc1', 'C1CC2OC2C1', 'O1C2CC12', 'CO', 'OC', 'CCOC(C)=O', 'CC(=O)OCC',
                'CCCCCCCCCCCCCCCCCCCCCCCCO']
PARSED = ['C=O', 'CC(=O)OC', 'N(H):1C:C:C:C1', 'O', 'COH', 'C(H)(H)(H)OH']
ISFG_TESTS = [("carbonyl", "CC(=O)O", 2), ("carboxylic_acid", "CC(=O)O", 2), ("amide", "C(=O)N", 2),
              ("acyl_chloride", "CC(=O)[Cl]", 3), ("ether", "COOC", 1), ("ether", "COOC", 2),
              ("alcohol", "CO", 1), ("ester", "CC(=O)O", 3), ("primary_alcohol", "OCC(O)O", 0)]


def graph_to_lists(g):
    """replayable form of an input graph: nodes and edges in insertion order"""
    return {"nodes": [[int(n), d.get("symbol"), d.get("aam")] for n, d in g.nodes(data=True)],
            "edges": [[int(u), int(v), list(d["bond"]) if isinstance(d.get("bond"), (tuple, list)) else d.get("bond")]
                      for u, v, d in g.edges(data=True)]}


def graph_from_lists(j):
    g = nx.Graph()
    for n, sym, aam in j["nodes"]:
        attrs = {}
        if sym is not None:
            attrs["symbol"] = sym
        if aam is not None:
            attrs["aam"] = aam
        g.add_node(n, **attrs)
    for u, v, b in j["edges"]:
        g.add_edge(u, v, bond=tuple(b) if isinstance(b, list) else b)
    return g


def replay(path):
    """re-run one recorded case against the current working tree: implementation, model, specification"""
    import json
    from common import Driver, sx, sx_of
    _rdkit_quiet()
    j = json.load(open(path))
    meta = j.get("meta") or {}
    if "graph" not in meta:
        print("replay file has no input graph (kind=%s): %s" % (j.get("kind"), j.get("theorem_or_correspondence")))
        return 2
    cfg = Config(meta.get("config", "default"), meta.get("config_dicts"), ignore_case=meta.get("ignore_case", True),
                 representation=meta.get("cfg_representation") or "dicts")
    g = graph_from_lists(meta["graph"])
    rh = bool(meta.get("require_h", True))
    forms = meta.get("mol_forms") or []
    entry = meta.get("cfg_entry") or "provider"
    via = meta.get("via_smiles") or None
    gv = apply_forms(g, forms) if forms else g
    print("configuration entry: %s (provider built from %s); molecule: %s" % (
        entry, cfg.representation, ("the SMILES string %r" % via) if via else ("graph object, forms %s" % (forms or "plain"))))
    out = call_impl(with_timeout, impl_get, cfg, gv, rh, entry, via)
    if isinstance(out, ImplError) and out.text.startswith("InputModified"):
        out.kind = "InputModified"
    wire_tree = LAST_TREE[0] if (LAST_TREE[0] is not None and entry != "provider") else cfg.wire_tree
    c = Case([Atom("C05"), Atom("get"), cfg.wire_mapper, wire_tree, enc_graph(gv), rh], out)
    d = Driver()
    rep = d.ask(c.line())
    d.close()
    print("input   : %s  require_implicit_hydrogen=%s  config=%s" % (meta.get("corpus") or meta.get("smiles") or meta["graph"], rh, cfg.label))
    print("impl    : %s" % (out.text if isinstance(out, ImplError) else out))
    if not (isinstance(rep, list) and rep[0] == "ok"):
        print("driver  : %s" % sx_of(rep))
        return 2
    print("model   : %s" % sx_of(rep[1]))
    print("spec(impl output) = %s   failing clauses: %s" % (rep[3], sx_of(rep[4])))
    print("model == impl: %s" % (rep[1] == (["raised", out.kind] if isinstance(out, ImplError) else canon(out))))
    if rep[3] == "0":
        fails = rep[4]
        known = (not isinstance(out, ImplError)) and fails and all(
            (f[0] == "unwitnessed" and entry_traces_to_non_embedding(cfg, gv, rh, (out[int(f[1])][0], out[int(f[1])][1])))
            or (f[0] == "morespecific" and (entry_is_stuck_descent(cfg, gv, rh, (out[int(f[1])][0], out[int(f[1])][1]))
                                            or entry_blocked_by_non_embedding_anti_pattern(cfg, gv, rh, (out[int(f[1])][0], out[int(f[1])][1]))))
            for f in fails)
        if known:
            print("KNOWN-FINDING: property=C05 every failing clause is inside the scope of K3 (non-embedding returned "
                  "by map_subgraph, as witness or as anti-pattern match) or K4 (greedy descent stuck below a witnessed descendant)")
            return 0
        print("VIOLATION property=C05 replay=%s" % path)
        return 1
    return 0


def mol_tags(g):
    tags = []
    try:
        cyc = len(nx.cycle_basis(g)) > 0
    except Exception:
        cyc = False
    tags.append("mol:cyclic" if cyc else "mol:acyclic")
    if any(d.get('bond') == 1.5 for _, _, d in g.edges(data=True)):
        tags.append("mol:aromatic")
    n = g.number_of_nodes()
    tags.append("size:%s" % ("<=6" if n <= 6 else "7-12" if n <= 12 else "13-25" if n <= 25 else ">25"))
    return tags


# ---------------------------------------------------------------------------
# run
# ---------------------------------------------------------------------------
def run(tier, seed):
    from fgutils.rdkit import mol_smiles_to_graph, smiles_to_graph
    from fgutils.parse import parse
    from fgutils.its import get_its
    from fgutils.fgconfig import FGConfig
    from fgutils.utils import add_implicit_hydrogens
    _rdkit_quiet()
    r = Run("C05", tier, seed)
    if not prepare(r, PROOFS, "C05"):
        return 2
    genparsed.audit_into(r, only=["fast", "tree", "default_"])
    rng = r.rng
    ctx = {}          # id(case) -> (cfg, graph, require_h, entries) for the K3 oracle
    cases = []
    default = Config("default")

    # the generated table is the tree the running code builds (ties Generated/C05.lean to the source)
    gen = r.get_driver().ask("(C05 gentree)")
    if not (isinstance(gen, list) and gen[0] == "ok" and gen[1] == canon(default.wire_tree)):
        r.violation_lines.append("VIOLATION property=C05 replay=%s no-failing-input-found" % r.write_replay(
            "proof-obligation", "generated_tree", {"theorem_or_correspondence": [
                "Generated/C05.lean differs from FGConfigProvider().get_tree() of the running code"]}))

    tree_mismatch = [0]
    frozen_rh = {"cases": 0, "raised": 0, "kinds": {}}

    def add_get(cfg, g, rh, meta, tags, smiles=None, entry="provider", forms=(), via_smiles=False):
        """forms: FORMS of the molecule object handed to `get` (extra attributes, numpy ids, frozen, sub-graph view);
        entry: how the configuration reaches FGQuery; via_smiles: the SMILES string `get` is given instead of the graph `g`
        (which is what mol_smiles_to_graph makes of that string)"""
        forms = [list(f) for f in forms]
        gv = apply_forms(g, forms) if forms else g
        out = call_impl(with_timeout, impl_get, cfg, gv, rh, entry, via_smiles or None)
        if isinstance(out, ImplError) and out.text.startswith("InputModified"):
            out.kind = "InputModified"
        wire_tree = cfg.wire_tree
        if LAST_TREE[0] is not None and entry != "provider":
            if canon(LAST_TREE[0]) != canon(cfg.wire_tree):
                tree_mismatch[0] += 1
                wire_tree = LAST_TREE[0]          # the tree the query really used
        req = [Atom("C05"), Atom("get"), cfg.wire_mapper, wire_tree, enc_graph(gv), bool(rh)]
        in_dom = g.number_of_nodes() > 0 and all(d.get('symbol') is not None for _, d in g.nodes(data=True))
        t = list(tags)
        kinds = sorted({k for k, _ in forms})
        if rh and ("frozen" in kinds or "view" in kinds):
            # LIBRARY LIMITATION (recorded, out of domain): copy.deepcopy of a frozen graph / of a view is frozen too, so the
            # hydrogen completion inside `get` cannot add its nodes and raises NetworkXError
            in_dom = False
            frozen_rh["cases"] += 1
            if isinstance(out, ImplError):
                frozen_rh["raised"] += 1
                frozen_rh["kinds"][out.text[:60]] = frozen_rh["kinds"].get(out.text[:60], 0) + 1
            t.append("mol_form:frozen_or_view_with_hydrogen_completion(out_of_domain)")
        nonempty = (not isinstance(out, ImplError)) and len(out) > 0
        key = (cfg.label, smiles or tuple(sorted(int(x) for x in g.nodes)), tuple((int(u), int(v)) for u, v in g.edges), bool(rh)) if nonempty else None
        t += mol_tags(g) + ["cfg:" + ("default" if cfg.label == "default" else "generated"), "requireH:%d" % int(rh)]
        t += ["mol_form:" + k for k in kinds] or ["mol_form:plain"]
        t.append("entry:get(smiles_string)" if via_smiles else "entry:get(graph)")
        t.append("cfg_entry:" + entry)
        if cfg.label != "default":
            t.append("cfg_repr:" + cfg.representation)
            if cfg.flavour:
                t.append("cfg_flavour:" + cfg.flavour)
            if not cfg.hr_in_patterns and cfg.hr_in_anti:
                t.append("cfg:HR_only_in_anti_patterns(oracle)")
            if not cfg.hr_in_patterns and not cfg.hr_in_anti:
                t.append("cfg:no_HR_at_all(oracle)")
        if not isinstance(out, ImplError):
            t.append("entries:%s" % (len(out) if len(out) < 4 else ">=4"))
        c = Case(req, out, in_domain=in_dom,
                 meta=dict(meta, config=cfg.label, require_h=rh, smiles=smiles, config_dicts=cfg.cfg_dicts,
                           ignore_case=cfg.ignore_case, graph=graph_to_lists(g), mol_forms=forms, cfg_entry=entry,
                           cfg_representation=cfg.representation, via_smiles=via_smiles or None),
                 nontrivial_key=key, tags=t)
        # the known-finding oracles re-run the query on the object the implementation was given (the adjacency order of a
        # variant form may differ from the plain graph's, and with it the non-embedding the matcher returns on a ring)
        ctx[id(c)] = (cfg, gv, rh, out)
        cases.append(c)

    def add_isfg(cfg, node, g, idx, max_id, tags):
        out = call_impl(with_timeout, impl_isfg, cfg, node, g, idx, max_id)
        req = [Atom("C05"), Atom("isfg"), cfg.wire_mapper, enc_tree_node(node, []), enc_graph(g), int(idx), max_id]
        key = ("isfg", node.fgconfig.name, tuple(g.nodes), tuple(g.edges), idx) \
            if (not isinstance(out, ImplError)) and out[0] else None
        cases.append(Case(req, out, meta={"isfg": node.fgconfig.name, "index": idx}, nontrivial_key=key,
                          tags=["op:isfg"] + list(tags)))

    # ---- corpus ------------------------------------------------------------------------------
    corpus_file = os.path.join(os.path.dirname(os.path.dirname(os.path.abspath(__file__))), "corpus", "C05", "inputs.json")
    extra = {}
    if os.path.exists(corpus_file):
        import json
        extra = json.load(open(corpus_file))
    for s in K3_WITNESSES + [x for x in extra.get("k3_witnesses", []) if x not in K3_WITNESSES] + \
            TEST_QUERY_SMILES + PROBE_SMILES + extra.get("smiles", []):
        g = mol_smiles_to_graph(s)
        add_get(default, g, True, {"corpus": s}, ["corpus"], smiles=s)
        add_get(default, g, False, {"corpus": s}, ["corpus"], smiles=s)
    for s in PARSED:
        add_get(default, parse(s), True, {"corpus": "parse:" + s}, ["corpus", "explicitH"], smiles="parse:" + s)
    # offset / sparse ids with hydrogen completion (re-introduction of F9 must be seen here)
    for s, off in [('CO', 1), ('CCO', 5), ('CC(=O)O', 1), ('OCCN', 3), ('CC(=O)OC', 2), ('NCC(=O)O', 7)] + \
            [tuple(x) for x in extra.get("offset", [])]:
        g = nx.relabel_nodes(mol_smiles_to_graph(s), lambda v: v + off, copy=True)
        add_get(default, g, True, {"corpus": s, "offset": off}, ["corpus", "ids:offset"], smiles="%s+%d" % (s, off))
    g = parse('CO', idx_offset=1)
    add_get(default, g, True, {"corpus": "parse('CO', idx_offset=1)"}, ["corpus", "ids:offset"], smiles="parse:CO+1")
    # documentation example 2: ITS graph, user configuration, no hydrogens
    try:
        its = get_its(*smiles_to_graph("[C:1][C:2](=[O:3])[O:4][C:5].[O:6]>>[C:1][C:2](=[O:3])[O:6].[O:4][C:5]"))
        doc2 = Config("doc2", [{"name": "carbonyl-AE", "pattern": "C(=O)(<0,1>R)<1,0>R"}])
        add_get(doc2, its, False, {"corpus": "doc_example_2"}, ["corpus", "its"], smiles="doc2")
    except Exception as e:        # pragma: no cover
        r.notes["doc2"] = repr(e)
    # witness of K4: user configuration oxygen > ether > ester; the carbonyl oxygen comes first
    try:
        stuck = Config("stuck", copy.deepcopy(gt.STUCK_CONFIG))
        add_get(stuck, mol_smiles_to_graph("O=C(C)OC"), True, {"corpus": "K4:O=C(C)OC"}, ["corpus"], smiles="K4:O=C(C)OC")
        add_get(stuck, mol_smiles_to_graph("COC(C)=O"), True, {"corpus": "K4:COC(C)=O (clean order)"}, ["corpus"],
                smiles="K4:COC(C)=O")
    except Exception as e:        # pragma: no cover
        r.notes["stuck"] = repr(e)
    # user configurations whose patterns contain neither `H` nor `R` while an anti-pattern does (the hydrogen completion is
    # needed for the ANTI-pattern only), as dicts / as FGConfig objects / handed over as a list; anti-pattern as string and list
    try:
        acyl = [{"name": "acyl", "pattern": "CC=O", "group_atoms": [1, 2], "anti_pattern": "C(=O)H"},
                {"name": "dialkyl_ether", "pattern": "COC", "group_atoms": [1]}]
        acyl2 = [{"name": "acyl", "pattern": "CC=O", "group_atoms": [1, 2], "anti_pattern": ["C(=O)H", "C(=O)OH", "OH"]},
                 {"name": "sec_amine_like", "pattern": "CNC", "group_atoms": [1], "anti_pattern": ["N(H)H"]}]
        k = 0
        for dicts in (acyl, acyl2):
            for rep in ("dicts", "objects"):
                cfgx = Config("antiH%d" % k, copy.deepcopy(dicts), representation=rep, flavour="HR_only_in_anti_patterns")
                k += 1
                for s_ in ['COCC=O', 'COCC(=O)C', 'CC=O', 'CC(=O)O', 'CNC', 'CN', 'CC(=O)OC']:
                    for entry in ("provider", "list_of_dicts", "list_of_objects"):
                        add_get(cfgx, mol_smiles_to_graph(s_), True, {"corpus": "antiH:" + s_}, ["corpus", "corpus:anti_pattern_needs_H"],
                                smiles="antiH:" + s_, entry=entry)
        one = Config("single", [{"name": "carbonyl", "pattern": "C=O", "anti_pattern": "C(=O)H"}], flavour="HR_only_in_anti_patterns")
        for s_ in ['CC=O', 'CC(=O)C']:
            add_get(one, mol_smiles_to_graph(s_), True, {"corpus": "single:" + s_}, ["corpus", "corpus:anti_pattern_needs_H"],
                    smiles="single:" + s_, entry="single_object")
    except Exception as e:        # pragma: no cover
        r.notes["antiH"] = repr(e)
    # FORMS of the molecule object and the other entry points, on fixed inputs
    k = 0
    for n_, s_ in enumerate(['CC(=O)OCCN', 'OCC(O)CO', 'CC(=O)Cl', 'c1ccccc1O']):
        g_ = mol_smiles_to_graph(s_)
        for kind in ("extra_attrs", "numpy_ids", "frozen", "view"):
            for rh_ in (True, False):
                k += 1
                add_get(default, g_, rh_, {"corpus": "form:%s:%s" % (kind, s_)}, ["corpus", "corpus:forms"], smiles="form:%s:%s" % (kind, s_),
                        forms=[[kind, 3000 + k]])
        for rh_ in (True, False):
            add_get(default, g_, rh_, {"corpus": "smiles_string:" + s_}, ["corpus", "corpus:entries"], smiles="str:" + s_, via_smiles=s_)
            if n_ < 2:
                add_get(default, g_, rh_, {"corpus": "all_defaults:" + s_}, ["corpus", "corpus:entries"], smiles="dflt:" + s_, entry="all_defaults")
                if rh_:
                    add_get(default, g_, rh_, {"corpus": "config_omitted:" + s_}, ["corpus", "corpus:entries"], smiles="omit:" + s_, entry="config_omitted")
    by_name = {n.fgconfig.name: n for n, _ in default.nodes}
    for name, s, anchor in ISFG_TESTS:
        g = add_implicit_hydrogens(mol_smiles_to_graph(s))
        add_isfg(default, by_name[name], g, anchor, None, ["corpus"])
        add_isfg(default, by_name[name], g, anchor, max(mol_smiles_to_graph(s).nodes), ["corpus"])

    # ---- generated -----------------------------------------------------------------------------
    n_mols = 400 if tier == "quick" else int(os.environ.get("C05_N", "20000"))
    n_cfgs = 24 if tier == "quick" else 800
    gen_cfgs = []
    for k in range(n_cfgs):
        c = make_generated_config(rng, k)
        if c is not None:
            gen_cfgs.append(c)
            r.count("cfg:generated_lists")
            if c.n_anti:
                r.count("cfg:generated_with_anti_pattern")
            r.count("cfg_lists:flavour:" + c.flavour)
            r.count("cfg_lists:representation:" + c.representation)
            if not c.hr_in_patterns and c.hr_in_anti:
                r.count("cfg_lists:HR_only_in_anti_patterns(oracle)")
            if not c.hr_in_patterns and not c.hr_in_anti:
                r.count("cfg_lists:no_HR_at_all(oracle)")
            if c.anti_as_string:
                r.count("cfg_lists:some_anti_pattern_given_as_string")
            if c.anti_several:
                r.count("cfg_lists:group_with_several_anti_patterns")
            if len(c.anti_sizes) > 1:
                r.count("cfg_lists:anti_patterns_of_different_sizes")
    styles = ['plain', 'plain', 'offset', 'sparse', 'shuffled', 'negative']
    for k in range(n_mols):
        s = gen_smiles(rng)
        g0 = mol_smiles_to_graph(s)
        style = rng.choice(styles)
        g = relabel(g0, rng, style) if style != 'plain' else g0
        tags = ["ids:" + style]
        rh = rng.random() < 0.7

        def variant(rh_):
            """FORMS of the molecule object / the SMILES-string entry for one query: (rh, forms, via_smiles)"""
            forms = choose_forms(rng, 0.1)
            kinds = {f[0] for f in forms}
            if rh_ and ("frozen" in kinds or "view" in kinds) and rng.random() < 0.85:
                rh_ = False          # with hydrogen completion the library cannot take a frozen graph (recorded separately)
            via = (not forms) and style == 'plain' and rng.random() < 0.15
            return rh_, forms, via
        rh1, forms, via = variant(rh)
        add_get(default, g, rh1, {"style": style}, tags, smiles=s if style == 'plain' else None,
                entry=rng.choice(ENTRIES_DEFAULT if tier == "quick" else ENTRIES_DEFAULT_THOROUGH), forms=forms, via_smiles=s if via else None)
        if gen_cfgs and k % 2 == 0:
            cfg = gen_cfgs[(k // 2) % len(gen_cfgs)]
            # configurations whose anti-patterns (only) need hydrogens are mostly asked WITH hydrogen completion
            rh2, forms, via = variant(rng.random() < (0.8 if (cfg.hr_in_anti and not cfg.hr_in_patterns) else 0.6))
            entry = "single_object" if len(cfg.cfg_dicts) == 1 and rng.random() < 0.5 else rng.choice(ENTRIES_GENERATED)
            add_get(cfg, g, rh2, {"style": style}, tags, smiles=s if style == 'plain' else None,
                    entry=entry, forms=forms, via_smiles=s if via else None)
        if k % 5 == 0:
            # is_functional_group directly, on the completed graph, at a random atom, for a random group
            mx = max(g.nodes)
            gh = add_implicit_hydrogens(copy.deepcopy(g))
            if any(u == v for u, v in gh.edges) or max(dict(gh.degree).values()) > 8:
                r.count("isfg:skipped_degenerate_completion")     # only with a defective completion
                continue
            cfg = default if rng.random() < 0.6 or not gen_cfgs else rng.choice(gen_cfgs)
            node = rng.choice(cfg.nodes)[0]
            hetero = [v for v, sy in g.nodes(data='symbol') if sy not in ('C', 'H')]
            idx = rng.choice(hetero) if hetero and rng.random() < 0.8 else rng.choice(list(gh.nodes))
            add_isfg(cfg, node, gh, idx, mx if rng.random() < 0.7 else None, ["ids:" + style])

    findings = {f["id"]: f for f in load_known_findings() if f.get("property") == "C05" and f["status"] == "open"}
    k3, k4 = findings.get("K3"), findings.get("K4")
    k3_cases, k4_cases, k3_anti_cases = [], [], []

    def classify(o):
        """every failing clause must be inside the scope of an open known finding, decided per case:
        K3 — unwitnessed entry whose witness mapping (as returned by the real map_subgraph) is not an embedding;
        K4 — entry with a witnessed strict descendant at its anchoring atom but no witnessed child there
             (true-embedding oracle).  Anything else is a VIOLATION."""
        if not o.spec_fail or id(o.case) not in ctx:
            return None
        # both recorded defects are in the algorithm, so the MODEL shows them too: a failure is a
        # known finding only if implementation and model give the same answer on this input and
        # the model's answer fails the specification as well; otherwise it is a new defect
        if not o.corr or o.spec_model != "0":
            return None
        cfg, g, rh, out = ctx[id(o.case)]
        if isinstance(out, ImplError):
            return None
        fails = o.extra[0] if o.extra else []
        if not fails:
            return None
        hit3 = hit4 = False
        for f in fails:
            try:
                if isinstance(f, list) and f[0] == "unwitnessed" and k3 is not None:
                    entry = out[int(f[1])]
                    if not entry_traces_to_non_embedding(cfg, g, rh, (entry[0], entry[1])):
                        return None
                    hit3 = True
                elif isinstance(f, list) and f[0] == "morespecific" and k4 is not None:
                    entry = out[int(f[1])]
                    if entry_is_stuck_descent(cfg, g, rh, (entry[0], entry[1])):
                        hit4 = True
                    elif k3 is not None and entry_blocked_by_non_embedding_anti_pattern(cfg, g, rh, (entry[0], entry[1])):
                        # K3's defect (map_subgraph returns a non-embedding on a ring) acting on an anti-pattern
                        hit3 = True
                        k3_anti_cases.append((o.case.meta.get("config"), o.case.meta.get("corpus") or o.case.meta.get("smiles")
                                              or o.case.meta.get("graph"), entry[0]))
                    else:
                        return None
                else:
                    return None
            except Exception:
                return None
        label = o.case.meta.get("corpus") or o.case.meta.get("smiles")
        if hit4:
            k4_cases.append((o.case.meta.get("config"), label))
        if hit3:
            k3_cases.append(label)
        if hit3 and hit4:
            # both findings on one input: report K3 here, K4 through a synthetic second hit
            r.known_hits.append((k4, o))
        return k3 if hit3 else k4

    pc_stats = {"instances": 0, "failing_instances": 0, "queries_with_failure": 0, "examples": []}
    # evaluate in chunks (bounded memory for the thorough tier)
    B = 500
    for i in range(0, len(cases), B):
        outs = r.evaluate(cases[i:i + B], classify_known=classify)
        for o in outs:
            if o.ok_reply and len(o.extra) >= 3 and o.extra[2] != "1":
                r.violation_lines.append("ERROR property=C05 tree not topologically numbered (harness bug)")
            if o.ok_reply and len(o.extra) >= 4 and o.case.in_domain:
                # hypothesis WitnessPathClosed of C05.most_specific, evaluated on this query
                pc_stats["instances"] += int(o.extra[3][0])
                if o.extra[3][1]:
                    pc_stats["failing_instances"] += len(o.extra[3][1])
                    pc_stats["queries_with_failure"] += 1
                    if len(pc_stats["examples"]) < 5:
                        names = ctx[id(o.case)][0].nodes
                        pc_stats["examples"].append({
                            "input": o.case.meta.get("corpus") or o.case.meta.get("smiles"),
                            "config": o.case.meta.get("config"),
                            "atom_node_descendant": [[int(a), names[int(pp)][0].fgconfig.name, names[int(c)][0].fgconfig.name]
                                                  for a, pp, c in o.extra[3][1][:4]]})
    dist = r.dist
    r.extra_cov["queries_by_configuration_entry"] = {k[len("tag:cfg_entry:"):]: v for k, v in sorted(dist.items()) if k.startswith("tag:cfg_entry:")}
    r.extra_cov["queries_by_molecule_form"] = {k[len("tag:"):]: v for k, v in sorted(dist.items()) if k.startswith(("tag:mol_form:", "tag:entry:get"))}
    r.extra_cov["generated_configuration_lists"] = {k[len("cfg_lists:"):]: v for k, v in sorted(dist.items()) if k.startswith("cfg_lists:")}
    r.extra_cov["queries_on_configurations_with_HR_only_in_anti_patterns"] = dist.get("tag:cfg:HR_only_in_anti_patterns(oracle)", 0)
    r.extra_cov["queries_on_configurations_without_any_HR"] = dist.get("tag:cfg:no_HR_at_all(oracle)", 0)
    r.extra_cov["tree_of_query_built_provider_differs_from_harness_provider"] = tree_mismatch[0]
    r.extra_cov["frozen_or_view_molecule_with_hydrogen_completion(out_of_domain, library limitation)"] = frozen_rh
    if frozen_rh["raised"]:
        print("NOTE property=C05 FGQuery.get(frozen graph / sub-graph view) with require_implicit_hydrogen=True raised in %d of %d "
              "cases (copy.deepcopy keeps the graph frozen, add_implicit_hydrogens cannot add nodes): counted out of domain" % (
                  frozen_rh["raised"], frozen_rh["cases"]))
    r.extra_cov["k3_witnesses_reproduced"] = sorted(set(x for x in k3_cases if x in K3_WITNESSES))
    r.extra_cov["witness_path_closed_hypothesis"] = pc_stats
    r.extra_cov["k3_hits_through_an_anti_pattern(more specific group rejected by a non-embedding anti-pattern match)"] = {
        "cases": len(k3_anti_cases), "examples": [list(map(str, x)) for x in k3_anti_cases[:3]]}
    r.extra_cov["k3_hits_distinct_inputs"] = len(set(map(str, k3_cases)))
    r.extra_cov["k4_hits_distinct_inputs"] = len(set(map(str, k4_cases)))
    r.extra_cov["k4_hits_by_config_kind"] = {"default": sum(1 for c, _ in k4_cases if c == "default"),
                                             "user_supplied": sum(1 for c, _ in k4_cases if c != "default")}
    r.extra_cov["k4_witness_reproduced"] = any(lbl == "K4:O=C(C)OC" for _, lbl in k4_cases)
    r.extra_cov["generated_tree_equals_runtime_tree"] = isinstance(gen, list) and gen[0] == "ok" and \
        gen[1] == canon(default.wire_tree)
    r.assumptions = [
        "the group hierarchy enters the model as data extracted from the real FGConfigProvider.get_tree() "
        "(its construction is property C07); Generated/C05.lean is compared with the runtime tree on every run",
        "matcher model Sub.mapSubgraph, hydrogen completion model C12.addImplicitHydrogens, permutation model "
        "(shared, validated by differential testing in their own properties and again end-to-end here)",
        "the mapping assembled from Python sets of pairs is modelled as a duplicate-free list; only membership "
        "and sorted() are applied to it",
        "RDKit SMILES reading (mol_smiles_to_graph) is used only to produce input graphs",
    ]
    return r.finish(
        level="proof",
        rule="molecules: fragment-assembly SMILES through RDKit (3-25 heavy atoms; alcohols, carbonyls, esters, amides, "
             "ethers, peroxides, nitriles, halides, aromatic and small rings) + relabelled graphs (offset/sparse/shuffled/"
             "negative ids, shuffled insertion order); configurations: default tree and generated lists of 1-8 acyclic "
             "connected patterns with group_atoms and anti-patterns in three flavours (H/R anywhere; H/R ONLY in anti-patterns — 1-3 per group, different "
             "sizes; no H/R at all), anti-pattern as string or list, provider built from dicts or from FGConfig objects; CONFIGURATION ENTRY: provider object / "
             "list of dicts / list of FGConfig objects / single FGConfig / omitted (tags cfg_entry:*); MOLECULE FORMS for get(): extra node+edge attributes, numpy "
             "ids, frozen graph, sub-graph view (each 10%, combinable; frozen/view with hydrogen completion = library limitation, out of domain) and the SMILES "
             "string itself (15% of the plain molecules) — get() works on a private copy whose observable state must be unchanged (InputModified = raised); "
             "require_implicit_hydrogen both ways; "
             "non-trivial = query with at least one returned entry, distinct by (configuration, graph, flag); "
             "plus direct is_functional_group comparisons",
        checker_cmd="cd lean && lake build " + " ".join(PROOFS) + " && lake env lean FGVerif/Audit/C05.lean && " + genparsed.CHECKER_CMD,
        explanation="theorems in lean/FGVerif/Proofs/C05.lean about Model/C05.lean (justified, ids_are_input_atoms, "
                    "locally_most_specific, most_specific, covering, bridge) and Proofs/C05Bridge.lean (the matcher "
                    "hypotheses of the bridge discharged from C03/C04: matcherComplete_model, "
                    "matcherSoundAt_model_forest, capstone spec_acyclic / spec_mixed_dec = the property verbatim on "
                    "the acyclic sub-domain); model tied to fgutils.query by exact "
                    "end-to-end differential testing; executable specification with true embeddings "
                    "(C05.specFailures) applied to every implementation output; K3 decided per case by tracing the "
                    "real map_subgraph result and testing it with an independent embedding oracle; Proofs/C05Input.lean restates the capstone with "
                    "hypotheses on the input molecule only (hydrogen completion preserves well-formedness and forests: Proofs/C12Forest.lean); "
                    + genparsed.EXPLANATION + " — for C05: GenParsed.default_tree_parsed (every pattern / anti-pattern graph, group atoms and pattern size of "
                    "Generated/C05.lean from the strings of _default_fg_config) and stuck_tree_parsed (K4 witness configuration)")
