#!/venv/bin/python
"""Subprocess worker for the PYTHONHASHSEED runs of C06 and C07.

Started as a *fresh interpreter* (`PYTHONHASHSEED=<k> /venv/bin/python worker_seed.py`), imports
the code under verification from $FGUTILS_REPO (default /repo), reads one JSON job per line on
stdin and answers one JSON line per job.

jobs
  {"op": "hello"}
      -> {"hashseed": ..., "hash_probe": hash("RC(=O)H") % 1000, "repo": ...}
  {"op": "tree", "cfgs": [<cfg dict> ...] | null (= the default list), "order": [positions],
   "direct": bool}
      -> {"links": [[p, c] ...], "links_by_parents": [...], "roots": [...], "children": [[...] ...],
          "parents": [[...] ...], "n": n}          (positions refer to the list as given in the job)
       | {"raised": <kind>, "text": ...}
  {"op": "query", "mol": {"kind": "smiles"|"pattern"|"graph", ...},
   "obj": <key of the long-lived FGQuery object to use; built at its first use in this process>,
   "mapper": null (= FGQuery's own default) | [wildcard | null, ignore_case],
   "cfgs": null (= the default collection) | [<cfg dict> ...], "require_h": bool,
   "fresh": bool (default true: additionally ask a freshly built FGQuery with the same construction parameters)}
      -> {"same1": ans, "same2": ans, "fresh": ans | null, "before": snap, "after1": snap, "after2": snap,
          "fresh_before": snap | null, "fresh_after": snap | null, "objects_built_before": [obj keys in creation order]}
         (ans = [[name, [ids]] ...] | {"raised": ...})
       | {"raised_in_setup": <kind>, "text": ..., "stage": "FGQuery(...)" | "molecule graph"}   -- NEVER dropped by the harness
One process serves queries on SEVERAL long-lived objects built with different mappers / configurations /
require_implicit_hydrogen, in the order in which the jobs arrive (harness/c06.py interleaves them in
seed-dependent orders and compares with processes that only ever built one kind of object).
"""
import json
import os
import sys

REPO = os.environ.get("FGUTILS_REPO", "/repo")
sys.path.insert(0, REPO)


def classify_exc(e):
    for cls, name in ((SyntaxError, "SyntaxError"), (KeyError, "KeyError"), (IndexError, "IndexError"),
                      (ValueError, "ValueError"), (AssertionError, "Assertion"),
                      (RuntimeError, "RuntimeError"), (StopIteration, "StopIteration"),
                      (TypeError, "TypeError")):
        if isinstance(e, cls):
            return name
    return "Other"


def raised(e):
    return {"raised": classify_exc(e), "text": "%s: %s" % (type(e).__name__, str(e)[:200])}


def jsonable(x):
    import numpy as np
    if isinstance(x, (np.integer,)):
        return int(x)
    if isinstance(x, (np.floating,)):
        return float(x)
    if isinstance(x, (list, tuple)):
        return [jsonable(y) for y in x]
    if isinstance(x, dict):
        return {str(k): jsonable(v) for k, v in x.items()}
    return x


def snapshot(g):
    """everything a caller could observe of a networkx graph: node order, attributes, adjacency order,
    edge attributes"""
    nodes = [[jsonable(n), sorted((str(k), jsonable(v)) for k, v in d.items())] for n, d in g.nodes(data=True)]
    adj = [[jsonable(n), [[jsonable(v), sorted((str(k), jsonable(w)) for k, w in dd.items())]
                          for v, dd in g.adj[n].items()]] for n in g.nodes]
    return jsonable([nodes, adj, sorted((str(k), jsonable(v)) for k, v in g.graph.items())])


def mk_mapper():
    from fgutils.permutation import PermutationMapper
    return PermutationMapper(wildcard="R", ignore_case=True)


def mk_cfgs(cfgs):
    from fgutils.fgconfig import FGConfig, _default_fg_config
    if cfgs is None:
        cfgs = _default_fg_config
    return [FGConfig(**c) for c in cfgs]


def job_tree(job):
    from fgutils.fgconfig import FGConfigProvider, build_config_tree_from_list
    try:
        objs = mk_cfgs(job.get("cfgs"))
    except Exception as e:  # malformed pattern
        return {"raised_in_config": classify_exc(e), "text": str(e)[:200]}
    n = len(objs)
    order = job.get("order") or list(range(n))
    pos = {id(o): i for i, o in enumerate(objs)}
    lst = [objs[i] for i in order]
    mapper = mk_mapper()
    try:
        if job.get("direct"):
            roots = build_config_tree_from_list(lst, mapper)
        else:
            prov = FGConfigProvider(lst, mapper=mapper)
            roots = prov.get_tree()
            again = prov.get_tree()
            if again is not roots:
                # a rebuilt tree is fine for the relation; report the second one as well below
                roots = again
    except Exception as e:
        return raised(e)
    children = [None] * n
    parents = [None] * n
    seen = set()
    stack = list(roots)
    while stack:
        node = stack.pop()
        i = pos[id(node.fgconfig)]
        if i in seen:
            continue
        seen.add(i)
        children[i] = [pos[id(c.fgconfig)] for c in node.children]
        parents[i] = [pos[id(p.fgconfig)] for p in node.parents]
        stack.extend(node.children)
    links = sorted([i, j] for i in range(n) if children[i] is not None for j in children[i])
    links_bp = sorted([i, j] for j in range(n) if parents[j] is not None for i in parents[j])
    return {"n": n, "links": links, "links_by_parents": links_bp,
            "roots": [pos[id(r.fgconfig)] for r in roots], "children": children, "parents": parents,
            "reached": sorted(seen),
            "names": [o.name for o in objs] if job.get("cfgs") is None else None}


_objs = {}


def mk_graph(mol):
    import networkx as nx
    kind = mol["kind"]
    if kind == "smiles":
        from fgutils.rdkit import smiles_to_graph
        return smiles_to_graph(mol["s"])
    if kind == "pattern":
        from fgutils.parse import Parser
        return Parser().parse(mol["s"], idx_offset=mol.get("offset", 0))
    g = nx.Graph()
    for n, sym in mol["nodes"]:
        g.add_node(n, symbol=sym)
    for u, v, b in mol["edges"]:
        g.add_edge(u, v, bond=b)
    return g


def mk_query(job):
    from fgutils.query import FGQuery
    cfgs = job.get("cfgs")
    kw = {}
    if not job.get("require_h", True):
        kw["require_implicit_hydrogen"] = False
    if cfgs is not None:
        kw["config"] = mk_cfgs(cfgs)
    m = job.get("mapper")
    if m is not None:
        from fgutils.permutation import PermutationMapper
        kw["mapper"] = PermutationMapper(wildcard=m[0], ignore_case=bool(m[1]))
    return FGQuery(**kw)


def ans(q, g):
    try:
        return jsonable([[name, list(ids)] for name, ids in q.get(g)])
    except Exception as e:
        return raised(e)


def job_query(job):
    key = job.get("obj", "default")
    built_before = list(_objs)
    stage = "FGQuery(...)"
    try:
        if key not in _objs:
            _objs[key] = mk_query(job)
        q = _objs[key]
        stage = "molecule graph"
        g = mk_graph(job["mol"])
    except Exception as e:
        return {"raised_in_setup": classify_exc(e), "text": "%s: %s" % (type(e).__name__, str(e)[:200]), "stage": stage}
    before = snapshot(g)
    a1 = ans(q, g)
    after1 = snapshot(g)
    a2 = ans(q, g)
    after2 = snapshot(g)
    out = {"same1": a1, "same2": a2, "fresh": None, "before": before, "after1": after1, "after2": after2,
           "fresh_before": None, "fresh_after": None, "objects_built_before": built_before}
    if job.get("fresh", True):
        try:
            g2 = mk_graph(job["mol"])
            out["fresh_before"] = snapshot(g2)
            fq = mk_query(job)
        except Exception as e:
            return {"raised_in_setup": classify_exc(e), "text": "%s: %s" % (type(e).__name__, str(e)[:200]),
                    "stage": "fresh FGQuery(...)"}
        out["fresh"] = ans(fq, g2)
        out["fresh_after"] = snapshot(g2)
    return out


def main():
    for line in sys.stdin:
        line = line.strip()
        if not line:
            continue
        job = json.loads(line)
        op = job.get("op")
        try:
            if op == "hello":
                out = {"hashseed": os.environ.get("PYTHONHASHSEED"), "hash_probe": hash("RC(=O)H") % 1000,
                       "repo": REPO}
            elif op == "tree":
                out = job_tree(job)
            elif op == "query":
                out = job_query(job)
            else:
                out = {"error": "unknown op"}
        except Exception as e:  # the worker itself must never die silently
            out = {"worker_error": "%s: %s" % (type(e).__name__, str(e)[:300])}
        sys.stdout.write(json.dumps(out) + "\n")
        sys.stdout.flush()


if __name__ == "__main__":
    main()
