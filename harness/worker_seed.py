#!/venv/bin/python
"""Subprocess worker for the PYTHONHASHSEED runs of C06 and C07.

Started as a *fresh interpreter* (`PYTHONHASHSEED=<k> /venv/bin/python worker_seed.py`), imports
the code under verification from $FGUTILS_REPO (default /repo), reads one JSON job per line on
stdin and answers one JSON line per job.

jobs
  {"op": "hello"}
      -> {"hashseed": ..., "hash_probe": hash("RC(=O)H") % 1000, "repo": ...}
  {"op": "tree", "cfgs": [<cfg dict> ...] | null (= the default list), "order": [positions],
   "direct": bool,
   "form": "objs" (default: list of FGConfig objects) | "dicts" (list of dictionaries, handed to FGConfigProvider as they are)
           | "single" (ONE FGConfig object, not a list) | "default-none" (FGConfigProvider() / config=None: the default list),
   "anti_as": null | "str" | "list"  (dict form: one-element anti-pattern lists written as a plain string / strings as lists),
   "mapper_omitted": bool (the provider's own default mapper — the same PermutationMapper("R", ignore_case=True))}
      -> {"links": [[p, c] ...], "links_by_parents": [...], "roots": [...], "children": [[...] ...],
          "parents": [[...] ...], "n": n}          (positions refer to the list as given in the job)
       | {"raised": <kind>, "text": ...}
  {"op": "query", "mol": {"kind": "smiles" ("via": "json" = restored from a JSON document | "decorated" = carrying attributes of
                                   the caller's own: lists, tuples, dicts on nodes, edges and the graph) |"pattern"|"graph"  (a graph is built and handed to get)
                         | "its" (ITS graph of a reaction SMILES built by the library's get_its; "labels": "tuple" (as built) |
                                  "list" (every (g,h) bond label a list) | "json" (node_link_data -> JSON -> node_link_graph))
                         | "string" (the STRING itself is handed to get: molecule SMILES, reaction SMILES, invalid SMILES)
                         | "empty" (nx.Graph()) | "value" (any JSON value, handed to get as it is), ...},
   "cfg_form": null (= list of FGConfig objects / no config argument for the default collection) | "dicts" | "provider" | "single"
               | "default-dicts" | "default-objs",  "anti_as": null | "str" | "list",  "ctor": null | "positional",
   "obj": <key of the long-lived FGQuery object to use; built at its first use in this process>,
   "mapper": null (= FGQuery's own default) | [wildcard | null, ignore_case],
   "cfgs": null (= the default collection) | [<cfg dict> ...], "require_h": bool,
   "fresh": bool (default true: additionally ask a freshly built FGQuery with the same construction parameters)}
      -> {"same1": ans, "same2": ans, "fresh": ans | null, "before": snap, "after1": snap, "after2": snap,
          "fresh_before": snap | null, "fresh_after": snap | null, "objects_built_before": [obj keys in creation order],
          "changed": null | text (first difference between the value before and after a call)}
         (ans = [[name, [ids]] ...] | {"raised": ...}: an exception IS the answer of that input, compared like any other;
          snap = digest of the TYPE-SENSITIVE snapshot of the value handed to get: graph class, node order, node attributes,
          adjacency order, edge attributes, graph attributes; list vs tuple vs numpy scalar are different values)
       | {"raised_in_setup": <kind>, "text": ..., "stage": "FGQuery(...)" | "molecule graph"}   -- NEVER dropped by the harness
One process serves queries on SEVERAL long-lived objects built with different mappers / configurations /
require_implicit_hydrogen, in the order in which the jobs arrive (harness/c06.py interleaves them in
seed-dependent orders and compares with processes that only ever built one kind of object).
"""
import json
import os
import sys

REPO = os.environ.get("FGUTILS_REPO", "/repo")
sys.path.insert(0, REPO)


def classify_exc(e):
    for cls, name in ((SyntaxError, "SyntaxError"), (KeyError, "KeyError"), (IndexError, "IndexError"),
                      (ValueError, "ValueError"), (AssertionError, "Assertion"),
                      (RuntimeError, "RuntimeError"), (StopIteration, "StopIteration"),
                      (TypeError, "TypeError")):
        if isinstance(e, cls):
            return name
    return "Other"


def raised(e):
    kind = classify_exc(e)
    if kind == "Other":
        kind = "".join(ch for ch in type(e).__name__ if ch.isalnum() or ch == "_") or "Other"
    return {"raised": kind, "text": "%s: %s" % (type(e).__name__, str(e)[:200])}


def jsonable(x):
    import numpy as np
    if isinstance(x, (np.integer,)):
        return int(x)
    if isinstance(x, (np.floating,)):
        return float(x)
    if isinstance(x, (list, tuple)):
        return [jsonable(y) for y in x]
    if isinstance(x, dict):
        return {str(k): jsonable(v) for k, v in x.items()}
    return x


def typed(x):
    """a JSON value that keeps the TYPE of every part: list / tuple / dict / set, python vs numpy scalars, int vs float"""
    import numpy as np
    if x is None or isinstance(x, (bool, str)):
        return x
    if isinstance(x, np.generic):
        return ["np." + type(x).__name__, repr(x.item())]
    if isinstance(x, int):
        return x
    if isinstance(x, float):
        return ["float", repr(x)]
    if isinstance(x, tuple):
        return ["tuple"] + [typed(y) for y in x]
    if isinstance(x, list):
        return ["list"] + [typed(y) for y in x]
    if isinstance(x, dict):
        return ["dict"] + [[typed(k), typed(v)] for k, v in x.items()]
    if isinstance(x, (set, frozenset)):
        return [type(x).__name__] + sorted(json.dumps(typed(y)) for y in x)
    return ["object:" + type(x).__name__, repr(x)[:200]]


def snapshot(g):
    """everything a caller could observe of the value it handed to `get`, TYPE-SENSITIVE (a bond label [1, 0] and a bond
    label (1, 0) are different): for a networkx graph its class, node order, node attributes, adjacency order (both
    directions), edge attributes, graph attributes; any other value (SMILES string, non-graph) as it is"""
    import networkx as nx
    if not isinstance(g, nx.Graph):
        return ["value", typed(g)]
    attrs = lambda d: sorted([str(k), typed(v)] for k, v in d.items())
    nodes = [[typed(n), attrs(d)] for n, d in g.nodes(data=True)]
    adj = [[typed(n), [[typed(v), attrs(dd)] for v, dd in g.adj[n].items()]] for n in g.nodes]
    return [type(g).__name__, nodes, adj, attrs(g.graph)]


def digest(snap):
    import hashlib
    return hashlib.sha1(json.dumps(snap).encode()).hexdigest()[:20]


def first_difference(a, b, path="value"):
    """short text: where two snapshots differ (for the replay print-out)"""
    if type(a) is not type(b):
        return "%s: %r -> %r" % (path, a, b)
    if isinstance(a, list):
        if len(a) != len(b):
            return "%s: length %d -> %d (%s -> %s)" % (path, len(a), len(b), json.dumps(a)[:120], json.dumps(b)[:120])
        for i, (x, y) in enumerate(zip(a, b)):
            if x != y:
                return first_difference(x, y, "%s[%d]" % (path, i)) if isinstance(x, list) and isinstance(y, list) and len(json.dumps(x)) > 80 \
                    else "%s[%d]: %s -> %s" % (path, i, json.dumps(x)[:160], json.dumps(y)[:160])
        return None
    return None if a == b else "%s: %r -> %r" % (path, a, b)


def mk_mapper():
    from fgutils.permutation import PermutationMapper
    return PermutationMapper(wildcard="R", ignore_case=True)


def mk_cfgs(cfgs):
    from fgutils.fgconfig import FGConfig, _default_fg_config
    if cfgs is None:
        cfgs = _default_fg_config
    return [FGConfig(**c) for c in cfgs]


def anti_as(dicts, how):
    """the same configuration dictionaries with the anti-patterns WRITTEN differently: how="str": every one-element list
    as a plain string (`anti_pattern: str | list[str]`), how="list": every plain string as a one-element list"""
    out = []
    for d in dicts:
        d = dict(d)
        a = d.get("anti_pattern")
        if how == "str" and isinstance(a, list) and len(a) == 1:
            d["anti_pattern"] = a[0]
        elif how == "list" and isinstance(a, str):
            d["anti_pattern"] = [a]
        elif isinstance(a, list):
            d["anti_pattern"] = list(a)
        out.append(d)
    return out


def job_tree(job):
    from fgutils.fgconfig import FGConfig, FGConfigProvider, build_config_tree_from_list, _default_fg_config
    form = "direct" if job.get("direct") else (job.get("form") or "objs")
    dicts = anti_as(list(_default_fg_config) if job.get("cfgs") is None else job["cfgs"], job.get("anti_as"))
    n = len(dicts)
    order = job.get("order") or list(range(n))
    objs = None
    if form in ("objs", "direct", "single"):
        try:
            objs = mk_cfgs(dicts)
        except Exception as e:  # malformed pattern
            return {"raised_in_config": classify_exc(e), "text": str(e)[:200]}
    mapper = mk_mapper()
    kw = {} if job.get("mapper_omitted") else {"mapper": mapper}
    try:
        if form == "direct":
            lst = [objs[i] for i in order]
            roots = build_config_tree_from_list(lst, mapper)
            given = lst
        else:
            if form == "objs":
                prov = FGConfigProvider([objs[i] for i in order], **kw)
            elif form == "dicts":
                prov = FGConfigProvider([dicts[i] for i in order], **kw)
            elif form == "single":
                if n != 1:
                    return {"error": "form 'single' needs a one-element list"}
                prov = FGConfigProvider(objs[0], **kw)
            elif form == "default-none":
                if job.get("cfgs") is not None or list(order) != list(range(n)):
                    return {"error": "form 'default-none' is the default list in its own order"}
                prov = FGConfigProvider(**kw)
            else:
                return {"error": "unknown form %r" % (form,)}
            roots = prov.get_tree()
            again = prov.get_tree()
            if again is not roots:
                # a rebuilt tree is fine for the relation; report the second one as well below
                roots = again
            given = list(prov.config_list)
    except Exception as e:
        return raised(e)
    # the provider's configuration objects, in the order in which the list was given
    if len(given) != n or any(c.pattern_str != dicts[i]["pattern"] or c.name != dicts[i]["name"] for c, i in zip(given, order)):
        return {"raised": "ConfigListChanged", "text": "the provider's config_list is not the list it was given"}
    pos = {id(c): i for c, i in zip(given, order)}
    children = [None] * n
    parents = [None] * n
    seen = set()
    stack = list(roots)
    try:
        while stack:
            node = stack.pop()
            i = pos[id(node.fgconfig)]
            if i in seen:
                continue
            seen.add(i)
            children[i] = [pos[id(c.fgconfig)] for c in node.children]
            parents[i] = [pos[id(p.fgconfig)] for p in node.parents]
            stack.extend(node.children)
        root_pos = [pos[id(r.fgconfig)] for r in roots]
    except KeyError:
        return {"raised": "ForeignNode", "text": "the tree contains a configuration object that is not in the provider's config_list"}
    links = sorted([i, j] for i in range(n) if children[i] is not None for j in children[i])
    links_bp = sorted([i, j] for j in range(n) if parents[j] is not None for i in parents[j])
    return {"n": n, "links": links, "links_by_parents": links_bp,
            "roots": root_pos, "children": children, "parents": parents,
            "reached": sorted(seen),
            "names": [d["name"] for d in dicts] if job.get("cfgs") is None else None}


_objs = {}


def mk_graph(mol):
    """the VALUE that is handed to FGQuery.get (mostly a graph; for kind "string" / "value" the value itself)"""
    import networkx as nx
    kind = mol["kind"]
    if kind == "smiles":
        from fgutils.rdkit import smiles_to_graph
        g = smiles_to_graph(mol["s"])
        if mol.get("via") == "json":        # the graph as a caller restores it from a JSON document
            g = nx.node_link_graph(json.loads(json.dumps(nx.node_link_data(g, edges="edges"))), edges="edges")
        elif mol.get("via") == "decorated":  # the graph as a caller really holds it: with attributes of its own
            g.graph["source"] = {"smiles": mol["s"], "tags": ["a", ("b", 1)]}
            for k, n in enumerate(g.nodes):
                g.nodes[n]["charge"] = 0
                g.nodes[n]["my_labels"] = [k, (k, k + 1)]
            for k, (u, v) in enumerate(g.edges):
                g[u][v]["note"] = ("ring", [k]) if k % 2 else {"k": [k]}
        return g
    if kind == "pattern":
        from fgutils.parse import Parser
        return Parser().parse(mol["s"], idx_offset=mol.get("offset", 0))
    if kind == "string":
        return str(mol["s"])
    if kind == "value":
        return mol["v"]
    if kind == "empty":
        return nx.Graph()
    if kind == "its":
        # the ITS graph of a reaction, built by the library itself; restored from JSON its (g, h) labels are LISTS
        from fgutils.rdkit import smiles_to_graph
        from fgutils.its import get_its
        its = get_its(*smiles_to_graph(mol["s"]))
        labels = mol.get("labels", "tuple")
        if labels == "json":
            its = nx.node_link_graph(json.loads(json.dumps(nx.node_link_data(its, edges="edges"))), edges="edges")
        elif labels == "list":
            for u, v, b in list(its.edges(data="bond")):
                if isinstance(b, tuple):
                    its[u][v]["bond"] = list(b)
        return its
    g = nx.Graph()
    for n, sym in mol["nodes"]:
        if sym is None and mol.get("no_symbol_attr"):
            g.add_node(n)
        else:
            g.add_node(n, symbol=sym)
    for u, v, b in mol["edges"]:
        if isinstance(b, list) and mol.get("tuple_bonds"):
            b = tuple(b)
        if b is None and mol.get("no_bond_attr"):
            g.add_edge(u, v)
        else:
            g.add_edge(u, v, bond=b)
    return g


def mk_query(job):
    """FGQuery built from the job's construction parameters, in the FORM the job names (all forms of one configuration
    must give the same answers)"""
    from fgutils.query import FGQuery
    from fgutils.fgconfig import FGConfig, FGConfigProvider, _default_fg_config
    from fgutils.permutation import PermutationMapper
    cfgs = job.get("cfgs")
    form = job.get("cfg_form")
    rh = bool(job.get("require_h", True))
    m = job.get("mapper")
    mapper = None if m is None else PermutationMapper(wildcard=m[0], ignore_case=bool(m[1]))
    config = None
    if form in (None, "objs"):
        config = None if cfgs is None else mk_cfgs(cfgs)
    elif form == "dicts":
        config = anti_as(cfgs, job.get("anti_as"))
    elif form == "single":
        if len(cfgs) != 1:
            raise RuntimeError("form 'single' needs a one-element list")
        config = FGConfig(**cfgs[0])
    elif form == "default-dicts":
        config = anti_as(list(_default_fg_config), job.get("anti_as"))
    elif form == "default-objs":
        config = mk_cfgs(None)
    elif form == "provider":
        # the provider must use the mapper the query uses (FGQuery hands ITS mapper to a provider it builds itself)
        pm = mapper if mapper is not None else PermutationMapper(wildcard="R", ignore_case=True)
        mapper = pm
        config = FGConfigProvider(None if cfgs is None else anti_as(cfgs, job.get("anti_as")), mapper=pm)
    else:
        raise RuntimeError("unknown cfg_form %r" % (form,))
    if job.get("ctor") == "positional":
        return FGQuery(mapper, config, rh)
    kw = {}
    if not rh:
        kw["require_implicit_hydrogen"] = False
    if config is not None:
        kw["config"] = config
    if mapper is not None:
        kw["mapper"] = mapper
    return FGQuery(**kw)


def ans(q, g):
    try:
        return jsonable([[name, list(ids)] for name, ids in q.get(g)])
    except Exception as e:
        return raised(e)


def job_query(job):
    key = job.get("obj", "default")
    built_before = list(_objs)
    stage = "FGQuery(...)"
    try:
        if key not in _objs:
            _objs[key] = mk_query(job)
        q = _objs[key]
        stage = "molecule graph"
        g = mk_graph(job["mol"])
    except Exception as e:
        return {"raised_in_setup": classify_exc(e), "text": "%s: %s" % (type(e).__name__, str(e)[:200]), "stage": stage}
    changed = None
    s0 = snapshot(g)
    a1 = ans(q, g)
    s1 = snapshot(g)
    a2 = ans(q, g)
    s2 = snapshot(g)
    for x in (s1, s2):
        if changed is None and x != s0:
            changed = first_difference(s0, x)
    out = {"same1": a1, "same2": a2, "fresh": None, "before": digest(s0), "after1": digest(s1), "after2": digest(s2),
           "fresh_before": None, "fresh_after": None, "objects_built_before": built_before}
    if job.get("fresh", True):
        try:
            g2 = mk_graph(job["mol"])
            f0 = snapshot(g2)
            fq = mk_query(job)
        except Exception as e:
            return {"raised_in_setup": classify_exc(e), "text": "%s: %s" % (type(e).__name__, str(e)[:200]),
                    "stage": "fresh FGQuery(...)"}
        out["fresh"] = ans(fq, g2)
        f1 = snapshot(g2)
        out["fresh_before"] = digest(f0)
        out["fresh_after"] = digest(f1)
        if changed is None and f1 != f0:
            changed = first_difference(f0, f1)
    out["changed"] = changed
    return out


def main():
    try:    # invalid SMILES are part of the inputs: keep RDKit's parse errors off stderr
        from rdkit import RDLogger
        RDLogger.DisableLog("rdApp.*")
    except Exception:
        pass
    for line in sys.stdin:
        line = line.strip()
        if not line:
            continue
        job = json.loads(line)
        op = job.get("op")
        try:
            if op == "hello":
                out = {"hashseed": os.environ.get("PYTHONHASHSEED"), "hash_probe": hash("RC(=O)H") % 1000,
                       "repo": REPO}
            elif op == "tree":
                out = job_tree(job)
            elif op == "query":
                out = job_query(job)
            else:
                out = {"error": "unknown op"}
        except Exception as e:  # the worker itself must never die silently
            out = {"worker_error": "%s: %s" % (type(e).__name__, str(e)[:300])}
        sys.stdout.write(json.dumps(out) + "\n")
        sys.stdout.flush()


if __name__ == "__main__":
    main()
