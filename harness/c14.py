"""C14 — proxy expansion is exhaustive and conservative: correspondence of `replace_next_node`,
`build_graphs`, `iter(Proxy)` with the Lean model + executable spec (count formula, no group label
left, contiguous ids, conservation) on implementation outputs; generated tables of the shipped
collections; thorough: the shipped Diels-Alder collections completely."""
import zlib

from common import Atom, Case, Run, call_impl, prepare, enc_graph, enc_label, sx, ImplError, load_known_findings
from c13 import rand_pattern, parse_contract_ok, check_model_spec, finalize_model_spec

import genparsed

# GenParsed: the generated parsed tables this check consumes are what the parser model makes of the
# generated pattern strings (a parser change that alters how a shipped pattern parses breaks it)
# C14Enum / C14EnumMultiset / C14EnumValid: the exact-enumeration theorems (`enumeration_exact`, `enumeration_total`,
# `enumeration_multiset`, `mem_allChoices_iff`, `allChoices_nodup`) about the declarative choice combinations of
# Model/C14Choice.lean
PROOFS = ["FGVerif.Proofs.C14", "FGVerif.Proofs.C14Iter", "FGVerif.Proofs.C14Enum", "FGVerif.Proofs.C14EnumMultiset", "FGVerif.Proofs.C14EnumValid",
          genparsed.MODULE]


# ---------------------------------------------------------------------------
# encoders shared with c15.py
# ---------------------------------------------------------------------------
def label_key(b):
    e = enc_label(b)
    if e is None:
        return [2, 0, 0]
    if isinstance(e, list):
        return [1, e[0], e[1]]
    return [0, e, 0]


def canon_graph(g):
    """order-insensitive view: nodes in order with attributes, sorted (min, max, tag, a, b) edges"""
    nodes = enc_graph(g)[1]
    edges = sorted([min(u, v), max(u, v)] + label_key(d.get("bond")) for u, v, d in g.edges(data=True))
    return [nodes, edges]


def fingerprint(canon):
    bs = sx(canon).encode("utf-8")
    return [len(bs), zlib.adler32(bs) & 0xFFFFFFFF, zlib.crc32(bs) & 0xFFFFFFFF]


def sorted_canon(graphs):
    return sorted((canon_graph(g) for g in graphs), key=sx)


def enc_config(groups, multi=True, contract_notes=None):
    """effective dict[str, ProxyGroup] -> wire form; every pattern parsed by the real parser at offset 0"""
    from fgutils.parse import Parser
    out = []
    for key, grp in groups.items():
        gs = []
        for pg in grp.graphs:
            gs.append([enc_graph(Parser(use_multigraph=multi).parse(pg.pattern)), [int(a) for a in pg.anchor]])
            if contract_notes is not None:
                for off in (1, 7):
                    k = (pg.pattern, multi, off)
                    if k not in contract_notes:
                        contract_notes[k] = parse_contract_ok(pg.pattern, multi, off)
        out.append([key, grp.name, gs])
    return out


def effective_groups(proxy):
    return dict(getattr(proxy, "_Proxy__groups"))


# ---------------------------------------------------------------------------
# construction routes (review 3, M5): the SAME configuration built through every documented way
# ---------------------------------------------------------------------------
# A configuration is given as `spec` = {group name: [[pattern, anchors], ...]} (order kept) and a list of core
# patterns.  The request sent to the model is always encoded from the spec (object route, enc_config); the
# implementation receives the configuration built along `route` = [kind, seed]:
#   objects                 ProxyGroup(name, [ProxyGraph(p, anchor=a), ...]), Proxy([ProxyGraph(core)], {name: group}, enable_aam=, parser=)
#   object_forms            ProxyGraph positional / keyword / default anchor / name= / extra properties; ProxyGroup graphs as
#                           str | [str] | ProxyGraph | [ProxyGraph] | mixed list, positional and keyword arguments
#   group_from_dict         ProxyGroup.from_dict({name: <cfg>}): bare string, list of strings, {"graphs": str | [str] | {..} | [{..}, str]}
#   group_from_dict_single  ProxyGroup.from_dict_single(name, {"graphs": ...}) per group
#   proxy_from_dict         Proxy.from_dict({"core": str | [str], "groups": {...}})     (defaults: enable_aam=True, multigraph parser)
#   sampler_forms           explicit non-restricting samplers: GraphSampler(), GraphSampler(unique=False), a plain function, a function
#                           with the optional group_name keyword (must receive the group's name), a function that answers a
#                           one-graph group with the bare ProxyGraph, a GraphSampler subclass; unique=False spelled out
# every route except `objects` also draws HOW the proxy receives its parts: core as str | [str] | [ProxyGraph] | ProxyGroup(unique=True) |
# ProxyGroup(sampler=GraphSampler(unique=True)); groups as dict | list | single ProxyGroup; Proxy(...) positional / keyword /
# defaults omitted / MolProxy when enable_aam is False; build_graphs / replace_next_node positional or by keyword.
ROUTES = ("objects", "object_forms", "group_from_dict", "group_from_dict_single", "proxy_from_dict", "sampler_forms")


def spec_of(groups):
    return {n: [[pg.pattern, [int(a) for a in pg.anchor]] for pg in g.graphs] for n, g in groups.items()}


def _graph_obj(p, a, rnd):
    from fgutils.proxy import ProxyGraph
    a = list(a)
    f = rnd.randrange(5)
    if f == 0 and a == [0]:
        return ProxyGraph(p)                       # documented default anchor [0]
    if f == 1:
        return ProxyGraph(pattern=p, anchor=a)
    if f == 2:
        return ProxyGraph(p, a, None)
    if f == 3:
        return ProxyGraph(p, anchor=a, name="n%d" % rnd.randrange(9), weight=rnd.randrange(5))   # name + graph property
    return ProxyGraph(p, a)


def _sampler_form(name, rnd):
    """a non-restricting sampler in one of the documented forms -> kwargs of ProxyGroup"""
    from fgutils.proxy import GraphSampler
    f = rnd.randrange(8)
    if f == 0:
        return {"sampler": GraphSampler()}
    if f == 1:
        return {"sampler": GraphSampler(unique=False)}
    if f == 2:
        return {"sampler": lambda graphs: graphs}
    if f == 3:
        def with_name(graphs, group_name=None):
            if group_name != name:
                raise AssertionError("sampler of group %r called with group_name=%r" % (name, group_name))
            return graphs
        return {"sampler": with_name}
    if f == 4:
        # a one-graph answer may be the bare ProxyGraph (sample_graphs wraps it); otherwise a fresh list
        return {"sampler": lambda graphs: graphs[0] if len(graphs) == 1 else list(graphs)}
    if f == 5:
        class Sub(GraphSampler):
            def sample(self, graphs, group_name=None):
                return super().sample(graphs, group_name)
        return {"sampler": Sub()}
    if f == 6:
        return {"unique": False}
    return {"sampler": None, "unique": False}


def _group_obj(name, gs, rnd, samplers=False):
    from fgutils.proxy import ProxyGroup
    all0 = all(list(a) == [0] for _, a in gs)
    f = rnd.randrange(6)
    if f == 0 and all0 and len(gs) == 1:
        graphs = gs[0][0]
    elif f == 1 and all0:
        graphs = [p for p, _ in gs]
    elif f == 2 and len(gs) == 1:
        graphs = _graph_obj(gs[0][0], gs[0][1], rnd)
    elif f == 3:
        graphs = [p if list(a) == [0] and rnd.random() < 0.5 else _graph_obj(p, a, rnd) for p, a in gs]
    else:
        graphs = [_graph_obj(p, a, rnd) for p, a in gs]
    kw = _sampler_form(name, rnd) if samplers else {}
    if rnd.random() < 0.5:
        return ProxyGroup(name=name, graphs=graphs, **kw)
    return ProxyGroup(name, graphs, **kw)


def _group_cfg(gs, rnd, top_level):
    """one of the documented JSON forms of a group (ProxyGroup.from_dict / from_dict_single docstrings)"""
    all0 = all(list(a) == [0] for _, a in gs)

    def gdict(p, a):
        d = {"pattern": p}
        if list(a) != [0] or rnd.random() < 0.5:
            d["anchor"] = list(a)
        if rnd.random() < 0.2:
            d["weight"] = rnd.randrange(5)         # <any_key>: <any_value>
        return d
    forms = ["complete", "mixed"]
    if len(gs) == 1:
        forms.append("graphs_dict")
        if all0:
            forms += ["graphs_str"] + (["bare_str"] if top_level else [])
    if all0:
        forms += ["graphs_list_str"] + (["bare_list"] if top_level else [])
    f = rnd.choice(forms)
    if f == "bare_str":
        return gs[0][0]
    if f == "bare_list":
        return [p for p, _ in gs]
    if f == "graphs_str":
        return {"graphs": gs[0][0]}
    if f == "graphs_list_str":
        return {"graphs": [p for p, _ in gs]}
    if f == "graphs_dict":
        return {"graphs": gdict(*gs[0])}
    if f == "mixed":
        return {"graphs": [p if list(a) == [0] and rnd.random() < 0.5 else gdict(p, a) for p, a in gs]}
    return {"graphs": [gdict(p, a) for p, a in gs]}


def construct(spec, cores, route, aam=True, multi=True, cls=None):
    """-> (make_proxy, groups_dict, call_kw): the configuration built along `route`; make_proxy() gives a NEW proxy each
    time (same group objects, same core ProxyGraph objects where the form has any; a new core group / sampler each time);
    groups_dict = dict[str, ProxyGroup] for build_graphs / replace_next_node; call_kw: call those by keyword?"""
    import random
    from fgutils.parse import Parser
    from fgutils.proxy import Proxy, MolProxy, ProxyGroup, ProxyGraph, GraphSampler
    kind, seed = route
    rnd = random.Random(seed)
    cls = cls or Proxy
    if kind == "objects":
        groups = {n: ProxyGroup(n, [ProxyGraph(p, anchor=list(a)) for p, a in gs]) for n, gs in spec.items()}
        core_pgs = [ProxyGraph(c) for c in cores]
        return (lambda: cls(list(core_pgs), groups, enable_aam=aam, parser=Parser(use_multigraph=multi))), groups, False
    if kind == "proxy_from_dict" and not (aam and multi and cls is Proxy):
        kind = "group_from_dict"                   # Proxy.from_dict documents core and groups only
    if kind == "proxy_from_dict":
        def make():
            r2 = random.Random(seed)
            cfg = {"core": cores[0] if len(cores) == 1 and r2.random() < 0.7 else list(cores),
                   "groups": {n: _group_cfg(gs, r2, True) for n, gs in spec.items()}}
            return Proxy.from_dict(cfg)
        groups = ProxyGroup.from_dict({n: _group_cfg(gs, rnd, True) for n, gs in spec.items()})
        return make, groups, rnd.random() < 0.5
    if kind == "group_from_dict":
        groups = ProxyGroup.from_dict({n: _group_cfg(gs, rnd, True) for n, gs in spec.items()})
    elif kind == "group_from_dict_single":
        groups = {n: ProxyGroup.from_dict_single(n, _group_cfg(gs, rnd, False)) for n, gs in spec.items()}
    elif kind == "object_forms":
        groups = {n: _group_obj(n, gs, rnd) for n, gs in spec.items()}
    elif kind == "sampler_forms":
        groups = {n: _group_obj(n, gs, rnd, samplers=True) for n, gs in spec.items()}
    else:
        raise ValueError("unknown route %r" % (kind,))
    core_pgs = [ProxyGraph(c) for c in cores]
    cf = rnd.randrange(5)
    gf = rnd.randrange(3)
    pf = rnd.randrange(4)

    def make():
        if cf == 0 and len(cores) == 1:
            core = cores[0]
        elif cf == 1:
            core = list(cores)
        elif cf == 2:
            core = ProxyGroup("__core__", list(core_pgs), unique=True)
        elif cf == 3:
            core = ProxyGroup("core", list(cores), sampler=GraphSampler(unique=True))
        else:
            core = list(core_pgs)
        if gf == 0 and len(groups) == 1:
            garg = next(iter(groups.values()))
        elif gf == 1:
            garg = list(groups.values())
        else:
            garg = groups
        parser = Parser(use_multigraph=multi)
        if cls is Proxy and not aam and pf == 0:
            return MolProxy(core, garg, parser)
        if pf == 1:
            return cls(core, garg, aam, parser)
        if pf == 2:
            kw = {}
            if not aam:
                kw["enable_aam"] = False               # documented default: True
            if not multi:
                kw["parser"] = parser                  # documented default: Parser(use_multigraph=True)
            return cls(core, garg, **kw)
        return cls(core=core, groups=garg, enable_aam=aam, parser=parser)
    return make, groups, rnd.random() < 0.5


# ---------------------------------------------------------------------------
# random configurations
# ---------------------------------------------------------------------------
def num_exp(groups, pattern, memo=None):
    """the count formula, in Python, to bound the size of generated configurations (not an oracle)"""
    from fgutils.parse import Parser
    g = Parser(use_multigraph=True).parse(pattern)
    total = 1
    for _, d in g.nodes(data=True):
        if d["is_labeled"]:
            ls = [l for l in d["labels"] if l in groups]
            if len(ls) == 1:
                total *= sum(num_exp(groups, pg.pattern) for pg in groups[ls[0]].graphs)
            elif len(ls) > 1:
                return 0
    return total


def gen_config(rng, allow_errors=True):
    """random group DAG: group i may reference groups j > i; nesting <= 4"""
    from fgutils.proxy import ProxyGroup, ProxyGraph
    from fgutils.parse import Parser
    k = rng.randint(2, 8)
    names = ["g%d" % i for i in range(k)]
    level = [min(i * 5 // k, 4) for i in range(k)]       # at most 5 levels = nesting <= 4
    groups = {}
    flags = set()
    for i in reversed(range(k)):
        deeper = [names[j] for j in range(k) if level[j] > level[i]]
        graphs = []
        for _ in range(rng.choice([1, 1, 2, 2, 3, 4])):
            r = rng.random()
            if r < 0.12:
                pat = ""
                flags.add("empty_pattern")
            else:
                nl = rng.choice([0, 0, 1, 1, 2]) if deeper else 0
                ml = 0.0
                if allow_errors and rng.random() < 0.03 and len(deeper) >= 2:
                    ml = 0.9
                pat = None
                for _ in range(30):
                    cand = rand_pattern(rng, rng.randint(1, 5), its=rng.random() < 0.25, n_labels=nl,
                                        label_names=tuple(deeper) + (("zz",) if rng.random() < 0.1 else ()) if deeper else ("zz",),
                                        multi_label=ml)
                    try:
                        Parser(use_multigraph=True).parse(cand)
                        pat = cand
                        break
                    except Exception:
                        continue
                if pat is None:
                    pat = "C"
                if ml > 0:
                    flags.add("multi_label_node")
            hn = Parser(use_multigraph=True).parse(pat).number_of_nodes()
            na = rng.choice([1, 1, 1, 2, 2, 3, 3, 4, 5])
            anchors = [rng.randrange(hn) for _ in range(na)] if hn else [0]
            if na > 1:
                flags.add("multi_anchor")
            if na > 2:
                flags.add("anchors>2")
            graphs.append(ProxyGraph(pat, anchor=anchors))
        if rng.random() < 0.3:
            # a second graph with the SAME pattern: another anchor list (a different way to attach it), or an exact duplicate
            # (listed twice = chosen twice: two samples)
            src = rng.choice(graphs)
            hn = Parser(use_multigraph=True).parse(src.pattern).number_of_nodes()
            if hn >= 2 and rng.random() < 0.7:
                sh = rng.randrange(1, hn)
                graphs.append(ProxyGraph(src.pattern, anchor=[(a + sh) % hn for a in src.anchor]))
                flags.add("same_pattern_other_anchor")
            else:
                graphs.append(ProxyGraph(src.pattern, anchor=list(src.anchor)))
                flags.add("duplicate_graph")
        if len(graphs) > 1:
            flags.add("multi_graph_group")
        groups[names[i]] = ProxyGroup(names[i], graphs)
    groups = {n: groups[n] for n in names}
    core = None
    for _ in range(30):
        cand = rand_pattern(rng, rng.randint(1, 6), its=rng.random() < 0.3, n_labels=rng.randint(1, 3),
                            label_names=tuple(names), multi_label=0.5 if (allow_errors and rng.random() < 0.04) else 0.0)
        try:
            Parser(use_multigraph=True).parse(cand)
            core = cand
            break
        except Exception:
            continue
    if core is None:
        core = "C{g0}"
    return groups, core, flags


def impl_build(core, groups, multi, route=None, spec=None):
    from fgutils.parse import Parser
    from fgutils.proxy import build_graphs, ProxyGraph
    kw = False
    if route is not None:
        _, groups, kw = construct(spec, [core], route, True, multi)
    if kw:
        return sorted_canon(build_graphs(core=ProxyGraph(pattern=core), groups=groups, parser=Parser(use_multigraph=multi)))
    return sorted_canon(build_graphs(ProxyGraph(core), groups, Parser(use_multigraph=multi)))


def impl_generate(cores, groups, aam, multi, history=False, protocol=None, route=None, spec=None):
    """the enumeration of iter(Proxy).  With `history`, a first proxy built from the SAME core
    ProxyGraph objects and group objects is exhausted before (a proxy's enumeration must not depend
    on proxies used earlier in the process); the enumeration of the second one is returned.
    `protocol` = how the one proxy object is consumed (the enumeration is a property of the proxy, not of the
    way its iterator protocol is driven): None = list(proxy); ["next", k] = k samples with next(proxy), the rest
    with a for-loop over the same proxy; ["next_list", k] = k with next(), the rest with list(proxy);
    ["loops", k] = a for-loop left with `break` after k samples, then a second for-loop;
    ["get_next", k] = k samples with proxy.get_next(), the rest with a for-loop.  The concatenation is returned."""
    from fgutils.parse import Parser
    from fgutils.proxy import Proxy, ProxyGraph
    if route is not None:
        # the configuration built along a construction route (see `construct`); with `history` the first proxy is
        # built the same way from the same group objects
        make, _, _ = construct(spec, cores, route, aam, multi)
    else:
        core_pgs = [ProxyGraph(c) for c in cores]

        def make():
            return Proxy(list(core_pgs), groups, enable_aam=aam, parser=Parser(use_multigraph=multi))
    if history:
        first = list(make())
        del first
    p = make()
    if protocol is None:
        return sorted_canon(list(p))
    kind, k = protocol
    out = []
    if kind == "loops":
        if k > 0:
            for g in p:
                out.append(g)
                if len(out) >= k:
                    break
    else:
        try:
            for _ in range(k):
                out.append(p.get_next() if kind == "get_next" else next(p))
        except StopIteration:
            return sorted_canon(out)
    if kind == "next_list":
        out += list(p)
    else:
        for g in p:
            out.append(g)
    return sorted_canon(out)


def impl_next(g, groups, multi, route=None, spec=None):
    from fgutils.parse import Parser
    from fgutils.proxy import replace_next_node
    kw = False
    if route is not None:
        _, groups, kw = construct(spec, ["C"], route, True, multi)
    if kw:
        r = replace_next_node(graph=g, groups=groups, parser=Parser(use_multigraph=multi))
    else:
        r = replace_next_node(g, groups, Parser(use_multigraph=multi))
    return None if r is None else [enc_graph(x) for x in r]


def shipped(which):
    """(effective groups, core pattern strings, proxy factory) of a shipped collection"""
    from fgutils.proxy import Proxy
    from fgutils.proxy_collection.common import common_groups
    from fgutils.proxy_collection.diels_alder_proxy import DielsAlderProxy
    if which == "common":
        p = Proxy("C", list(common_groups))
        return effective_groups(p), []
    p = DielsAlderProxy(neg_sample=(which == "da_neg"))
    return effective_groups(p), [pg.pattern for pg in p.core.graphs]


def table_cases(r, contract):
    """the generated tables of the shipped collections against what the real parser extracts now"""
    from fgutils.parse import Parser
    cases = []
    for which in ("da_pos", "da_neg", "common"):
        groups, cores = shipped(which)
        cfg = enc_config(groups, True, contract)
        req = [Atom("C14"), Atom("table"), Atom(which), cfg, [enc_graph(Parser(use_multigraph=True).parse(c)) for c in cores]]
        cases.append(Case(req, True, meta={"table": which}, tags=("table:" + which,), nontrivial_key=("table", which)))
    return cases


def run(tier, seed):
    from fgutils.parse import Parser
    from fgutils.proxy import ProxyGroup, ProxyGraph
    r = Run("C14", tier, seed)
    if not prepare(r, PROOFS, "C14"):
        return 2
    genparsed.audit_into(r, only=["fast", "refs", "proxy_"])
    rng = r.rng
    contract = {}
    cases = table_cases(r, contract)

    k7 = next((f for f in load_known_findings() if f.get("id") == "K7" and f.get("status") == "open"), None)

    def classify_known(o):
        """K7: an `iter(Proxy)` enumeration that fails the UNCONDITIONAL bond-conservation clause although it is
        exactly the model's enumeration, passes the clause restricted to samples whose build_graphs pre-image
        has no parallel bonds (model flag sideOk/noParallel) and the model counts at least one pre-image WITH
        parallel bonds.  Anything else that fails is a violation."""
        if k7 is None or not o.case.tags or o.case.tags[0] != "generate":
            return None
        if not (o.ok_reply and o.spec_fail and o.corr and len(o.extra) >= 4):
            return None
        try:
            n_fail = int(o.extra[2])
        except (TypeError, ValueError):
            return None
        if o.extra[3] == "1" and n_fail > 0:
            return k7
        return None

    def flush():
        # evaluated in batches so that a thorough run does not hold every case in memory
        outs = r.evaluate(cases, classify_known=classify_known)
        check_model_spec(r, outs)
        for o in outs:
            if o.ok_reply and o.case.tags and o.case.tags[0] == "build" and o.case.in_domain and len(o.extra) >= 4:
                # are the decidable hypotheses of the C14 theorems true on the inputs that produce results?
                if not (isinstance(o.model, list) and o.model[:1] == ["raised"]):
                    r.count("theorem_hypotheses_hold" if o.extra[3] == "1" else "theorem_hypotheses_FALSE_on_input_with_results")
            # `enumeration_exact` clause (Model/C14Choice.lean: allChoices … |>.map expand as a multiset of canonical graphs
            # against the implementation's enumeration; evaluated for <= 400 results; part of spec_impl)
            if o.ok_reply and o.case.tags and o.case.tags[0] in ("build", "generate") and o.case.in_domain:
                idx = 4
                if len(o.extra) > idx:
                    lvl = "build_graphs" if o.case.tags[0] == "build" else "iter(Proxy)"
                    v = o.extra[idx]
                    r.count("enumeration_exact_clause[%s]:%s" % (lvl, {"1": "holds_on_impl_output", "0": "FAILS_on_impl_output"}.get(v, "not_evaluated(raises_or_>400_results)")))
                    if o.case.tags[0] == "build" and len(o.extra) > 5 and o.extra[5] == "0":
                        r.count("enumeration_exact_clause[build_graphs]:FAILS_ON_MODEL_OUTPUT(theorem_contradicted)")
            if o.ok_reply and o.case.tags and o.case.tags[0] == "generate" and len(o.extra) >= 3:
                # conservation at the iter(Proxy) level: how often does the side condition (no parallel bonds left
                # to collapse in the build_graphs result) fail?  The driver applies the conservation check to the
                # implementation's samples whose side condition holds (symbols: to all of them).
                try:
                    n_res, n_fail = int(o.extra[1]), int(o.extra[2])
                except (TypeError, ValueError):
                    n_res = n_fail = 0
                r.count("iter_results_total", n_res)
                r.count("iter_results_side_condition_fails(parallel_bonds_collapse)", n_fail)
                r.count("iter_results_bond_conservation_checked_on_impl", n_res)      # the clause is applied to ALL samples
                r.count("iter_runs_total")
                if n_fail:
                    r.count("iter_runs_with_side_condition_failure")
                if o.case.in_domain and o.spec_fail:
                    r.count("iter_runs_failing_unconditional_bond_conservation:" +
                            ("K7(known finding)" if classify_known(o) is not None else "VIOLATION"))
            if o.ok_reply and o.case.tags and o.case.tags[0].startswith("table:"):
                r.notes[o.case.tags[0]] = {"refs_match": o.model, "totalExp_generated_table": o.extra[0] if o.extra else None,
                                           "totalExp_parsed_config": o.extra[1] if len(o.extra) > 1 else None,
                                           "acyclic": o.extra[2] if len(o.extra) > 2 else None,
                                           "cfgOk": o.extra[3] if len(o.extra) > 3 else None}
        del cases[:]
    # corpus
    corpus = [
        ({"g": ["C", "O", "N"]}, "C{g}"),
        ({"g": ["", "C"], "h": ["N{g}", "O"]}, "{h}C{g}"),
        ({"a": ["{H}"], "H": [""]}, "C{a}C"),                      # re-attached bonds die with the empty pattern
        ({"g": ["O"]}, "C1{g}1"),                                   # parallel bonds collapse in iter(Proxy)
        ({"x": ["C"], "g": ["N"]}, "C{x,g}"),                       # two group labels: RuntimeError (m24)
        ({"x": ["C"], "g": ["N", "O"]}, "C{zz,g}{x}"),              # unknown label ignored
        ({"g": ["C", "CC", "CCC", "CCCC", "N"]}, "{g}C{g}"),        # group with more than 3 graphs
        ({"g": ["CC", "N"]}, "C" * 42 + "{g}"),                     # results with >= 41 nodes: aam = id + 1 beyond id 40 (m26)
        # enumeration_exact witnesses: two graphs of a group with the same symbols and bonds but a different attachment
        # (`CN` / `NC`: anchor 0 is C resp. N): taking one twice and never the other keeps the count and the multiset of
        # (symbols, bond labels) signatures; only the multiset of GRAPHS tells (clause enumeration_exact)
        ({"g": ["O", "CN", "NC"]}, "S{g}"),
        ({"g": ["O", "CN", "NC"], "h": ["{g}C", "P"]}, "{h}S{g}"),
        # review 3 (M5): graphs of one group that differ ONLY in the anchor, the same graph listed twice, one-graph groups -
        # through every construction route (a from_dict that merges entries with the same pattern yields 1 sample for 2)
        ({"g": [["CO", [0]], ["CO", [1]]]}, "C{g}"),
        ({"g": [["CO", [0]], ["CO", [0]]]}, "C{g}"),
        ({"g": [["CO", [1]]]}, "C{g}"),
        ({"g": [["CO", [0]], ["CO", [1]], ["CO", [0]], "N"], "h": [["S{g}C", [2, 0]], ["S{g}C", [0, 2]]]}, "N{h}1CC1{g}"),
        ({"g": [["CNO", [0, 1, 2, 1, 0]], ["CNO", [2, 1, 0, 1, 2]]]}, "C1C{g}(C)(C)1"),       # anchor lists of length 5
    ]
    # every corpus configuration through every construction route, then the generated ones
    plan = [(ci, rt) for ci in range(len(corpus)) for rt in range(len(ROUTES))]
    n_cfg = 140 if tier == "quick" else 1500
    for k in range(n_cfg + len(plan)):
        multi = True
        if k < len(plan):
            spec, core = corpus[plan[k][0]]
            groups = {n: ProxyGroup(n, [ProxyGraph(p, anchor=[0]) if isinstance(p, str) else ProxyGraph(p[0], anchor=list(p[1])) for p in ps])
                      for n, ps in spec.items()}
            flags = {"corpus"}
        else:
            for _ in range(20):
                groups, core, flags = gen_config(rng)
                if num_exp(groups, core) <= (400 if tier == "quick" else 1500):
                    break
            multi = rng.random() < 0.8
        # construction routes: a fixed share (1/6 each) of the configurations per operation
        routes = [[ROUTES[(plan[k][1] if k < len(plan) else k + off) % len(ROUTES)], rng.randrange(1 << 30)] for off in (0, 2, 4)]
        if rng.random() < 0.02 and k >= len(plan):
            # dictionary key that does not match the group name: ValueError when the group is used
            n0 = next(iter(groups))
            groups = dict(groups)
            groups[n0] = ProxyGroup(n0 + "_x", groups[n0].graphs)
            flags.add("key_name_mismatch")
            routes = [None, None, None]
        r_gen, r_build, r_next = [None if rt is None or rt[0] == "objects" else rt for rt in routes]
        cfg = enc_config(groups, multi, contract)
        try:
            core_g = Parser(use_multigraph=multi).parse(core)
        except Exception:
            continue
        in_dom = not any(gg.has_edge(n, n) for gg in [core_g] + [Parser(use_multigraph=multi).parse(pg.pattern)
                                                                  for g_ in groups.values() for pg in g_.graphs]
                         for n, d in gg.nodes(data=True) if d["is_labeled"])
        spec_w = spec_of(groups)
        meta = {"groups": spec_w, "core": core, "multi": multi}
        out = call_impl(impl_build, core, groups, multi, r_build, spec_w)
        nres = None if isinstance(out, ImplError) else len(out)
        if nres:
            # side condition of conservation at the iter(Proxy) level: no parallel bonds left to collapse
            par = sum(1 for c in out if len({(e[0], e[1]) for e in c[1]}) != len(c[1]))
            r.count("build_results_total", nres)
            r.count("build_results_with_parallel_bonds(collapse_loses_bonds)", par)
        tags = ["build", "multi" if multi else "simple", "groups=%d" % len(groups)] + sorted("cfg:" + f for f in flags)
        tags.append("raises" if nres is None else ("results>3" if nres > 3 else "results<=3"))
        tags.append("route=%s" % (r_build[0] if r_build else "objects"))
        cases.append(Case([Atom("C14"), Atom("build"), cfg, enc_graph(core_g)], out, meta=dict(meta, route=r_build), tags=tags, in_domain=in_dom,
                          nontrivial_key=("build", sx(cfg), core) if (nres or 0) > 1 or nres is None else None))
        # iter(Proxy) with one or two cores
        cores = [core]
        if rng.random() < 0.4:
            cores.append(rng.choice(["C{g0}", "{g1}N", core]))
        aam = rng.random() < 0.7
        try:
            core_gs = [enc_graph(Parser(use_multigraph=multi).parse(c)) for c in cores]
        except Exception:
            continue
        history = rng.random() < 0.35
        # iteration protocol: half of the enumerations are drawn partly with next()/get_next()/a broken for-loop and
        # finished with a (second) for-loop or list() over the SAME proxy object
        protocol = None
        if rng.random() < 0.5:
            protocol = [rng.choice(["next", "next_list", "loops", "get_next"]), rng.randint(1, 4)]
        if r_gen and r_gen[0] == "proxy_from_dict" and not multi:
            r_gen = ["group_from_dict", r_gen[1]]
        if r_gen and r_gen[0] == "proxy_from_dict":
            aam = True          # Proxy.from_dict documents "core" and "groups" only: the defaults (enable_aam=True, multigraph parser)
        out = call_impl(impl_generate, cores, groups, aam, multi, history, protocol, r_gen, spec_w)
        cases.append(Case([Atom("C14"), Atom("generate"), cfg, core_gs, aam], out,
                          meta=dict(meta, cores=cores, aam=aam, history=history, protocol=protocol, route=r_gen), in_domain=in_dom,
                          tags=("generate", "aam" if aam else "no_aam", "cores=%d" % len(cores), "after_earlier_proxy" if history else "fresh_process_state",
                                "protocol=%s" % (protocol[0] if protocol else "list(proxy)"), "route=%s" % (r_gen[0] if r_gen else "objects"))
                          + tuple("cfg:" + f for f in sorted(flags) if f in ("same_pattern_other_anchor", "duplicate_graph", "anchors>2")),
                          nontrivial_key=("gen", sx(cfg), tuple(cores), aam)))
        if len(cases) >= 150:
            flush()
        # single step, exact adjacency (also validates that graph.copy() is unobservable)
        if k % 3 == 0:
            out = call_impl(impl_next, core_g, groups, multi, r_next, spec_w)
            cases.append(Case([Atom("C14"), Atom("next"), cfg, enc_graph(core_g)], out, meta=dict(meta, route=r_next),
                              tags=("next", "route=%s" % (r_next[0] if r_next else "objects")), in_domain=in_dom,
                              nontrivial_key=("next", sx(cfg), core)))
    # complete enumeration of a shipped collection that is small: C{any} over common_groups
    groups, _ = shipped("common")
    cfg = enc_config(groups, True, contract)
    out = call_impl(impl_generate, ["C{any}"], groups, False, True)
    cases.append(Case([Atom("C14"), Atom("generate"), cfg, [enc_graph(Parser(use_multigraph=True).parse("C{any}"))], False], out,
                      meta={"collection": "common_groups", "core": "C{any}"}, tags=("generate", "shipped:common"),
                      nontrivial_key=("gen", "common")))
    out = call_impl(impl_generate, ["C{any}", "N{any}"], groups, True, True, False, ["next", 3])
    cases.append(Case([Atom("C14"), Atom("generate"), cfg, [enc_graph(Parser(use_multigraph=True).parse(c)) for c in ("C{any}", "N{any}")], True], out,
                      meta={"collection": "common_groups", "cores": ["C{any}", "N{any}"], "protocol": ["next", 3]},
                      tags=("generate", "shipped:common", "protocol=next"), nontrivial_key=("gen", "common2")))
    flush()
    # documented domain restriction of "... and then stops" (evidence only, never decides the verdict): a
    # user-supplied core ProxyGroup with the default sampler GraphSampler(unique=False) is re-sampled for ever
    r.notes["non_unique_core_sampler_never_stops"] = non_stopping_core_probe()
    if tier == "thorough":
        for which in ("da_pos", "da_neg"):
            thorough_shipped(r, which, contract)
    bad = [k for k, v in contract.items() if not v]
    r.notes["parse_offset_contract_checked"] = len(contract)
    if bad:
        p = r.write_replay("correspondence", "parse_offset_contract",
                           {"theorem_or_correspondence": ["assumed contract parse(p, idx_offset=k) = shift (parse p) k (C01)"],
                            "witnesses": [list(b) for b in bad[:5]]})
        r.violation_lines.append("VIOLATION property=C14 replay=%s no-failing-input-found" % p)
    finalize_model_spec(r)
    r.extra_cov["notes"] = r.notes
    r.assumptions = [
        "replace_node as modelled in Model/C13.lean (validated exactly by the C13 check); patterns enter as data parsed by the real parser",
        "group samplers are non-restricting: the default GraphSampler(unique=False) or, on the route sampler_forms, an explicit "
        "equivalent (GraphSampler(), a function, a function with the group_name keyword, a GraphSampler subclass, a function that answers "
        "a one-graph group with the bare ProxyGraph); the core group uses unique=True",
        "CONSTRUCTION ROUTES (review 3, M5): the request to the model is always encoded from the configuration as data (group name -> "
        "[(pattern, anchors)], cores); the implementation receives it built along one of %d routes, a fixed 1/%d share of the generated "
        "configurations per operation and every corpus configuration along every route (tags route=*): %s - ProxyGraph / ProxyGroup / "
        "Proxy / MolProxy objects in every documented argument form (positional, keyword, defaults omitted, graphs as str | [str] | "
        "ProxyGraph | [ProxyGraph] | mixed, groups as dict | list | single group, core as str | [str] | [ProxyGraph] | unique ProxyGroup), "
        "ProxyGroup.from_dict and from_dict_single in every documented JSON form (bare string, list of strings, graphs: str | [str] | "
        "{pattern, anchor} | [{pattern, anchor, <any key>}, str]), Proxy.from_dict({core, groups}); generated groups carry graphs that "
        "differ only in the anchor list, graphs listed twice, anchor lists of length 1-5.  Every route must give the model's enumeration" % (len(ROUTES), len(ROUTES), ", ".join(ROUTES)),
        "the enumeration is a property of the proxy object, not of how its iterator protocol is driven: half of the iter(Proxy) cases "
        "draw the first 1-4 samples with next(proxy) / proxy.get_next() / a for-loop left with break and the rest with a (second) "
        "for-loop or list() over the same object; the concatenation must be the full enumeration (tags protocol=*)",
        "DOMAIN RESTRICTION of '... and then stops': claimed for cores whose sampler is unique - what Proxy builds itself from a "
        "pattern string / list of strings (ProxyGroup('__core__', core, unique=True)) and what the shipped collections use "
        "(DielsAlderProxy: ProxyGroup('__DA_core__', ..., unique=True)); a user-supplied core ProxyGroup with the default "
        "non-unique sampler is re-sampled for ever and the iteration never stops (coverage.notes.non_unique_core_sampler_never_stops: "
        "islice(p, 50) returns 50 for a configuration with 3 combinations) - outside the claimed domain, reported in the evidence only",
        "KNOWN FINDING K7 (bond conservation at the iter(Proxy) level): the conservation clause is applied to ALL samples of "
        "every iter-level implementation output; it FAILS for configurations whose build_graphs results carry parallel bonds "
        "(Proxy('C1{g}1', ProxyGroup('g','O')): two pattern bonds, one C-O bond in the sample - the MultiGraph->Graph collapse in "
        "Proxy.__generate drops them).  Such a failure is classified K7 only when the implementation's enumeration equals the "
        "model's, the clause restricted to samples without parallel bonds in their pre-image holds (model flag sideOk/noParallel) "
        "and the model counts at least one pre-image with parallel bonds; every other failure is a VIOLATION.  The theorems "
        "(C14.iter_conserved ...) prove conservation under the side condition only",
        "ENUMERATION CLAUSE ('exactly one graph per combination of choices'): Model/C14Choice.lean defines the choice combinations "
        "of a pattern (choice trees; allChoices = product over group nodes / concatenation over the graphs of a group) and the "
        "expansion of one combination without the working-set loop; C14.enumeration_exact / enumeration_total prove the loop's "
        "results to be a permutation of allChoices.map expand (every combination once, nothing else; allChoices = the valid "
        "combinations (inductive predicate ValidCombo), each once: C14.mem_allChoices_iff / allChoices_nodup), C14.enumeration_multiset the "
        "'multiset over the whole enumeration' clause.  The driver evaluates the same clause on every implementation output with "
        "<= 400 results (multiset of canonical graphs; counts under enumeration_exact_clause[*]); a duplicated + a dropped "
        "combination is a spec failure even when count and per-result conservation hold",
        "graph.copy() in replace_next_node is not modelled (unobservable: compose re-adds all edges; op 'next' compares exact adjacency)",
        "the generated tables (harness/gen_tables_c14.py) are the effective Proxy.__groups dictionaries; label references are "
        "extracted with the real parser and cross-checked by the driver against the parsed configuration on every run",
    ]
    return r.finish(
        level="proof",
        rule="random group DAGs (2-8 groups, nesting <= 4, 1-5 graphs per group incl. same-pattern-other-anchor twins and duplicates, 1-5 anchors, "
             "every configuration built along one of the construction routes objects / object_forms / group_from_dict / group_from_dict_single / "
             "proxy_from_dict / sampler_forms (fixed shares), empty patterns, unknown labels, "
             "multi-label nodes and key/name mismatches that must raise; simple and multigraph parser) with random cores (1-3 label nodes), "
             "bounded to <= 400 (quick) / 1500 (thorough) results; observable = the whole enumeration as a sorted list of canonical graphs "
             "for build_graphs and iter(Proxy), exact graphs for replace_next_node; the generated tables of the shipped collections; "
             "thorough: DielsAlderProxy(neg_sample=False/True) completely (fingerprints one by one + per-result spec)",
        checker_cmd="cd lean && lake build FGVerif.Proofs.C14 FGVerif.Proofs.C14Enum FGVerif.Proofs.C14EnumMultiset FGVerif.Proofs.C14EnumValid && lake env lean FGVerif/Audit/C14.lean && " + genparsed.CHECKER_CMD,
        explanation="theorems in lean/FGVerif/Proofs/C14*.lean about Model/C14.lean (+C13); table obligations da_count_pos/neg by kernel "
                    "evaluation of the count formula on the generated tables; model tied to fgutils.proxy by differential testing; "
                    "executable spec (count formula, exact enumeration = multiset of canonical graphs of all choice combinations "
                    "(C14.enumeration_exact/_total/_multiset), no group label left, contiguous ids, conservation at the build_graphs level and - "
                    "for ALL samples, symbols and bond labels - at the iter(Proxy) level; failures caused by the collapse of parallel bonds are "
                    "the recorded known finding K7, decided per case) on implementation outputs; "
                    + genparsed.EXPLANATION + " — for C14: GenParsed.da_pos_refs_parsed / da_neg_refs_parsed / common_refs_parsed "
                    "(label references and anchors of Generated/C14.lean from the pattern strings) and proxy_patterns_parsed (the model "
                    "returns the real parser's graph on every shipped proxy pattern)")


def non_stopping_core_probe():
    """`Proxy(ProxyGroup("core", "C{g}"), ProxyGroup("g", ["N", "O", "C"]))`: 3 combinations, but the core group's
    default sampler is not unique, so `Proxy.__generate` re-samples the core for ever; `islice(p, 50)` returns 50.
    The same configuration with the core given as a string (what Proxy wraps into a unique core group) stops after 3."""
    from itertools import islice
    from fgutils.proxy import Proxy, ProxyGroup
    try:
        g = ProxyGroup("g", ["N", "O", "C"])
        n_group_core = len(list(islice(Proxy(ProxyGroup("core", "C{g}"), g), 50)))
        n_string_core = len(list(islice(Proxy("C{g}", g), 50)))
        n_unique_group_core = len(list(islice(Proxy(ProxyGroup("core", "C{g}", unique=True), g), 50)))
        return {"config": "core C{g}, group g = [N, O, C] (3 combinations)",
                "islice(Proxy(ProxyGroup('core','C{g}') [default non-unique sampler], g), 50)": n_group_core,
                "islice(Proxy('C{g}', g), 50)": n_string_core,
                "islice(Proxy(ProxyGroup('core','C{g}', unique=True), g), 50)": n_unique_group_core,
                "reading": "out of the claimed domain: 'then stops' is claimed for cores whose sampler is unique"}
    except Exception as e:  # noqa: evidence only
        return {"error": "%s: %s" % (type(e).__name__, str(e)[:200])}


def groups_from_meta(meta):
    from fgutils.proxy import ProxyGroup, ProxyGraph
    return {n: ProxyGroup(n, [ProxyGraph(p, anchor=list(a)) for p, a in gs]) for n, gs in meta["groups"].items()}


def replay(path):
    """re-run the configuration of a replay file against the current tree"""
    import json
    from fgutils.parse import Parser
    from common import Driver, parse_sx, Outcome
    d = json.load(open(path))
    meta = d.get("meta") or {}
    if not d.get("request_line") or "groups" not in meta:
        print("replay file carries no re-runnable configuration (kind=%s): %s; re-run ./check C14" % (d.get("kind"), d.get("theorem_or_correspondence")))
        return 2   # nothing to re-run: not a VIOLATION (exit 1 iff a VIOLATION line is printed)
    op = parse_sx(d["request_line"])[1]
    groups = groups_from_meta(meta)
    multi = meta["multi"]
    route = meta.get("route")
    if route:
        print("re-built along the recorded construction route: %s" % (route,))
    cfg = enc_config(groups, multi)
    core_g = enc_graph(Parser(use_multigraph=multi).parse(meta["core"]))
    if op == "build":
        case = Case([Atom("C14"), Atom("build"), cfg, core_g], call_impl(impl_build, meta["core"], groups, multi, route, meta["groups"]), meta=meta)
    elif op == "generate":
        cores = meta.get("cores", [meta["core"]])
        case = Case([Atom("C14"), Atom("generate"), cfg, [enc_graph(Parser(use_multigraph=multi).parse(c)) for c in cores], meta.get("aam", True)],
                    call_impl(impl_generate, cores, groups, meta.get("aam", True), multi, meta.get("history", False), meta.get("protocol"),
                              route, meta["groups"]), meta=meta)
    else:
        case = Case([Atom("C14"), Atom("next"), cfg, core_g],
                    call_impl(impl_next, Parser(use_multigraph=multi).parse(meta["core"]), groups, multi, route, meta["groups"]), meta=meta)
    drv = Driver()
    o = Outcome(case, drv.ask(case.line()))
    drv.close()
    print("replay %s: implementation output %s the specification; model %s implementation"
          % (path, "VIOLATES" if o.spec_fail else "meets", "==" if o.corr else "!="))
    if op == "generate" and o.spec_fail and o.corr and len(o.extra) >= 4 and o.extra[3] == "1" and o.extra[2] not in ("0", "_"):
        k7 = next((f for f in load_known_findings() if f.get("id") == "K7" and f.get("status") == "open"), None)
        if k7 is not None:
            print("KNOWN-FINDING: property=C14 %s [K7]" % k7["what"])
            return 0
    if o.spec_fail or not o.corr:
        print("VIOLATION property=C14 replay=%s%s" % (path, "" if o.spec_fail else " no-failing-input-found"))
        return 1
    return 0


def thorough_shipped(r, which, contract, reaction=False):
    """complete enumeration of a shipped Diels-Alder collection at the iter(Proxy) level: fingerprints
    of canonical results compared one by one with the compiled model, per-result spec in chunks"""
    from fgutils.parse import Parser
    from fgutils.proxy import Proxy, ProxyGroup
    groups, cores = shipped(which)
    cfg = enc_config(groups, True, contract)
    core_gs = [enc_graph(Parser(use_multigraph=True).parse(c)) for c in cores]
    from fgutils.proxy_collection.diels_alder_proxy import DielsAlderProxy
    p = DielsAlderProxy(neg_sample=(which == "da_neg"))
    core_group = ProxyGroup("__DA_core__", p.core.graphs, unique=True)
    xs = [canon_graph(x) for x in Proxy(core_group, groups, enable_aam=True)]
    drv = r.get_driver()
    rep = drv.ask(sx([Atom("C14"), Atom("enum_fp"), cfg, core_gs, True]))
    ok = isinstance(rep, list) and rep[0] == "ok" and isinstance(rep[1], list)
    model_fp = rep[1] if ok else []
    impl_fp = [[str(v) for v in fingerprint(x)] for x in xs]
    r.evaluations += len(xs)
    r.traces_validated += len(xs)
    r.count("tag:shipped:%s" % which, len(xs))
    r.notes["thorough:%s" % which] = {"impl_count": len(xs), "model_count": len(model_fp),
                                      "model_conserved": rep[5] if ok and len(rep) > 5 else None}
    same_order = model_fp == impl_fp
    first_diff = None
    if sorted(map(str, model_fp)) != sorted(map(str, impl_fp)):
        mk = set(map(str, model_fp))
        first_diff = next((i for i, a in enumerate(impl_fp) if str(a) not in mk), 0)
    r.notes["thorough:%s" % which]["same_order"] = same_order
    # bond conservation at the iter(Proxy) level for ALL samples of the shipped collection: the implementation's samples are
    # the model's one by one (fingerprints), the model's build_graphs results are conserved (rep[5]) and none of them carries
    # parallel bonds (rep[6] = 0: nothing for the MultiGraph->Graph collapse to drop); with parallel bonds and
    # implementation == model it is the known finding K7
    n_side_fail = int(rep[6]) if ok and len(rep) > 6 and str(rep[6]).isdigit() else None
    r.notes["thorough:%s" % which]["build_results_with_parallel_bonds(K7_scope)"] = n_side_fail
    if n_side_fail and first_diff is None and len(model_fp) == len(impl_fp):
        from common import Outcome
        k7 = next((f for f in load_known_findings() if f.get("id") == "K7" and f.get("status") == "open"), None)
        if k7 is not None:
            r.known_hits.append((k7, Outcome(Case([Atom("C14"), Atom("enum_fp"), Atom(which)], None, compare_model=False), rep)))
        else:
            pth = r.write_replay("failing-input", "iter_conservation_" + which, {
                "spec_clause": "bond labels of every sample = union of the chosen patterns' (iter(Proxy) level)",
                "collection": which, "build_results_with_parallel_bonds": n_side_fail})
            r.violation_lines.append("VIOLATION property=C14 replay=%s" % pth)
    if not ok or len(model_fp) != len(impl_fp) or first_diff is not None or (ok and rep[5] != "1"):
        pth = r.write_replay("correspondence", "enum_" + which, {
            "theorem_or_correspondence": ["complete enumeration of %s: model vs iter(Proxy)" % which],
            "impl_count": len(xs), "model_count": len(model_fp), "first_differing_index": first_diff,
            "impl_sample": sx(xs[first_diff]) if first_diff is not None else None})
        r.violation_lines.append("VIOLATION property=C14 replay=%s no-failing-input-found" % pth)
    # per-result spec on implementation outputs
    cases = []
    for i in range(0, len(xs), 250):
        cases.append(Case([Atom("C14"), Atom("check_results"), [[k, n, []] for k, n, _ in cfg], True, xs[i:i + 250]],
                          None, compare_model=False, meta={"collection": which, "chunk": i}, tags=("check_results:" + which,)))
    outs = r.evaluate(cases)
    for o in outs:
        if o.ok_reply and o.spec_impl == "0":
            pass  # already recorded as spec failure by evaluate
    return xs
