#!/venv/bin/python
"""Writes MANIFEST.json from the table below (kept in one place so it stays valid)."""
import json, os
VERIF = os.path.dirname(os.path.dirname(os.path.abspath(__file__)))

CLAIMED = {
    "C20": dict(
        text="Lean 4 theorems (C20.complete_spec, specCheck_sound, initialize_*) prove for every node list, partial map and offset that the model of complete_aam/initialize_aam meets the declarative specification; the model is tied to the code by differential testing on every run and the proved-sound executable spec is applied to every implementation output.",
        note="Trusted: Lean kernel (+propext, Quot.sound), the hand-written model Model/C20.lean (validated, not verified, against fgutils.utils), networkx node iteration order modelled as a list.",
        technique="Lean 4 proof (induction over the node list, loop invariant) + model/implementation correspondence check",
        design_ref="6/C20"),
}
PENDING = {}
ALL = ["C%02d" % i for i in range(1, 21)]


def main():
    checks = []
    for pid in ALL:
        if pid in CLAIMED:
            c = CLAIMED[pid]
            checks.append({
                "property_id": pid,
                "quick_cmd": "./check %s --tier quick" % pid,
                "thorough_cmd": "./check %s --tier thorough" % pid,
                "evidence_file": "evidence/%s.json" % pid,
                "replay_cmd_template": "./check %s --replay {path}" % pid,
                "engine": "lean4-proof+correspondence",
                "level_claimed": {"category": c.get("category", "proof"), "text": c["text"], "design_ref": c["design_ref"]},
                "level_note": c["note"],
                "technique": c["technique"],
            })
    na = [{"property_id": pid, "reason": PENDING.get(pid, "check not built yet at this commit (work in progress; see DESIGN.md section 9) - not claimed")}
          for pid in ALL if pid not in CLAIMED]
    m = {
        "version": 1,
        "setup_cmd": "./setup.sh",
        "hooks": {
            "guard": "FGUTILS_VERIF",
            "enable": "no source hooks are needed: the harness calls public functions of /repo's working tree in-process (sys.path[0] = /repo)",
            "baseline_off_cmd": "cd /repo && /venv/bin/python -m pytest -ra -q -p no:cacheprovider --timeout=900 --continue-on-collection-errors",
            "source_commits": [],
            "add_only": True,
        },
        "engines": [{
            "name": "lean4-proof+correspondence",
            "path": "lean/ (lake project FGVerif, driver exe fgdriver), harness/ (python), check",
            "serves_properties": sorted(CLAIMED),
            "kind_free_text": "Lean 4.33 theorems about hand-written executable models; tables regenerated from the source on every run; models tied to the code by a differential correspondence check over a line protocol; proved-sound executable specifications applied to implementation outputs",
        }],
        "checks": checks,
        "not_applicable": na,
        "notes": "See DESIGN.md. Exit codes: 0 held, 1 VIOLATION, 2 machinery failure. known_findings.json lists recorded/repaired defects.",
    }
    with open(os.path.join(VERIF, "MANIFEST.json"), "w") as f:
        json.dump(m, f, indent=1)
        f.write("\n")


if __name__ == "__main__":
    main()
