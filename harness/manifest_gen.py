#!/venv/bin/python
"""Writes MANIFEST.json from the table below (kept in one place so it stays valid)."""
import json, os
VERIF = os.path.dirname(os.path.dirname(os.path.abspath(__file__)))

CLAIMED = {
    "C20": dict(
        text="Lean 4 theorems (C20.complete_spec, specCheck_sound, initialize_*) prove for every node list, partial map and offset that the model of complete_aam/initialize_aam meets the declarative specification; the model is tied to the code by differential testing on every run and the proved-sound executable spec is applied to every implementation output.",
        note="Trusted: Lean kernel (+propext, Quot.sound), the hand-written model Model/C20.lean (validated, not verified, against fgutils.utils), networkx node iteration order modelled as a list.",
        technique="Lean 4 proof (induction over the node list, loop invariant) + model/implementation correspondence check",
        design_ref="6/C20"),
    "C01": dict(
        text="Lean 4 theorem C01.parse_faithful: for every syntax tree c that is a valid writing (decidable WF: lexes back, label texts, bond symbols on ring marks only at closing occurrences, rings closed, no pair bonded twice unless multigraph) and every offset / init_aam / use_multigraph, the model of tokenize+Parser applied to the rendered text returns exactly the graph the text denotes (compositional denotation with declarative ring pairing) as a networkx object (node order, adjacency order, keys); with lex_render, ring_table_pairs, chain_run/items_run, run_sim, parse_nodes, parse_edges, denote_hasEdge, denote_bond, dot_never_bonds, all_declared_orders_accepted, quadruple_declared, offset_shift and six table obligations closed by decide on the token/bond tables regenerated from the source. Three-way check on every run: real Parser vs model parser vs denotation (spec on the implementation output).",
        note="Trusted: Lean kernel (+propext, Classical.choice, Quot.sound); Python `re` ordered alternation modelled by `lex` over the generated alternation lists (ASCII input; an empty alternative stands for an unescaped `$`); networkx add_node/add_edge as in Model/Graph.lean; gen_tables.py. Malformed strings (unbalanced parentheses, token soup) are out of domain (error kinds compared and logged only).",
        technique="Lean 4 proof (mutual structural induction over the syntax tree with a cursor-machine invariant; simulation of the graph-reading parser; decide on regenerated tables) + model/implementation correspondence check",
        design_ref="6/C01"),
    "C02": dict(
        text="Lean 4 theorems C02.parse_eq_smiles (Plain c -> WF c -> parse (renderStr c) = smilesDenote c), denote_eq_smilesDenote, tbl_smiles_orders (decide on the regenerated bond map), opening_bond_differs (witness for the excluded syntax); RDKit is not modelled: its reading of the shared sub-language is written down as smilesDenote and compared with mol_smiles_to_graph on every case (three-way: parser / RDKit / smilesDenote on seeded random writings of generated molecules).",
        note="Trusted: Lean kernel (+propext, Classical.choice, Quot.sound); the assumed contract smilesDenote = RDKit up to c->C on in-contract strings (no aromaticity re-perception), checked on every case - a break of it exits 2, not a violation; C01's trusted base. Known finding K1 ('Sn' lexes as tin) is classified per case by a tokenisation oracle.",
        technique="Lean 4 proof (corollary of the C01 parser theorem by structural induction on the Plain sub-grammar) + three-way correspondence check against RDKit",
        design_ref="6/C02"),
    "C11": dict(
        text="Lean 4 theorems C11.rc_exact, unreachable_exact (reported <-> node and no start node within distance r; any ids, any start list, any r), start_nodes_never_unreachable, prune_exact (kept nodes = within r of the reaction centre, bonds among them unchanged, one fresh H with a (1,1) bond per cut bond on ids above every old id) with the reusable Reach library (pow_pos_iff_walk, powsum_pos_iff_walk, within_iff_distLe, walk_le_iff_dist) and checker soundness; model of get_rc / get_unreachable_nodes (matrix power sums over List (List Nat)) / prune_its_to_rc compared with the implementation on every run; independent BFS spec applied to every implementation output.",
        note="Trusted: Lean kernel (+propext, Classical.choice, Quot.sound), Model/C11.lean + Model/Graph.lean (validated), nx.adjacency_matrix returning edge multiplicities. Not modelled: int64 wrap-around of walk counts (dense high-radius probe reported only). Hypotheses wellFormed/simple are decidable and evaluated by the driver on every case.",
        technique="Lean 4 proof (walk-counting induction for adjacency-power sums, fold invariants for pruning) + model/implementation correspondence check",
        design_ref="6/C11"),
    "C03": dict(
        text="Lean 4 theorems C03.anchored_complete (well-formed host and pattern, cyclic or not, any ids: an embedding f with the pattern anchor on the host anchor implies the model of map_anchored_subgraph reports success), anchored_complete_component, unanchored_complete, fit_fuel_irrelevant, with C03Perm.permute_complete/permute_sound and the oracle theorems existsEmbedding_sound/complete/iff (the executable embedding oracle is exact); the order-faithful model of _fit is compared with the implementation on every run and the oracle is applied to every implementation answer (clause c03_missed); an escalated 128k-case search runs when a proof or the correspondence breaks.",
        note="Trusted: Lean kernel (+propext, Classical.choice, Quot.sound), Model/Subgraph.lean + Model/Permutation.lean + Model/Graph.lean (validated by differential testing incl. visited sets). Theorems assume canMapToNothing = [] and WF graphs (checked per case); inputs with can_map_to_nothing are out of C03's domain. Hosts limited to degree <= 6 (the implementation enumerates d! permutations).",
        technique="Lean 4 proof (induction on fuel with a path invariant, permutation-list completeness) + model/implementation correspondence check with a proved-exact embedding oracle",
        design_ref="6/C03"),
    "C04": dict(
        text="Lean 4 theorems C04.local_sound (all graphs), anchored_sound_partial / anchored_sound_connected (forest host and forest pattern: the reported pairs are an embedding of the whole pattern component), anchored_exact_acyclic, anchored_failure_acyclic, unanchored_exact_acyclic, and the decide-proved negations unsound_witness_host_cycle / unsound_witness_pattern_cycle of the full statement (known finding K2: the full statement is FALSE on graphs with a cycle, for model and code alike); executable isEmbedding (proved equivalent to the declarative IsEmbeddingPairs) applied to every implementation answer; failures inside K2's scope (success reported, pairs not an embedding, host or pattern cyclic - decided per case) print KNOWN-FINDING, everything else is a violation; with can_map_to_nothing mappers the clause 'anchor pair present and every returned pair symbol-admitted' is judged.",
        note="Partial by necessity: the property is false on cyclic graphs (K2, recorded in known_findings.json with two witnesses replayed on every run); proved on the acyclic/acyclic sub-domain named in the property. Trusted: Lean kernel (+propext, Classical.choice, Quot.sound), shared models (validated).",
        technique="Lean 4 proof (induction over _fit; forest disjointness argument) + model/implementation correspondence check; negation on concrete witnesses by decide",
        design_ref="6/C04"),
    "C05": dict(
        text="Lean 4 theorems C05.justified, ids_are_input_atoms(_model) (with fresh_ids of hydrogen completion), locally_most_specific, most_specific (under the explicit hypothesis WitnessPathClosed), covering (worklist invariant), isFG_sound/complete, bridge_sound/complete/bridge_acyclic (modulo matcher completeness/soundness hypotheses), existsEmbAt_sound/complete, specCheck_sound, and the kernel-evaluated negations known_finding_K3_thf and most_specific_false_witness; exact end-to-end correspondence of the model of FGQuery (given the real hierarchy as data, cross-checked against a regenerated table) with the implementation; the property verbatim (SpecStar, true embeddings) applied to every implementation answer; K3/K4 decided per case.",
        note="Partial: 'most specific' holds only under WitnessPathClosed - FALSE in general (known finding K4, witness: user configuration oxygen>ether>ester on 'O=C(C)OC'; never with the default configuration); on ring molecules unjustified entries occur because of the matcher defect (K3). The bridge to true embeddings is proved modulo the C03/C04 theorems as explicit hypotheses. Trusted: Lean kernel (+propext, Classical.choice, Quot.sound), shared models, hierarchy as data (its construction is C07).",
        technique="Lean 4 proof (loop invariants over the query worklist and the hierarchy descent) + exact model/implementation correspondence + property-level oracle with true embeddings",
        design_ref="6/C05"),
    "C13": dict(
        text="Lean 4 theorems C13.replace_exact (contiguous in-order ids: the result of the model of replace_node satisfies the declarative substitution Spec: exact node list, and for all node pairs the bond labels incl. the k-th-bond-to-k-th-anchor rule with the last anchor when anchors run out, in the incident order after composition), compose_incident_order, replace_labels, replace_empty, replace_wf/contiguous, relabel_exact (any ids), specCheck_sound; exact correspondence (node order, adjacency order, keys) with the implementation; proved-sound spec on every implementation output.",
        note="Trusted: Lean kernel (+propext, Classical.choice, Quot.sound), networkx compose/relabel/remove/add_edge semantics as modelled in Model/C13.lean + Model/Graph.lean (validated exactly), the parser contract parse(p, offset=k) = shift (proved for the parser model as C01.offset_shift and checked per pattern). Parents with a self-loop on the replaced node or non-contiguous ids are out of domain.",
        technique="Lean 4 proof (list-level refinement of compose / re-attach / remove / relabel) + exact model/implementation correspondence check",
        design_ref="6/C13"),
    "C14": dict(
        text="Lean 4 theorems C14.count (acyclic configuration: build_graphs yields exactly numExp results), total, terminates (explicit fuel bound), no_group_label_left, contiguous_ids, conservation(_symbols/_bonds/_plain) at the build_graphs level, and table obligations by decide +kernel on the tables regenerated from the shipped collections: da_count_pos = 10470, da_count_neg = 12875, da_acyclic_*, common_acyclic; the whole enumeration of build_graphs / iter(Proxy) compared with the model on random group DAGs (also after an earlier proxy built from the same objects); thorough: both Diels-Alder collections completely.",
        note="Not claimed: conservation at the iter(Proxy) level (the MultiGraph->Graph collapse deliberately drops parallel bonds; frequency reported). Trusted: Lean kernel (+propext, Classical.choice, Quot.sound), Model/C13+C14 (validated), gen_tables_c14.py (cross-checked by the driver against the parsed configuration on every run), default non-restricting samplers.",
        technique="Lean 4 proof (measure on group depths, step lemma from C13) + decide +kernel on regenerated tables + model/implementation correspondence check",
        design_ref="6/C14"),
    "C15": dict(
        text="Lean 4 theorems C15.balanced_mapped, superposition / superposition_pointwise (getIts (splitIts X) = lift X for well-formed simple X), da_counts (from C14's kernel-evaluated table obligations); every sample of generated reaction proxies compared with the model and checked against the spec; the Diels-Alder reaction-centre shape and valence clause is decided by evaluation on the model and on the implementation over 300 random choice paths per mode (quick) / all 23 345 samples (thorough) - that clause is an exhaustive TEST over a finite configuration, not a theorem; counts also checked after constructing the proxies in both orders (history).",
        note="Trusted: Lean kernel (+propext, Classical.choice, Quot.sound), Model/C13-C15 (validated), maxValence specification data; RDKit sanitisation of both sides is exercised by the harness only. No native_decide.",
        technique="Lean 4 proof (general theorems) + exhaustive enumeration by compiled model and implementation for the shipped Diels-Alder shape clause + correspondence check",
        design_ref="6/C15"),
    "C06": dict(
        text="Lean 4 theorems C06.history_independent (cache invariant, induction over any list of earlier queries), view_env_independent, env_independent(_ofKey) (for an injective key the built hierarchy incl. the order of roots and of every children list does not depend on set-iteration order nor on the order of the input list), deterministic, input_untouched, hash_dependent_witness_unrepaired (decide: why the repair was needed); the runtime part is exercised: fresh interpreter processes with PYTHONHASHSEED in {0..4, random}, every query asked twice on a shared object and once on a fresh one, input graph snapshotted (nodes, attributes, adjacency order) around every real call, full ordered tree compared across seeds and with the model.",
        note="Partly a property of the runtime (string-hash randomisation, set iteration by address, aliasing): the logic is modelled and proved, the runtime is exercised, not modelled. The query algorithm enters the C06 model as a parameter reading only the tree view (C05's subject). 'key injective on the list' is a hypothesis (pattern strings distinct). Trusted: Lean kernel (+propext, Classical.choice, Quot.sound), Model/C06+C07 (validated).",
        technique="Lean 4 proof (cache invariant over histories; order-independence of sorted insertion) + multi-process correspondence check across hash seeds",
        design_ref="6/C06"),
    "C07": dict(
        text="Lean 4 theorems C07.hasse (for any list with a transitive relation sub that is key-monotone: the model of build_config_tree_from_list produces exactly the covering pairs as links, exactly the minimal items as roots, ancestor <-> sub, no item its own ancestor - for every set-iteration order), permutation_invariant, key_strict (a non-invertible embedding strictly increases (non-wildcard count, node count, edge count) lexicographically, on abstract labelled graphs), default_instance (decide +kernel: the hypotheses hold for the default list regenerated from the source, the matcher model reproduces the code's 31x31 subgroup table and equals the true embedding order on it), specCheck_sound; tree links/roots from fresh interpreters under several hash seeds and list permutations compared with the model and with the covering relation of the true embedding order.",
        note="key_strict is proved on an abstract graph type; its instantiation to the concrete Graph data is kernel-decided for the default list and tested per generated list (hypsOk). Lists with cyclic patterns inherit the matcher defect (known finding K2b, decided per case with an embedding oracle). Domain: lists of connected patterns without mutually embeddable entries, no anti-patterns in generated lists. Trusted: Lean kernel (+propext, Classical.choice, Quot.sound), Model/C07 + shared matcher model (validated), gen_tables_c07.py.",
        technique="Lean 4 proof (invariant over the sorted prefix: the DAG is the Hasse diagram of the inserted prefix; decide +kernel on the regenerated default table) + multi-process correspondence check",
        design_ref="6/C07"),
    "C08": dict(
        text="Lean 4 theorems C08.permute_exact (a in permute pat str <-> Admissible, full strength incl. wildcard, case folding and can_map_to_nothing dummies), permute_nodup, mem_arrangements(_general), arrangements_nodup, mem_dedup/dedup_nodup, count_dummies, structure_wildcard_never_matches, matrix_characterisation, admissible_iff, specCheck_sound/complete; the order-faithful model of permute is compared with the implementation exhaustively on small alphabets (149k cases quick, 2.0M thorough) plus random longer lists; the proved-sound-and-complete executable spec is applied to every implementation answer; caller lists snapshotted; MappingMatrix.is_mapping compared incl. multi-letter symbols.",
        note="Trusted: Lean kernel (+propext, Classical.choice, Quot.sound), Model/Permutation.lean as model of itertools.permutations order / str.lower (ASCII) / substring test (validated). The number of wildcard dummies is specified as the padding loop states it (depends on constructor order).",
        technique="Lean 4 proof (characterisation of k-arrangements, de-duplication and the padding loop) + exhaustive-on-small-alphabets model/implementation correspondence check",
        design_ref="6/C08"),
    "C09": dict(
        text="Lean 4 theorems C09.its_exact (Dom G -> Dom H -> abstract view of get_its = itsSpec, a specification on atom-map numbers only), getIts_closed, renumbering_invariant (any injective id renaming / reordering / edge orientation of either side), no_ghost_nodes, one_sided_atoms_contribute_nothing, specCheck_iff/sound, and decide-refutations of the two unrepaired variants; model of get_its (eta dicts as association lists, both node and both edge loops with their guards) compared with the implementation (also through ITS.from_smiles) on every run; proved-sound executable spec applied to every implementation output.",
        note="Trusted: Lean kernel (+propext, Classical.choice, Quot.sound), Model/C09.lean as model of the Python (networkx/dict semantics as ordered lists; validated by differential testing), RDKit parsing inside ITS.from_smiles taken as given. Domain Dom: distinct ids, present map numbers >= 1 and pairwise distinct, simple graph, bond orders != 0 (map number 0 / negatives / duplicates are generated but out of domain).",
        technique="Lean 4 proof (closed form of the four loops, association-list lemmas) + model/implementation correspondence check",
        design_ref="6/C09"),
    "C10": dict(
        text="Lean 4 theorems C10.split_exact, splitIts_eq, its_of_split (+ its_of_split_named), split_of_its, smiles_roundtrip_modulo_rdkit (for any map-preserving renamings of the two halves, from C09.renumbering_invariant), splitCheck_iff/sound; models of split_its and of the compositions compared with the implementation on every run (library-made ITS graphs, direct ITS graphs, shuffled ids, order-3/4 bonds, metal-metal quadruple bonds on the legs through RDKit); the literal ITS.to_smiles -> from_smiles leg is exercised through RDKit, whose writer+reader contract is checked per case with RDKit alone.",
        note="Trusted: Lean kernel (+propext, Classical.choice, Quot.sound), Model/C10.lean + Model/C09.lean (validated), RDKit's SMILES writer followed by its reader being a symbol/bond/map-preserving bijection (assumed; checked per case independently of fgutils; about 0.6% of generated hetero-ring cases break it because sanitisation re-perceives aromaticity - those are counted and put outside the domain).",
        technique="Lean 4 proof (list induction over the edge fold; corollaries of the C09 refinement theorem) + model/implementation correspondence check",
        design_ref="6/C10"),
    "C18": dict(
        text="Lean 4 theorems C18.roundtrip / roundtrip_with (any transforms with a left inverse), batch, batch_inverse, node_induced, edge_induced, prune_exact, prune_keeps_starts, prune_rc_exact (with Reach.powsum_pos_iff_walk), periodic_table (decide +kernel: the table regenerated from the source equals a hand-written 118-element reference), rtCheck_sound, pruneCheck_sound; tensors modelled as lists; model compared with the real torch/torch_geometric results (.tolist()) on every run incl. batches >= 3, custom transforms, ITSDataset, all edge subsets of small graphs, start sets and radii 0-4; proved-sound executable specs applied to implementation outputs.",
        note="Trusted: Lean kernel (+propext, Classical.choice, Quot.sound), Model/C18.lean (validated), Batch.from_data_list's concatenation-with-offsets contract (assumed, exercised on every batch case), networkx add_edge semantics. Not modelled: float32 saturation of walk counts in the real prune (dense high-radius probe is reported only).",
        technique="Lean 4 proof (list induction, walk-counting lemma for adjacency-power sums, decide +kernel on the regenerated periodic table) + model/implementation correspondence check",
        design_ref="6/C18"),
    "C12": dict(
        text="Lean 4 theorems (C12.spec_holds, only_adds_hydrogens, fresh_ids, count, idempotent, specCheck_sound, valence_table_main_group/exact by decide on the table regenerated from the source) prove the property for every well-formed graph with any node ids; the order-faithful model is compared with add_implicit_hydrogens at exact-graph level on every run and the proved-sound executable spec (with an independent hand-written main-group reference table) is applied to every implementation output.",
        note="Trusted: Lean kernel (+propext, Classical.choice, Quot.sound), Model/C12.lean + Model/Graph.lean as models of the Python / networkx container semantics (validated by differential testing), gen_tables*.py, the reference valence table refRows. Hypothesis WF g (distinct ids, one adjacency row per node, neighbours are nodes) is evaluated by the driver on every case.",
        technique="Lean 4 proof (fold invariant over the heavy-atom loop; decide on regenerated tables) + model/implementation correspondence check",
        design_ref="6/C12"),
    "C16": dict(
        text="Lean 4 theorems C16.reactant_side, product_side (+ product_outside_centre / product_on_centre), one_per_match(_eq), one_per_embedding (under the explicit VF2 contract MatchesContract), applyRule_eq (closed form of the loop), unique_classes (relative to the WL hash parameter), connected_only(_all/_connected), limit / limit_prefix / limit_length, input_untouched, rc_of_dpo(_refuses/_accepts), enumerator soundness/completeness/no-duplicates (mem_monos_isMono, isMono_mem_monos, monos_nodup), contractOk_sound, specCheck_sound, applyRule_spec; the model of apply_rule takes VF2's matches and the WL hashes as parameters; every case checks VF2's contract with the model's own proved-exact monomorphism enumerator; results compared as multisets with the implementation; proved-sound executable spec on every implementation answer; input graph snapshotted; GML text layer validated by rendering random rules (test).",
        note="Trusted: Lean kernel (+propext, Classical.choice, Quot.sound), Model/C16.lean (validated), networkx GraphMatcher.subgraph_monomorphisms_iter under MatchesContract (checked per case; a mismatch is ERROR exit 2), networkx weisfeiler_lehman_graph_hash (iterations=3) as the hash parameter (computed by the harness on the ITS the spec prescribes), atom-map completion inside ITS() is C20's subject. Completeness of specCheck on the model output is checked at run time.",
        technique="Lean 4 proof (closed form of the match loop, list lemmas for dedup/filter/take, exact monomorphism enumerator) + model/implementation correspondence check with contract checks on the external matcher",
        design_ref="6/C16"),
    "C17": dict(
        text="Lean 4 theorem C17.exact / C17.exact_ids (with sound, assert_never_fails, fuel_suffices, sequences_distinct, labels_are_induced_distances, unique_sets, complete, relabel_invariant, order_independent, specCheck_sound): for every simple graph and anchor the model of enumerateCIS/node_induced_connected_subgraphs raises nothing and yields every connected node set containing the anchor exactly once and nothing else, whatever the ids, anchor position and adjacency order; the model is compared with the real generator (set level for the verdict, generator order recorded) on the whole graph atlas (<=6 nodes quick, <=7 thorough) x anchors x relabellings and random larger graphs, and the proved-sound executable spec is applied to every implementation output.",
        note="Trusted: Lean kernel (+propext, Classical.choice, Quot.sound), Model/C17.lean as model of the Python (validated), nx.relabel_nodes (its output is taken from the real call and cross-checked by relabelConsistent), Python list/int/inf semantics; the optional DAG argument is not modelled.",
        technique="Lean 4 proof (invariants over the enumeration recursion, BFS-layer distance argument, transport along the anchor relabelling) + model/implementation correspondence check",
        design_ref="6/C17"),
    "C19": dict(
        text="Lean 4 theorems (C19.bridge_roundtrip, normalise_semantics, bridge_roundtrip_semantics, refuses_labels, bond_tables_inverse and sym_table by decide on the regenerated tables, wl_invariant / wl_invariant_digest / mol_compare_invariant for every digest function and renumbering, specCheck_sound) about the model of graph_to_mol/mol_to_graph and of networkx's WL hash; model compared with the real RDKit bridge on every run; SMILES leg and mol_compare exercised on the implementation. Partial: BridgeSpec of the normalised graph w.r.t. adjacency entries (vs. the edge view) is checked at run time on every case (spec_model), not proved; RDKit's own SMILES write/read round trip is exercised, not proved.",
        note="Trusted: Lean kernel (+propext, Classical.choice, Quot.sound), the RWMol contract (AddAtom returns the running index, iteration in insertion order), RDKit SMILES writer/reader, blake2b abstract, Model/C19.lean validated by differential testing.",
        technique="Lean 4 proof (list induction; decide on regenerated tables; WL invariance by induction on iterations) + model/implementation correspondence check",
        design_ref="6/C19"),
}
PENDING = {}
ALL = ["C%02d" % i for i in range(1, 21)]


def main():
    checks = []
    for pid in ALL:
        if pid in CLAIMED:
            c = CLAIMED[pid]
            checks.append({
                "property_id": pid,
                "quick_cmd": "./check %s --tier quick" % pid,
                "thorough_cmd": "./check %s --tier thorough" % pid,
                "evidence_file": "evidence/%s.json" % pid,
                "replay_cmd_template": "./check %s --replay {path}" % pid,
                "engine": "lean4-proof+correspondence",
                "level_claimed": {"category": c.get("category", "proof"), "text": c["text"], "design_ref": c["design_ref"]},
                "level_note": c["note"],
                "technique": c["technique"],
            })
    na = [{"property_id": pid, "reason": PENDING.get(pid, "check not built yet at this commit (work in progress; see DESIGN.md section 9) - not claimed")}
          for pid in ALL if pid not in CLAIMED]
    m = {
        "version": 1,
        "setup_cmd": "./setup.sh",
        "hooks": {
            "guard": "FGUTILS_VERIF",
            "enable": "no source hooks are needed: the harness calls public functions of /repo's working tree in-process (sys.path[0] = /repo)",
            "baseline_off_cmd": "cd /repo && /venv/bin/python -m pytest -ra -q -p no:cacheprovider --timeout=900 --continue-on-collection-errors",
            "source_commits": [],
            "add_only": True,
        },
        "engines": [{
            "name": "lean4-proof+correspondence",
            "path": "lean/ (lake project FGVerif, driver exe fgdriver), harness/ (python), check",
            "serves_properties": sorted(CLAIMED),
            "kind_free_text": "Lean 4.33 theorems about hand-written executable models; tables regenerated from the source on every run; models tied to the code by a differential correspondence check over a line protocol; proved-sound executable specifications applied to implementation outputs",
        }],
        "checks": checks,
        "not_applicable": na,
        "notes": "See DESIGN.md. Exit codes: 0 held, 1 VIOLATION, 2 machinery failure. known_findings.json lists recorded/repaired defects.",
    }
    with open(os.path.join(VERIF, "MANIFEST.json"), "w") as f:
        json.dump(m, f, indent=1)
        f.write("\n")


if __name__ == "__main__":
    main()
