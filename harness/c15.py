"""C15 — generated reactions are balanced and mapped; Diels-Alder samples have DA centres.

quick   : generated reaction proxies (every sample of bounded random configurations, with forming
          <0,k> AND breaking <k,0> bonds), 300 random samples per mode of the shipped Diels-Alder
          proxy (drawn with a restricting sampler along random choice paths), the generated tables,
          sample counts from REAL iteration of the shipped proxy restricted to one core graph at a
          time (the three smallest (mode, core) parts: da_pos completely, the intramolecular core of
          da_neg) against the Lean count formula per core, 240 samples per mode drawn with next() from
          REAL DielsAlderProxy objects (X from a second real object in lockstep) judged by the same
          executable property, RDKit sanitisation of both sides (molecule built with RDKit alone);
          generated configurations are built along every construction route (c14.construct) and carry
          bond orders 0-4 on either side;
thorough: the complete enumeration of DielsAlderProxy(neg_sample=False/True): implementation and
          compiled model compared sample by sample (fingerprints of canonical X, G, H), the
          executable property (balanced, mapped, halves (halvesB), superposition, daCentreOk) on every implementation
          sample, RDKit sanitisation of every side.
The SHAPE part of the DA-centre clause is a theorem about the model on the regenerated configuration
(C15.da_rc_shape_thm, Proofs/C15Rc*.lean: no sample is enumerated; its executable form daCycleB is applied by the
driver to every implementation sample next to daCentreOk); the explicit-VALENCE part of the clause stays a
**test** (daCentreOk: exhaustive enumeration of a finite configuration), not a theorem."""
import re

from common import Atom, Case, Run, call_impl, prepare, enc_graph, sx, ImplError
from c13 import check_model_spec, finalize_model_spec
from c14 import (canon_graph, fingerprint, enc_config, effective_groups, gen_config, num_exp, shipped, table_cases,
                 ROUTES, construct, spec_of)

PROOFS = ["FGVerif.Proofs.C15", "FGVerif.Proofs.C15General", "FGVerif.Proofs.C15Halves",
          # the Diels-Alder reaction-centre clause as a theorem (general lemmas: C15RcA/B; table obligations on the
          # regenerated shipped configuration: C15RcPos/Neg, built in parallel by lake; umbrella: C15Rc)
          "FGVerif.Proofs.C15Rc"]


class PathSampler:
    """restricting sampler: answers the k-th call with the single graph graphs[c_k % len(graphs)]"""

    def __init__(self, rng=None, replay=None):
        self.rng = rng
        self.replay = list(replay) if replay is not None else None
        self.choices = []

    def __call__(self, graphs):
        c = self.replay.pop(0) if self.replay is not None else self.rng.randrange(1 << 16)
        self.choices.append(c)
        return [graphs[c % len(graphs)]]


def with_sampler(groups, sampler):
    from fgutils.proxy import ProxyGroup
    return {k: ProxyGroup(g.name, g.graphs, sampler=sampler) for k, g in groups.items()}


def da_path_sample(groups, core_pgs, core_idx, rng):
    """one sample of the DA configuration along a random path: (choices, X, G, H)"""
    from fgutils.proxy import Proxy, ReactionProxy, ProxyGroup
    s1 = PathSampler(rng=rng)
    x = next(Proxy(ProxyGroup("__core__", [core_pgs[core_idx]], unique=True), with_sampler(groups, s1), enable_aam=True))
    s2 = PathSampler(replay=s1.choices)
    g, h = next(ReactionProxy(ProxyGroup("__core__", [core_pgs[core_idx]], unique=True), with_sampler(groups, s2), enable_aam=True))
    return s1.choices, x, g, h


_ITS_LABEL = re.compile(r"<\d,\d>")
_PLAIN_BOND = re.compile(r"(?<=[A-Za-z\]\})])[-=#$](?=[A-Za-z\[{])")
_ATOM_ATOM = re.compile(r"(?<=[A-Za-z\}])(?=[A-Z{])")


def with_breaking_bonds(pattern, rng):
    """rewrite some ITS labels of a generated pattern into breaking bonds <k,0> / forming bonds <0,k>, and
    some plain bonds between two atoms into <k,0> (c13.rand_pattern only draws <0..2,1..2>: no bond ever
    breaks); a rewrite the parser refuses is dropped"""
    from fgutils.parse import Parser

    def sub(m):
        x = rng.random()
        if x < 0.30:
            return "<%d,0>" % rng.randint(1, 4)
        if x < 0.45:
            return "<0,%d>" % rng.randint(1, 4)
        if x < 0.65:
            # every order 1..4 (quadruple `$` = 4) on either side
            a, b = rng.randint(0, 4), rng.randint(0, 4)
            return "<%d,%d>" % (a, b) if a or b else "<4,4>"
        return m.group(0)

    def sub_plain(m):
        x = rng.random()
        if x < 0.25:
            return "<%d,0>" % {"-": 1, "=": 2, "#": 3, "$": 4}[m.group(0)]
        if x < 0.35:
            return "$"                            # scalar 4 (label (4, 4) inside an ITS pattern)
        return m.group(0)

    def sub_implicit(m):
        # an implicit single bond between two atoms / label nodes becomes an explicit label with orders up to 4
        x = rng.random()
        if x < 0.04:
            return "$"
        if x < 0.10:
            return "<%d,%d>" % (rng.randint(1, 4), rng.randint(0, 4))
        return ""

    new = _ATOM_ATOM.sub(sub_implicit, _PLAIN_BOND.sub(sub_plain, _ITS_LABEL.sub(sub, pattern)))
    if new == pattern:
        return pattern
    try:
        for multi in (True, False):
            Parser(use_multigraph=multi).parse(new)
    except Exception:
        return pattern
    return new


N_REAL_OBJECT = 240      # samples per mode taken from the REAL DielsAlderProxy object in quick (all of them are drawn; these are judged)


def real_object_indices(seed, which, n_region, n_take=N_REAL_OBJECT):
    """which samples of the real object are judged: the first 20, the last 20 of the region and random ones (seeded)"""
    import random
    rnd = random.Random("%s/%s/real_object" % (seed, which))
    idx = set(range(min(20, n_region))) | set(range(max(0, n_region - 20), n_region))
    while len(idx) < min(n_take, n_region):
        idx.add(rnd.randrange(n_region))
    return sorted(idx)


def real_object_samples(which, indices, history=False):
    """samples of a REAL `DielsAlderProxy(neg_sample=...)` OBJECT (review 3, L3), drawn with next(obj): [(i, X, G, H)] for the
    indices asked for.  X - the ITS pattern the proxy expanded for that sample - is what the proxy's own generator
    yields (`Proxy.get_next`, the method `ReactionProxy.get_next` hands to split_its), taken from a SECOND real object
    advanced in lockstep; (G, H) = next(first object)."""
    from fgutils.proxy import Proxy
    from fgutils.proxy_collection.diels_alder_proxy import DielsAlderProxy
    if history:
        DielsAlderProxy(neg_sample=(which != "da_neg"))
    obj = DielsAlderProxy(neg_sample=(which == "da_neg"))
    obj_x = DielsAlderProxy(neg_sample=(which == "da_neg"))
    want = set(indices)
    out = []
    for i in range(max(want) + 1 if want else 0):
        g, h = next(obj)
        x = Proxy.get_next(obj_x)
        if i in want:
            out.append((i, x, g, h))
    return out


def _iterate_core(args):
    """worker process: REAL iteration of the shipped DielsAlderProxy restricted to ONE of its core graphs — a
    ReactionProxy built from that single core ProxyGraph (unique sampler, as the shipped core group) and the
    proxy's own effective groups; returns the number of samples the iterator yields before it stops.  With
    `history` the proxy of the other mode is constructed first (counts must not depend on construction order)."""
    import time
    which, ci, history = args
    t0 = time.time()
    try:
        from fgutils.proxy import ReactionProxy, ProxyGroup
        from fgutils.proxy_collection.diels_alder_proxy import DielsAlderProxy
        if history:
            DielsAlderProxy(neg_sample=(which != "da_neg"))
        p = DielsAlderProxy(neg_sample=(which == "da_neg"))
        rp = ReactionProxy(ProxyGroup("__DA_core__", [p.core.graphs[ci]], unique=True), effective_groups(p), enable_aam=True)
        n = 0
        for g, h in rp:
            n += 1
            if g.number_of_nodes() != h.number_of_nodes() or n > 500000:
                return which, ci, None, "sample %d: sides with different numbers of atoms (or the iterator does not stop)" % n, time.time() - t0
        return which, ci, n, None, time.time() - t0
    except Exception as e:  # noqa: the implementation raised while iterating
        return which, ci, None, "%s: %s" % (type(e).__name__, str(e)[:200]), time.time() - t0


def _real_object_worker(args):
    """worker process: a bounded number of samples of the real DielsAlderProxy object of one mode (the region = the
    expansion of its first core graph, which the proxy builds as a whole before it yields the first sample), as
    canonical (X, G, H) + RDKit sanitisation of both sides (RDKit alone)"""
    import time
    which, indices = args
    t0 = time.time()
    try:
        import rdkit.RDLogger
        rdkit.RDLogger.DisableLog("rdApp.*")
        out, san = [], []
        for i, x, g, h in real_object_samples(which, indices):
            out.append((i, [canon_graph(x), canon_graph(g), canon_graph(h)]))
            for side, gg in (("G", g), ("H", h)):
                f = sanitize_fail(gg)
                if f:
                    san.append({"collection": which, "real_object_index": i, "side": side, "error": f})
        return which, out, san, None, time.time() - t0
    except StopIteration:
        return which, None, [], "the real DielsAlderProxy object stopped before sample %d" % max(indices), time.time() - t0
    except Exception as e:  # noqa: the implementation raised while iterating
        return which, None, [], "%s: %s" % (type(e).__name__, str(e)[:200]), time.time() - t0


def start_real_iteration(tier):
    """quick: the three smallest (mode, core) parts of the two shipped configurations by formula size (that is
    da_pos completely and the intramolecular core of da_neg: 4590 + 5880 + 1360 samples); thorough: all four.
    Runs in worker processes while the main process does the rest of the check."""
    import multiprocessing as mp
    parts = []
    for which in ("da_pos", "da_neg"):
        groups, cores = shipped(which)
        for ci, c in enumerate(cores):
            parts.append((num_exp(groups, c), which, ci))
    parts.sort()
    plan = parts if tier == "thorough" else parts[:3]
    pool = mp.get_context("fork").Pool(len(plan) + (2 if tier == "quick" else 0))
    jobs = [(which, ci, pool.apply_async(_iterate_core, ((which, ci, ci == 0),))) for _, which, ci in plan]
    return pool, jobs, parts


def start_real_objects(pool, parts, seed):
    """quick: samples of the REAL DielsAlderProxy objects of both modes (thorough enumerates them completely)"""
    jobs = []
    for which in ("da_pos", "da_neg"):
        n_region = next(n for n, w, ci in parts if w == which and ci == 0)      # harness formula: only bounds the region
        idx = real_object_indices(seed, which, n_region)
        jobs.append((which, idx, pool.apply_async(_real_object_worker, ((which, idx),))))
    return jobs


def real_object_cases(r, jobs, san_fail, machinery):
    """cases `check_samples` (da = true: balanced, mapped, halves against X label by label, superposition, daCentreOk,
    daCycleB) on the samples of the real objects"""
    cases = []
    rep = {}
    for which, idx, job in jobs:
        try:
            w, out, san, err, wall = job.get(timeout=900)
        except Exception as e:  # noqa: worker died / timed out
            machinery.append("sampling the real DielsAlderProxy object (%s) did not finish: %s" % (which, type(e).__name__))
            continue
        rep[which] = {"samples_judged": None if out is None else len(out), "drawn_with_next()": max(idx) + 1, "wall_s": round(wall, 1), "error": err}
        if err:
            pth = r.write_replay("failing-input", "real_object_" + which, {
                "spec_clause": "every sample of the shipped Diels-Alder proxy ... (the real object raised / stopped early while %d samples were drawn)" % (max(idx) + 1),
                "impl_error": err, "meta": {"collection": which, "real_object_indices": idx}})
            r.violation_lines.append("VIOLATION property=C15 replay=%s" % pth)
            continue
        san_fail.extend(san)
        for i in range(0, len(out), 40):
            chunk = out[i:i + 40]
            cases.append(Case([Atom("C15"), Atom("check_samples"), True, [t for _, t in chunk]], None, compare_model=False,
                              meta={"collection": which, "real_object_indices": [j for j, _ in chunk]},
                              tags=("real_object:" + which,), nontrivial_key=("ro", which, i)))
        r.count("tag:real_object_samples:" + which, len(out))
    r.notes["real_DielsAlderProxy_object_samples"] = rep
    return cases


def collect_real_iteration(r, pool, jobs, parts, contract, machinery):
    """cases `core_counts`: the REALLY iterated per-core counts against the Lean count formula per core
    (C14.numExp; C14.total proves it equal to the number of samples) and, where every core of a mode was
    iterated, against the documented total"""
    from fgutils.parse import Parser
    real = {}
    for which, ci, job in jobs:
        try:
            w, c, n, err, wall = job.get(timeout=900)
        except Exception as e:  # noqa: worker died / timed out: the machinery failed, not the property
            machinery.append("real iteration of %s core %d did not finish: %s" % (which, ci, type(e).__name__))
            continue
        real[(which, ci)] = (n, err, wall)
    pool.terminate()
    cases = []
    report = {}
    for which in ("da_pos", "da_neg"):
        groups, cores = shipped(which)
        mask = [(which, ci) in real for ci in range(len(cores))]
        report[which] = {"core %d" % ci: {
            "pattern": cores[ci],
            "count_from_REAL_iteration_of_the_restricted_proxy": real[(which, ci)][0] if mask[ci] else None,
            "iteration_wall_s": round(real[(which, ci)][2], 1) if mask[ci] else None,
            "harness_formula_count(not_an_oracle)": num_exp(groups, cores[ci])} for ci in range(len(cores))}
        report[which]["all_cores_really_iterated"] = all(mask)
        if not any(mask):
            continue
        errs = [real[(which, ci)][1] for ci in range(len(cores)) if mask[ci] and real[(which, ci)][1]]
        if errs:
            impl = ImplError(RuntimeError(errs[0]))
        else:
            impl = [real[(which, ci)][0] if mask[ci] else None for ci in range(len(cores))]
        cfg = enc_config(groups, True, contract)
        core_gs = [enc_graph(Parser(use_multigraph=True).parse(c)) for c in cores]
        cases.append(Case([Atom("C15"), Atom("core_counts"), Atom(which), cfg, core_gs, mask], impl,
                          meta={"core_counts": which, "iterated": mask, "cores": cores,
                                "real_counts": None if errs else impl, "impl_error": errs[0] if errs else None},
                          tags=("core_counts:" + which, "all_cores_iterated" if all(mask) else "some_cores_iterated"),
                          nontrivial_key=("core_counts", which)))
    outs = r.evaluate(cases)
    for o in outs:
        if o.ok_reply and len(o.extra) >= 2:
            which = o.case.meta["core_counts"]
            report[which]["lean_formula_total(C14.numExp summed; C15.da_counts)"] = o.extra[0]
            for ci, v in enumerate(o.extra[1]):
                report[which]["core %d" % ci]["lean_formula_count(C14.numExp)"] = v
    r.notes["sample_counts"] = report
    return outs


def count_hyp(r, outs):
    """model-spec check + how often the decidable hypotheses of the C15 theorems hold on real samples, for the
    generated samples (op `reaction`, one sample per case) and the Diels-Alder samples (op `paths`, counts per
    chunk): `hypB` = hypotheses of C15.superposition / halvesB_reaction / balanced_mapped_of (wf, simple,
    goodLabel on every bond, closed, distinct ids, aam = id+1), `generalOk` = hypotheses of
    C15.superposition_general"""
    check_model_spec(r, outs)
    for o in outs:
        if o.ok_reply and o.case.tags[:1] == ("reaction",) and len(o.extra) >= 1:
            r.count("generated:samples")
            r.count("theorem_hypotheses_hold" if o.extra[0] == "1" else "theorem_hypotheses_false(e.g. (0,0) bond)")
            r.count("generated:hypB(superposition,halvesB_reaction)_holds" if o.extra[0] == "1" else "generated:hypB_false")
            if len(o.extra) >= 3:
                # C15.superposition_general: hypotheses `generalOk`, and the general get_its(*split_its(x)) of the C09/C10
                # models (through the adapter of Model/C15General.lean) evaluated on the sample
                r.count("general_superposition_hypotheses_hold" if o.extra[1] == "1" else "general_superposition_hypotheses_false")
                r.count("generated:generalOk(superposition_general)_holds" if o.extra[1] == "1" else "generated:generalOk_false")
                if o.extra[1] == "1" and o.extra[2] != "1":
                    r.notes["general_resuper_failures"] = r.notes.get("general_resuper_failures", 0) + 1
            if len(o.extra) >= 5:
                if o.extra[3] == "1":
                    r.count("generated:samples_with_forming_bond(0,k)")
                if o.extra[4] == "1":
                    r.count("generated:samples_with_breaking_bond(k,0)")
        if o.ok_reply and o.case.tags[:1] and o.case.tags[0].startswith("da_paths:") and len(o.extra) >= 5:
            which = o.case.tags[0].split(":", 1)[1]
            n = len(o.case.meta.get("paths", []))
            try:
                n_hyp, n_gen, n_resuper, n_form, n_break = (int(v) for v in o.extra[:5])
            except (TypeError, ValueError):
                continue
            r.count("%s:samples" % which, n)
            r.count("%s:hypB(superposition,halvesB_reaction)_holds" % which, n_hyp)
            r.count("%s:generalOk(superposition_general)_holds" % which, n_gen)
            r.count("%s:samples_with_forming_bond(0,k)" % which, n_form)
            r.count("%s:samples_with_breaking_bond(k,0)" % which, n_break)
            if n_hyp != n or n_gen != n:
                r.count("%s:theorem_hypotheses_FALSE" % which, 2 * n - n_hyp - n_gen)
            if n_resuper != n_gen:
                r.notes["general_resuper_failures"] = r.notes.get("general_resuper_failures", 0) + (n_gen - n_resuper)


# bond order (as the graphs carry it) -> RDKit bond type; atom symbol -> element symbol: written here, in the harness
# (review 3, L2: the oracle of "both sides are valence-valid molecules" must not run through fgutils.rdkit.graph_to_mol)
_RD_BOND = {1: "SINGLE", 2: "DOUBLE", 3: "TRIPLE", 4: "QUADRUPLE", 1.5: "AROMATIC"}


def rdkit_direct_mol(g):
    """the molecule of a reactant / product graph, built with RDKit alone: one atom per node by element symbol
    (aromatic lower-case symbols name the same element), one bond per edge by the order table above"""
    from rdkit import Chem
    m = Chem.RWMol()
    idx = {}
    for n, d in g.nodes(data=True):
        sym = d["symbol"]
        a = Chem.Atom(sym[:1].upper() + sym[1:])
        if sym[:1].islower():
            a.SetIsAromatic(True)
        idx[n] = m.AddAtom(a)
    for u, v, d in g.edges(data=True):
        o = d["bond"]
        o = float(o)
        key = 1.5 if o == 1.5 else (int(o) if o == int(o) else o)
        bt = getattr(Chem.BondType, _RD_BOND[key])
        m.AddBond(idx[u], idx[v], bt)
        if key == 1.5:
            m.GetBondBetweenAtoms(idx[u], idx[v]).SetIsAromatic(True)
    return m.GetMol()


def sanitize_fail(g):
    from rdkit import Chem
    try:
        m = rdkit_direct_mol(g)
        Chem.SanitizeMol(m)
        return None
    except Exception as e:  # noqa
        return "%s: %s" % (type(e).__name__, str(e)[:120])


def impl_reactions(cores, groups, multi, route=None, spec=None):
    """[(X, G, H)] of a generated reaction proxy: X from Proxy, (G, H) from ReactionProxy; with `route` both are
    built along that construction route (c14.construct: objects in every argument form, ProxyGroup.from_dict /
    from_dict_single in every documented JSON form, explicit samplers) instead of from the group objects"""
    from fgutils.parse import Parser
    from fgutils.proxy import Proxy, ReactionProxy
    if route is not None and route[0] != "objects":
        # Proxy.from_dict builds a plain Proxy (also when called as ReactionProxy.from_dict, see notes): the groups of that
        # route come from ProxyGroup.from_dict and go into the ReactionProxy constructor
        rt = ["group_from_dict", route[1]] if route[0] == "proxy_from_dict" else route
        xs = list(construct(spec, cores, rt, True, multi, Proxy)[0]())
        ghs = list(construct(spec, cores, rt, True, multi, ReactionProxy)[0]())
    else:
        xs = list(Proxy(list(cores), groups, enable_aam=True, parser=Parser(use_multigraph=multi)))
        ghs = list(ReactionProxy(list(cores), groups, enable_aam=True, parser=Parser(use_multigraph=multi)))
    if len(xs) != len(ghs):
        raise RuntimeError("Proxy and ReactionProxy yield different numbers of samples")
    return [(x, g, h) for x, (g, h) in zip(xs, ghs)]


def reaction_proxy_from_dict_probe():
    """evidence only: what `ReactionProxy.from_dict` (inherited static method of Proxy) builds"""
    from fgutils.proxy import ReactionProxy
    try:
        p = ReactionProxy.from_dict({"core": "C<1,2>C{g}", "groups": {"g": ["C", "O"]}})
        first = next(p)
        return {"call": "ReactionProxy.from_dict({'core': 'C<1,2>C{g}', 'groups': {'g': ['C', 'O']}})",
                "type_of_result": type(p).__name__, "type_of_first_sample": type(first).__name__,
                "reading": "the inherited from_dict instantiates Proxy, not the class it is called on: the samples are ITS graphs, "
                           "not (reactant, product) pairs; the C15 check therefore feeds ProxyGroup.from_dict(...) into ReactionProxy(...)"}
    except Exception as e:  # noqa: evidence only
        return {"error": "%s: %s" % (type(e).__name__, str(e)[:200])}


def run(tier, seed):
    from fgutils.parse import Parser
    from fgutils.proxy import ProxyGroup, ProxyGraph
    from fgutils.proxy_collection.diels_alder_proxy import DielsAlderProxy
    import rdkit.RDLogger
    rdkit.RDLogger.DisableLog("rdApp.*")
    r = Run("C15", tier, seed)
    if not prepare(r, PROOFS, "C15"):
        return 2
    rng = r.rng
    contract = {}
    machinery = []
    pool, jobs, parts = start_real_iteration(tier)
    ro_jobs = start_real_objects(pool, parts, seed) if tier == "quick" else []
    cases = [c for c in table_cases(r, contract) if c.meta["table"] != "common"]
    # ---- the documented counts must not depend on which proxies were constructed earlier in the
    # process (history): construct the shipped proxy in both orders and evaluate the HARNESS's count formula on
    # the effective groups (formula only — no iteration; the counts that come from REAL iteration of the
    # proxy are those of `collect_real_iteration` below, reported under notes.sample_counts)
    DOC = {"da_pos": 10470, "da_neg": 12875}
    for order in (("da_neg", "da_pos"), ("da_pos", "da_neg"), ("da_pos", "da_pos")):
        for which in order:
            res = call_impl(lambda w: (lambda gc: sum(num_exp(gc[0], c) for c in gc[1]))(shipped(w)), which)
            r.count("count_after_history:%s" % ("ok" if res == DOC[which] else "WRONG"))
            if res != DOC[which]:
                pth = r.write_replay("failing-input", "count_history", {
                    "scenario": "construct DielsAlderProxy in the order %s in one process; count formula of the last one" % (order,),
                    "which": which, "count": str(res), "documented": DOC[which],
                    "spec_clause": "the number of samples equals the documented 10470 / 12875"})
                r.violation_lines.append("VIOLATION property=C15 replay=%s" % pth)
                break
        if r.violation_lines:
            break
    # ---- generated reaction proxies: every sample ------------------------------------------
    corpus = [
        ({"g": ["C", "O"]}, ["C<2,1>C<1,2>C{g}"]),
        ({"d": ["C<2,1>C<1,2>C<2,1>C"], "p": ["C<2,1>C", "C<3,2>C"]}, ["{d}1<0,1>{p}<0,1>1"]),
        ({"g": ["CCc3ccccc3"]}, ["C<1,0>C{g}"]),                       # scalar 1 and 1.5 labels from a non-ITS pattern
        ({"g": ["CC", "N"]}, ["C" * 42 + "<1,2>{g}"]),                  # samples with >= 40 atoms (m26)
        ({"g": ["O"]}, ["C1<1,2>{g}<2,1>1"]),
        ({"g": ["C<2,0>O", "N"]}, ["C<1,0>C<0,1>{g}<2,1>C"]),            # breaking bonds (k,0) in core and group pattern
        ({"d": ["C<1,0>C"], "p": ["C<0,2>O<3,0>C"]}, ["{d}<2,0>{p}"]),
        # review 3: bond order 4 (quadruple `$`) on the reactant side, the product side and both
        ({"g": ["C$C", "N"]}, ["C<3,4>C<4,3>C{g}"]),
        ({"g": ["C<0,4>C", "C<4,0>O"]}, ["C<4,4>C$C<1,4>{g}<4,1>C"]),
        # review 3 (M5): graphs of a group that differ only in the anchor / listed twice
        ({"g": [["C<1,2>O", [0]], ["C<1,2>O", [1]], ["C<1,2>O", [0]]]}, ["C<2,1>C{g}"]),
    ]
    plan = [(ci, rt) for ci in range(len(corpus)) for rt in range(len(ROUTES)) if ROUTES[rt] != "proxy_from_dict"]
    n_cfg = 90 if tier == "quick" else 1200
    n_react = 0
    for k in range(n_cfg + len(plan)):
        if len(cases) >= 300:
            count_hyp(r, r.evaluate(cases))
            cases = []
        multi = True
        # construction route of this configuration (c14.construct): a fixed share per route
        route = [ROUTES[(plan[k][1] if k < len(plan) else k) % len(ROUTES)], rng.randrange(1 << 30)]
        if route[0] == "proxy_from_dict":
            route[0] = "group_from_dict"           # Proxy.from_dict builds a plain Proxy; its groups part is ProxyGroup.from_dict
        if route[0] == "objects":
            route = None
        if k < len(plan):
            spec, cores = corpus[plan[k][0]]
            groups = {n: ProxyGroup(n, [ProxyGraph(p, anchor=[0]) if isinstance(p, str) else ProxyGraph(p[0], anchor=list(p[1])) for p in ps])
                      for n, ps in spec.items()}
        else:
            for _ in range(20):
                groups, core, flags = gen_config(rng, allow_errors=False)
                if 0 < num_exp(groups, core) <= 60:
                    break
            if rng.random() < 0.7:
                # breaking bonds <k,0> (and more forming bonds <0,k>) in group patterns and core
                groups = {n: ProxyGroup(n, [ProxyGraph(with_breaking_bonds(pg.pattern, rng), anchor=list(pg.anchor))
                                            for pg in g_.graphs]) for n, g_ in groups.items()}
                core = with_breaking_bonds(core, rng)
            cores = [core]
            multi = rng.random() < 0.8
        try:
            pats = [Parser(use_multigraph=multi).parse(pg.pattern) for g_ in groups.values() for pg in g_.graphs] + \
                   [Parser(use_multigraph=multi).parse(c) for c in cores]
        except Exception:
            continue
        if any(gg.has_edge(n, n) for gg in pats for n, d in gg.nodes(data=True) if d["is_labeled"]):
            continue
        spec_w = spec_of(groups)
        res = call_impl(impl_reactions, cores, groups, multi, route, spec_w)
        meta = {"groups": spec_w, "cores": cores, "multi": multi, "route": route}
        # the whole configuration against the MODEL's expansion: the patterns the proxy expands are the model's (ids 0..n-1,
        # nothing lost or merged on the way), and every (X, G, H) passes the sample check
        try:
            cfg_w = enc_config(groups, multi, contract)
            cores_w = [enc_graph(Parser(use_multigraph=multi).parse(c)) for c in cores]
        except Exception:
            continue
        impl_all = res if isinstance(res, ImplError) else sorted(([canon_graph(x), canon_graph(g), canon_graph(h)] for x, g, h in res), key=sx)
        cases.append(Case([Atom("C15"), Atom("reactions"), cfg_w, cores_w], impl_all, meta=dict(meta, whole_configuration=True),
                          tags=("reactions(whole configuration vs model expansion)", "multi" if multi else "simple",
                                "impl_raised" if isinstance(res, ImplError) else "impl_ok", "route=%s" % (route[0] if route else "objects")),
                          nontrivial_key=("R", sx(cfg_w), tuple(cores))))
        if isinstance(res, ImplError):
            continue
        for i, (x, g, h) in enumerate(res):
            n_react += 1
            big = x.number_of_nodes() >= 41
            o4 = [b for _, _, d in x.edges(data=True) for b in (d.get("bond") if isinstance(d.get("bond"), (tuple, list)) else [d.get("bond")])]
            if 4 in o4:
                r.count("generated:samples_with_bond_order_4")
            cases.append(Case([Atom("C15"), Atom("reaction"), False, enc_graph(x)], [canon_graph(g), canon_graph(h)],
                              meta=dict(meta, sample=i), tags=("reaction", "generated", "atoms>=41" if big else "atoms<41",
                                                               "multi" if multi else "simple"),
                              nontrivial_key=("r", sx(enc_graph(x))) if any(isinstance(d.get("bond"), (tuple, list)) for _, _, d in x.edges(data=True)) else None))
    # ---- shipped Diels-Alder proxy: random samples along choice paths -------------------------
    n_paths = 300 if tier == "quick" else 1500
    san_fail = []
    for which in ("da_pos", "da_neg"):
        groups, cores = shipped(which)
        core_pgs = DielsAlderProxy(neg_sample=(which == "da_neg")).core.graphs
        cfg = enc_config(groups, True, contract)
        core_gs = [enc_graph(Parser(use_multigraph=True).parse(c)) for c in cores]
        batch = []
        for i in range(n_paths):
            ci = rng.randrange(len(core_pgs))
            choices, x, g, h = da_path_sample(groups, core_pgs, ci, rng)
            batch.append((ci, choices, x, g, h))
            for side, gg in (("G", g), ("H", h)):
                f = sanitize_fail(gg)
                if f:
                    san_fail.append({"collection": which, "core": ci, "choices": choices, "side": side, "error": f})
        for i in range(0, len(batch), 15):
            chunk = batch[i:i + 15]
            req = [Atom("C15"), Atom("paths"), True, cfg, core_gs, True, [[ci, ch] for ci, ch, _, _, _ in chunk]]
            impl = [[canon_graph(x), canon_graph(g), canon_graph(h)] for _, _, x, g, h in chunk]
            cases.append(Case(req, impl, meta={"collection": which, "paths": [[ci, ch] for ci, ch, _, _, _ in chunk]},
                              tags=("da_paths:" + which,), nontrivial_key=("p", which, i)))
        r.count("tag:da_samples:" + which, len(batch))
    count_hyp(r, r.evaluate(cases))
    r.notes["generated_reaction_samples"] = n_react
    # ---- samples of the REAL DielsAlderProxy objects (quick; drawn in worker processes) ---------------------------
    if ro_jobs:
        r.evaluate(real_object_cases(r, ro_jobs, san_fail, machinery))
    r.notes["ReactionProxy.from_dict"] = reaction_proxy_from_dict_probe()
    # ---- counts from REAL iteration of the shipped proxy, core graph by core graph -----------------
    check_model_spec(r, collect_real_iteration(r, pool, jobs, parts, contract, machinery))
    # ---- thorough: the complete enumeration, both modes ---------------------------------------
    if tier == "thorough":
        for which in ("da_pos", "da_neg"):
            thorough_da(r, which, contract, san_fail)
    r.notes["rdkit_sanitisation_failures"] = len(san_fail)
    if san_fail:
        p = r.write_replay("failing-input", "sanitize", {"spec_clause": "both sides are valence-valid molecules (RDKit sanitisation)",
                                                          "witnesses": san_fail[:5]})
        r.violation_lines.append("VIOLATION property=C15 replay=%s" % p)
    bad = [k for k, v in contract.items() if not v]
    if bad:
        p = r.write_replay("correspondence", "parse_offset_contract",
                           {"theorem_or_correspondence": ["assumed contract parse(p, idx_offset=k) = shift (parse p) k (C01)"],
                            "witnesses": [list(b) for b in bad[:5]]})
        r.violation_lines.append("VIOLATION property=C15 replay=%s no-failing-input-found" % p)
    if r.notes.get("general_resuper_failures"):
        p = r.write_replay("theorem", "superposition_general", {"theorem_or_correspondence": [
            "C15.resuperGeneralB_ok: generalOk x but the general get_its(*split_its(x)) differs from the lifted pattern on %d samples"
            % r.notes["general_resuper_failures"]]})
        r.violation_lines.append("VIOLATION property=C15 replay=%s no-failing-input-found" % p)
    finalize_model_spec(r)
    r.extra_cov["notes"] = r.notes
    r.assumptions = [
        "Model/C13.lean, Model/C14.lean (validated by the C13/C14 checks); split_its as modelled in Model/C15.lean "
        "(validated here on every sample); the two halves of every implementation sample are checked DIRECTLY against the model's "
        "split of the pattern's labels (Model/C15.lean: halvesB - same nodes/symbols/aam = id+1, exactly the same bonded pairs with "
        "the same scalar non-zero labels; no tuple label, missing label or extra bond can hide behind the totalised orderOf/getD of "
        "the get_its models; C15.halvesB_sound, C15.halvesB_reaction); superposition is an additional clause, checked twice on every sample: with the small get_its of Model/C15.lean "
        "(graphs on the same nodes with aam = id+1) and with the general get_its of Model/C09.lean (validated against fgutils.its by "
        "the C09/C10 checks) through the adapter of Model/C15General.lean; C15.superposition_general / getIts_small_eq_general prove "
        "that the two agree on every sample in the decidable domain generalOk",
        "RDKit (RWMol, sanitisation incl. kekulisation) is not modelled: 'valence-valid molecules' is checked by the harness only, on a "
        "molecule the harness builds with RDKit ALONE (c15.rdkit_direct_mol: atoms by element symbol, bonds by an order table written in "
        "the harness; fgutils.rdkit.graph_to_mol is not on the oracle's path - review 3, L2); "
        "the model-side explicit-valence bound uses a fixed table of maximal valences (Model/C15.lean: maxValence)",
        "the SHAPE part of the DA-centre clause (one six-membered carbon cycle, label multiset, no other changing bond) is a theorem about "
        "the model for every sample of the regenerated configuration in both modes (C15.da_rc_shape_thm / da_rc_shape_all; general lemmas "
        "C15.rc_step, C15.rc_shape_general; side conditions by decide +kernel over the group tables and the first three substitution levels "
        "of the two core graphs, no sample enumerated); its executable form daCycleB (C15.daCycleB_sound) is applied to every implementation sample",
        "the explicit-VALENCE part of the DA-centre clause is a test: exhaustive enumeration of the finite shipped configuration by the compiled "
        "model and by Python (daCentreOk; thorough tier; 300 random samples per mode in quick), not a kernel-checked theorem: an anchor atom "
        "inherits the bonds of the label node it replaces through chains of single-label patterns, the empty pattern H drops bonds, and the "
        "Kekule-style valence count is not additive",
        "random DA samples are drawn with a restricting sampler (one graph per call); the complete enumeration uses the shipped non-restricting samplers",
        "REAL OBJECTS in quick (review 3, L3): %d samples per mode are taken from a real DielsAlderProxy(neg_sample=False/True) object with "
        "next(obj) (the first 20, the last 20 and seeded random ones of the expansion of its first core graph - 4590 / 1360 samples are drawn), "
        "X = what a second real object's own generator yields in lockstep (Proxy.get_next); judged by the same executable property as the "
        "path samples (check_samples, da = true) and sanitised with RDKit alone (coverage.notes.real_DielsAlderProxy_object_samples)" % N_REAL_OBJECT,
        "CONSTRUCTION ROUTES (review 3, M5): a fixed share of the generated reaction proxies (and every corpus configuration along every "
        "route) is built through c14.construct - objects in every argument form, ProxyGroup.from_dict / from_dict_single in every documented "
        "JSON form, explicit samplers - for Proxy and ReactionProxy alike (tags route=*); ReactionProxy.from_dict is the inherited "
        "Proxy.from_dict and builds a plain Proxy (coverage.notes['ReactionProxy.from_dict']), so the dict route feeds ProxyGroup.from_dict "
        "into ReactionProxy(...).  Generated patterns carry bond orders 0-4 on either side (quadruple `$`, <k,4>, <4,k>; "
        "input_distribution generated:samples_with_bond_order_4)",
        "SAMPLE COUNTS: coverage.notes.sample_counts states per mode and core graph which counts come from REAL iteration of the "
        "shipped proxy (a ReactionProxy built from that single core ProxyGraph, unique core sampler, and the proxy's own effective groups, "
        "iterated until it stops, in a worker process; the other mode's proxy constructed first for core 0 = history) and which only from "
        "the count formula; quick iterates da_pos completely (4590 + 5880 = 10470) and core 0 of da_neg (1360), the inter-molecular core "
        "of da_neg (11515) is formula-only in quick and really enumerated in thorough; 'count_after_history' is the HARNESS's formula on "
        "the effective groups (no iteration)",
        "the decidable hypotheses of the theorems (hypB: C15.superposition / halvesB_reaction / balanced_mapped_of; generalOk: "
        "C15.superposition_general) are evaluated by the driver on every generated sample and on every Diels-Alder path sample "
        "(input_distribution generated:* / da_pos:* / da_neg:*)",
    ]
    if machinery:
        r.notes["machinery_errors"] = machinery
    rc = r.finish(
        level="proof",
        rule="every sample of bounded random reaction-proxy configurations (each configuration also as a whole against the model's expansion; see C14's generator; ITS and scalar patterns, simple and multigraph "
             "parser, samples with >= 41 atoms, bond orders 0-4 on both sides, every construction route); DielsAlderProxy both modes: %d random choice paths per mode "
             "+ 240 samples of the real object (quick) / complete enumeration (thorough); non-trivial = sample whose expanded pattern carries at least one ITS pair label" % n_paths,
        checker_cmd="cd lean && lake build FGVerif.Proofs.C15 FGVerif.Proofs.C15Rc && lake env lean FGVerif/Audit/C15.lean",
        explanation="theorems C15.halvesB_sound / C15.halvesB_reaction (direct check of the halves, Proofs/C15Halves.lean), "
                    "C15.balanced_mapped / C15.superposition / C15.superposition_general (for the general C09/C10 models of "
                    "get_its/split_its, Proofs/C15General.lean), C15.da_counts (generated table, kernel arithmetic) and "
                    "C15.da_rc_shape_thm (Diels-Alder reaction-centre shape of every sample, both modes, Proofs/C15Rc*.lean) in "
                    "lean/FGVerif/Proofs/C15*.lean; executable property (balanced, mapped, halves label by label (halvesB), superposition, daCentreOk, daCycleB) applied by the compiled "
                    "driver to every implementation sample; model tied to the code sample by sample")
    if machinery:
        # a harness / worker defect is never a VIOLATION and never a pass
        for m in machinery:
            print("ERROR property=C15 machinery failure: %s" % m)
        if rc == 0:
            rc = 2
    return rc


def replay(path):
    """re-run the sample(s) of a replay file against the current tree"""
    import json
    from fgutils.parse import Parser
    from fgutils.proxy_collection.diels_alder_proxy import DielsAlderProxy
    from common import Driver, parse_sx, Outcome
    from c14 import groups_from_meta
    d = json.load(open(path))
    meta = d.get("meta") or {}
    if "core_counts" in meta:
        which = meta["core_counts"]
        groups, cores = shipped(which)
        res = [_iterate_core((which, ci, ci == 0)) if it else None for ci, it in enumerate(meta["iterated"])]
        errs = [x[3] for x in res if x is not None and x[3]]
        impl = ImplError(RuntimeError(errs[0])) if errs else [None if x is None else x[2] for x in res]
        case = Case([Atom("C15"), Atom("core_counts"), Atom(which), enc_config(groups, True),
                     [enc_graph(Parser(use_multigraph=True).parse(c)) for c in cores], list(meta["iterated"])], impl, meta=meta)
    elif "real_object_indices" in meta:
        which = meta["collection"]
        idx = [int(i) for i in meta["real_object_indices"]]
        print("re-drawing %d samples with next() from a real DielsAlderProxy(neg_sample=%s) object" % (max(idx) + 1, which == "da_neg"))
        try:
            impl = [[canon_graph(x), canon_graph(g), canon_graph(h)] for _, x, g, h in real_object_samples(which, idx)]
        except Exception as e:  # noqa
            print("replay %s: the implementation raises %s" % (path, type(e).__name__))
            print("VIOLATION property=C15 replay=%s" % path)
            return 1
        case = Case([Atom("C15"), Atom("check_samples"), True, impl], None, compare_model=False, meta=meta)
    elif "paths" in meta:
        which = meta["collection"]
        groups, cores = shipped(which)
        core_pgs = DielsAlderProxy(neg_sample=(which == "da_neg")).core.graphs
        from fgutils.proxy import Proxy, ReactionProxy, ProxyGroup
        impl = []
        for ci, ch in meta["paths"]:
            x = next(Proxy(ProxyGroup("__core__", [core_pgs[ci]], unique=True), with_sampler(groups, PathSampler(replay=ch)), enable_aam=True))
            g, h = next(ReactionProxy(ProxyGroup("__core__", [core_pgs[ci]], unique=True), with_sampler(groups, PathSampler(replay=ch)), enable_aam=True))
            impl.append([canon_graph(x), canon_graph(g), canon_graph(h)])
        case = Case([Atom("C15"), Atom("paths"), True, enc_config(groups, True), [enc_graph(Parser(use_multigraph=True).parse(c)) for c in cores],
                     True, meta["paths"]], impl, meta=meta)
    elif "groups" in meta and meta.get("whole_configuration"):
        groups = groups_from_meta(meta)
        res = call_impl(impl_reactions, meta["cores"], groups, meta["multi"], meta.get("route"), meta["groups"])
        impl_all = res if isinstance(res, ImplError) else sorted(([canon_graph(x), canon_graph(g), canon_graph(h)] for x, g, h in res), key=sx)
        case = Case([Atom("C15"), Atom("reactions"), enc_config(groups, meta["multi"]),
                     [enc_graph(Parser(use_multigraph=meta["multi"]).parse(c)) for c in meta["cores"]]], impl_all, meta=meta)
    elif "groups" in meta and "sample" in meta:
        res = call_impl(impl_reactions, meta["cores"], groups_from_meta(meta), meta["multi"], meta.get("route"), meta["groups"])
        if isinstance(res, ImplError):
            print("replay %s: the implementation raises %s" % (path, res.text))
            print("VIOLATION property=C15 replay=%s" % path)
            return 1
        x, g, h = res[meta["sample"]]
        case = Case([Atom("C15"), Atom("reaction"), False, enc_graph(x)], [canon_graph(g), canon_graph(h)], meta=meta)
    else:
        print("replay file carries no re-runnable sample (kind=%s): %s; re-run ./check C15" % (d.get("kind"), d.get("theorem_or_correspondence") or d.get("spec_clause")))
        return 2   # nothing to re-run: not a VIOLATION (exit 1 iff a VIOLATION line is printed)
    drv = Driver()
    o = Outcome(case, drv.ask(case.line()))
    drv.close()
    print("replay %s: implementation output %s the specification; model %s implementation"
          % (path, "VIOLATES" if o.spec_fail else "meets", "==" if o.corr else "!="))
    if o.spec_fail or not o.corr:
        print("VIOLATION property=C15 replay=%s%s" % (path, "" if o.spec_fail else " no-failing-input-found"))
        return 1
    return 0


def thorough_da(r, which, contract, san_fail):
    from fgutils.parse import Parser
    from fgutils.proxy import Proxy, ProxyGroup
    from fgutils.proxy_collection.diels_alder_proxy import DielsAlderProxy
    neg = which == "da_neg"
    groups, cores = shipped(which)
    cfg = enc_config(groups, True, contract)
    core_gs = [enc_graph(Parser(use_multigraph=True).parse(c)) for c in cores]
    p = DielsAlderProxy(neg_sample=neg)
    xs = list(Proxy(ProxyGroup("__DA_core__", p.core.graphs, unique=True), groups, enable_aam=True))
    ghs = list(DielsAlderProxy(neg_sample=neg))
    samples = []
    if len(xs) == len(ghs):
        for x, (g, h) in zip(xs, ghs):
            samples.append([canon_graph(x), canon_graph(g), canon_graph(h)])
            for side, gg in (("G", g), ("H", h)):
                f = sanitize_fail(gg)
                if f:
                    san_fail.append({"collection": which, "index": len(samples) - 1, "side": side, "error": f})
    rep = r.get_driver().ask(sx([Atom("C15"), Atom("enum_fp"), True, cfg, core_gs, True]))
    ok = isinstance(rep, list) and rep[0] == "ok" and isinstance(rep[1], list)
    model = rep[1] if ok else []
    impl_fp = [[[str(v) for v in fingerprint(c)] for c in s] for s in samples]
    # compared as multisets (a harmless change of the enumeration order must stay quiet); the order is recorded
    same_order = [b[:3] for b in model] == impl_fp
    model_keys = sorted(map(str, (b[:3] for b in model)))
    impl_keys = sorted(map(str, impl_fp))
    first_diff = None
    if model_keys != impl_keys:
        mk = set(model_keys)
        first_diff = next((i for i, a in enumerate(impl_fp) if str(a) not in mk), 0)
    model_bad = [i for i, b in enumerate(model) if b[3] != "1"]
    expected = 12875 if neg else 10470
    r.evaluations += len(samples)
    r.traces_validated += len(samples)
    r.count("tag:da_complete:" + which, len(samples))
    r.notes["thorough:" + which] = {"impl_samples": len(ghs), "impl_patterns": len(xs), "model_samples": len(model),
                                    "documented": expected, "first_differing_index": first_diff, "same_order": same_order,
                                    "model_samples_failing_property": len(model_bad)}
    if not ok or len(xs) != len(ghs) or len(model) != len(samples) or first_diff is not None:
        pth = r.write_replay("correspondence", "enum_" + which, {
            "theorem_or_correspondence": ["complete enumeration of %s: compiled model vs DielsAlderProxy, sample by sample" % which],
            "impl_count": len(ghs), "model_count": len(model), "first_differing_index": first_diff,
            "impl_sample": sx(samples[first_diff]) if first_diff is not None else None})
        r.violation_lines.append("VIOLATION property=C15 replay=%s no-failing-input-found" % pth)
    if len(ghs) != expected:
        pth = r.write_replay("failing-input", "count_" + which, {"spec_clause": "number of samples equals the documented count",
                                                                  "impl_count": len(ghs), "documented": expected})
        r.violation_lines.append("VIOLATION property=C15 replay=%s" % pth)
    cases = []
    for i in range(0, len(samples), 100):
        cases.append(Case([Atom("C15"), Atom("check_samples"), True, samples[i:i + 100]], None, compare_model=False,
                          meta={"collection": which, "first_index": i}, tags=("check_samples:" + which,)))
    r.evaluate(cases)
